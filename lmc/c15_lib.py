"""C15 helper: case -> definitions -> real construction -> observation, networkx reference, digests,
and the child-process entry point used for the cross-hash-seed determinism check.

A *definition case* (JSON-able dict):

    {"n": 3,                 # number of declared variables
     "bits": 5,              # subset of the n(n-1) ordered pairs (i, j), i != j: bit k set <=> PAIRS(n)[k] = (i, j)
                             #   is an edge "i is a direct ancestor of j"
     "names": 0,             # index in ALPHABETS (node i is called ALPHABETS[names][i])
     "loops": 0,             # bit i set <=> variable i lists itself among its ancestors
     "unknown": 0,           # bit i set <=> variable i lists the undeclared name UNKNOWN among its ancestors
     "extra": None,          # None | "extra_key" | "missing_key" | "extra_var"  (direct constructor only)
     "ctor": "direct",       # "direct" | "from_dict" (generated keyword-only functions) | "from_dict_nif" (NamedInputFunction)
     "perm_vars": None,      # insertion order of the `variables` dict (list of node indices), None = identity
     "perm_anc": None,       # insertion order of the `direct_ancestors` dict and of the elements fed to each frozenset /
                             #   of the keyword-only parameters, None = identity
     "relabel": None}        # permutation p of node indices: node i is called ALPHABETS[names][p[i]]
"""

from __future__ import annotations

import copy
import functools
import hashlib
import inspect
import itertools
import json
import re
import sys

import networkx as nx
import torch

from .core import time_limit

import leaspy.models  # noqa: F401  (must be imported before leaspy.variables.*)
from leaspy.utils.functional import NamedInputFunction, Sum
from leaspy.variables.dag import VariablesDAG
from leaspy.variables.distributions import Normal
from leaspy.variables.specs import (
    DataVariable,
    Hyperparameter,
    IndepVariable,
    IndividualLatentVariable,
    LatentVariable,
    LinkedVariable,
    ModelParameter,
    PopulationLatentVariable,
)

# name alphabets: (0) sorted order == index order; (1) identifiers whose sorted order is neither the index order nor the
# numeric order; (2) arbitrary strings (empty, blank inside, non-ASCII, digit) -- not usable as keyword names
ALPHABETS = [
    ["a", "b", "c", "d", "e"],
    ["x10", "x9", "X1", "_x", "x"],
    ["zeta", "", "a b", "Ω", "0"],
    [f"n{i}" for i in range(16)],  # for the larger hand-enumerated families ("n10" < "n2": sorted order != index order)
    # names that collide under common normalisations: an order that is not a function of the EXACT names (case-insensitive,
    # stripped, casefolded, NFKC-normalised sort keys...) ties on them and falls back on insertion / hash order
    ["X", "x", "Xa", "xA", "xa"],  # (4) equal up to case, valid identifiers
    ["a", " a", "\u00df", "ss", "a "],  # (5) equal up to surrounding whitespace; casefold("\u00df") == "ss"
    ["\ufb01", "fi", "\u212a", "k", "K"],  # (6) NFKC("\ufb01") == "fi"; lower(KELVIN SIGN) == "k" == lower("K")
    # (7) valid identifiers that other parts of the library give a special meaning to as *keywords* (update rules receive
    # `state`): in a plain dictionary of definitions they are variable names like any other
    ["state", "self", "kws", "dag", "f"],
]
GRID_ALPHABETS = [0, 1, 2, 4, 5, 6, 7]
UNKNOWN = "zz"
CTORS_FOR_ALPHABET = {0: ("direct", "from_dict", "from_dict_nif"), 1: ("direct", "from_dict", "from_dict_nif"),
                      2: ("direct", "from_dict_nif"), 3: ("direct", "from_dict", "from_dict_nif"),
                      4: ("direct", "from_dict", "from_dict_nif"),
                      # (5), (6): not usable as keyword names (blanks; the parser NFKC-normalises identifiers)
                      5: ("direct", "from_dict_nif"), 6: ("direct", "from_dict_nif"),
                      7: ("direct", "from_dict", "from_dict_sig")}
# "from_dict_sig": keyword-only functions that all come from ONE factory (one shared code object) and carry their parameters
# in `__signature__` / through `functools.wraps` - what inspect.signature reads, as the library does
# "direct_onekind" / "from_dict_linked": every variable is of ONE class (all IndepVariable with explicit ancestors; all LinkedVariable,
# the roots being parameter-less ones): the per-kind listing then spans the whole graph
CTORS_FOR_ALPHABET[1] = CTORS_FOR_ALPHABET[1] + ("direct_onekind", "from_dict_linked")
CTORS_FOR_ALPHABET[0] = CTORS_FOR_ALPHABET[0] + ("from_dict_sig",)
CTORS_FOR_ALPHABET[3] = CTORS_FOR_ALPHABET[3] + ("from_dict_sig",)
SITE = {"direct": "VariablesDAG()", "from_dict": "VariablesDAG.from_dict", "from_dict_nif": "VariablesDAG.from_dict",
        "from_dict_sig": "VariablesDAG.from_dict", "direct_onekind": "VariablesDAG()", "from_dict_linked": "VariablesDAG.from_dict"}


@functools.lru_cache(None)
def PAIRS(n):
    return tuple((i, j) for i in range(n) for j in range(n) if i != j)


def edges_of(n, bits):
    return [p for k, p in enumerate(PAIRS(n)) if (bits >> k) & 1]


def bits_of(n, edges):
    idx = {p: k for k, p in enumerate(PAIRS(n))}
    return sum(1 << idx[tuple(e)] for e in edges)


def make_case(n, bits, names=0, ctor="direct", loops=0, unknown=0, extra=None, perm_vars=None, perm_anc=None,
              relabel=None):
    return {"n": n, "bits": bits, "names": names, "loops": loops, "unknown": unknown, "extra": extra, "ctor": ctor,
            "perm_vars": perm_vars, "perm_anc": perm_anc, "relabel": relabel}


def canonical(case):
    """The same definitions written without relabelling (node called alpha[k] gets index k)."""
    rl = case.get("relabel")
    if rl is None:
        return case
    n = case["n"]
    edges = [(rl[i], rl[j]) for i, j in edges_of(n, case["bits"])]
    loops = sum(1 << rl[i] for i in range(n) if (case.get("loops", 0) >> i) & 1)
    unknown = sum(1 << rl[i] for i in range(n) if (case.get("unknown", 0) >> i) & 1)
    return dict(case, bits=bits_of(n, edges), loops=loops, unknown=unknown, relabel=None)


def case_key(case):
    """16-character key of the *definitions* (not of the constructor / insertion order / way of writing them)."""
    case = canonical(case)
    x = {"extra_key": "k", "missing_key": "m", "extra_var": "v", None: "-"}[case.get("extra")]
    s = f"C15{case['n']}{case['names']}{case.get('loops', 0):02x}{case.get('unknown', 0):02x}{x}{case['bits']:06x}"
    if len(s) != 16:  # larger families: digest of the same text
        s = hashlib.blake2b(s.encode(), digest_size=8).hexdigest()
    return s


# ------------------------------------------------------------------------------------------
# definitions

def node_names(case):
    alpha = ALPHABETS[case["names"]]
    rl = case.get("relabel")
    n = case["n"]
    return [alpha[rl[i]] if rl is not None else alpha[i] for i in range(n)]


def definitions(case):
    """-> (names, parents) with parents[i] = list of ancestor *names* of node i in canonical (index) order."""
    n = case["n"]
    names = node_names(case)
    parents = [[] for _ in range(n)]
    for i, j in edges_of(n, case["bits"]):
        parents[j].append(names[i])
    for j in range(n):
        if (case.get("loops", 0) >> j) & 1:
            parents[j].append(names[j])
        if (case.get("unknown", 0) >> j) & 1:
            parents[j].append(UNKNOWN)
    return names, parents


@functools.lru_cache(None)
def kw_fn(params: tuple):
    """A function with exactly these keyword-only parameters."""
    if not params:
        src = "def f():\n    return 0\n"
    else:
        src = f"def f(*, {', '.join(params)}):\n    return 0\n"
    ns = {}
    exec(src, ns)
    return ns["f"]


def _passthrough(g):
    @functools.wraps(g)
    def wrapper(**kws):
        return g(**kws)
    return wrapper


@functools.lru_cache(None)
def sig_fn(params: tuple):
    """Same keyword-only parameters as kw_fn(params), but the function object shares its code with every other one: either a
    generic `def f(**kws)` carrying an explicit `__signature__`, or a functools.wraps wrapper (even / odd number of parameters)."""
    import inspect

    if len(params) % 2 == 1:
        return _passthrough(kw_fn(params))

    def f(**kws):
        return 0

    f.__signature__ = inspect.Signature([inspect.Parameter(p, inspect.Parameter.KEYWORD_ONLY) for p in params])
    return f


@functools.lru_cache(None)
def _linked(kind, params: tuple):
    """Specifications are immutable (frozen dataclasses): one instance per distinct parameter tuple is shared by all cases."""
    if kind == "from_dict":
        return LinkedVariable(kw_fn(params))
    if kind == "from_dict_sig":
        return LinkedVariable(sig_fn(params))
    return LinkedVariable(Sum(*params))


@functools.lru_cache(None)
def _root_variable(i):
    k = i % 5
    if k == 0:
        return IndepVariable()
    if k == 1:
        return DataVariable()
    if k == 2:
        return IndividualLatentVariable(Normal("m", "s"))
    if k == 3:
        return LinkedVariable(kw_fn(()))  # a linked variable that depends on nothing
    return Hyperparameter(torch.tensor(1.0))


def build_inputs(case):
    """-> (variables, direct_ancestors or None) freshly built dicts in the requested insertion orders."""
    n = case["n"]
    ctor = case["ctor"]
    names, parents = definitions(case)
    pv = case.get("perm_vars") or list(range(n))
    pa = case.get("perm_anc") or list(range(n))
    rank = {names[i]: r for r, i in enumerate(pa)}  # element order inside each set follows perm_anc too
    rank[UNKNOWN] = -1 if pa and pa[0] != 0 else n

    def ordered(ps):
        return sorted(ps, key=lambda p: rank[p])

    variables = {}
    for i in pv:
        if ctor == "direct":
            variables[names[i]] = _root_variable(i)
        elif ctor == "direct_onekind":
            variables[names[i]] = _root_variable(0)  # IndepVariable for every node
        elif ctor == "from_dict_linked":
            variables[names[i]] = _linked("from_dict", tuple(ordered(parents[i]))) if parents[i] else _root_variable(3)
        elif not parents[i]:
            variables[names[i]] = _root_variable(i)
        elif ctor == "from_dict":
            variables[names[i]] = _linked("from_dict", tuple(ordered(parents[i])))
        elif ctor in ("from_dict_nif", "from_dict_sig"):
            variables[names[i]] = _linked(ctor, tuple(ordered(parents[i])))
        else:
            raise ValueError(ctor)
    if ctor not in ("direct", "direct_onekind"):
        if case.get("extra"):
            raise ValueError("key variants only exist for the direct constructor")
        return variables, None
    anc = {names[i]: frozenset(ordered(parents[i])) for i in pa}
    extra = case.get("extra")
    if extra == "extra_key":
        anc[UNKNOWN] = frozenset()
    elif extra == "missing_key":
        anc.pop(names[pa[-1]])
    elif extra == "extra_var":
        variables[UNKNOWN] = IndepVariable()
    elif extra is not None:
        raise ValueError(extra)
    return variables, anc


def construct(variables, anc):
    """The execution of the implementation (one transition)."""
    if anc is None:
        return VariablesDAG.from_dict(variables)
    return VariablesDAG(variables, anc)


# ------------------------------------------------------------------------------------------
# observation

_REASONS = [
    ("inconsistent", re.compile(r"Inconsistent nodes|do not match")),
    ("unknown", re.compile(r"are unknown")),
    ("self", re.compile(r"have self ")),
    ("isolated", re.compile(r"left alone")),
    ("cycle", re.compile(r"not a DAG")),
]


def refusal_reason(exc):
    msg = str(exc)
    for name, rx in _REASONS:
        if rx.search(msg):
            return name
    return "other"


def observe(dag):
    """JSON-able observation of everything the property talks about (key orders of plain mappings excluded)."""
    order = dag.sorted_variables_names
    return {
        "order": list(order),
        "children": {k: list(v) for k, v in sorted(dag.sorted_children.items())},
        "ancestors": {k: list(v) for k, v in sorted(dag.sorted_ancestors.items())},
        "direct_children": {k: sorted(v) for k, v in sorted(dag.direct_children.items())},
        "by_type": {t.__name__: list(m.keys()) for t, m in sorted(dag.sorted_variables_by_type.items(), key=lambda kv: kv[0].__name__)},
        "iter": list(dag),
        "len": len(dag),
        "individual": list(dag.individual_variable_names),
    }


CASE_TIME_LIMIT_S = 5.0  # a construction takes < 1 ms (model graphs: < 50 ms); a non-terminating one is a refusal by CaseTimeout


def run_once(variables, anc):
    """-> ("accepted", dag, observation) | ("refused", exc, "refused:<Type>:<reason>")"""
    try:
        with time_limit(CASE_TIME_LIMIT_S):
            dag = construct(variables, anc)
    except Exception as e:  # every exception of the implementation is an observation (CaseTimeout included)
        return "refused", e, f"refused:{type(e).__name__}:{refusal_reason(e)}"
    return "accepted", dag, observe(dag)


def obs_digest(kind, obs):
    if kind == "refused":
        return obs
    return hashlib.blake2b(json.dumps(obs, sort_keys=True).encode(), digest_size=8).hexdigest()


def case_digest(case):
    v, a = build_inputs(case)
    kind, _, obs = run_once(v, a)
    return obs_digest(kind, obs)


# ------------------------------------------------------------------------------------------
# reference (networkx + plain Python)

def reference(var_names, anc_map):
    """var_names: declared variables; anc_map: name -> iterable of direct ancestor names (keys may differ from var_names).

    -> dict(valid, reasons, graph)"""
    declared = set(var_names)
    reasons = set()
    if declared != set(anc_map):
        reasons.add("inconsistent")
    G = nx.DiGraph()
    G.add_nodes_from(var_names)
    G.add_nodes_from(anc_map)
    for child, ps in anc_map.items():
        for p in ps:
            G.add_edge(p, child)
    if set(G.nodes) - declared - set(anc_map):
        reasons.add("unknown")
    H = G
    if nx.number_of_selfloops(G):
        reasons.add("self")
        # a self-loop is a cycle for networkx: report "cycle" only for cycles of length >= 2
        H = G.copy()
        H.remove_edges_from(list(nx.selfloop_edges(G)))
    if not nx.is_directed_acyclic_graph(H):
        reasons.add("cycle")
    if any(True for _ in nx.isolates(G)):
        reasons.add("isolated")
    return {"valid": not reasons, "reasons": reasons, "graph": G}


def depth_of(G):
    return nx.dag_longest_path_length(G) if len(G) else 0


def check_accepted(site, dag, obs, variables, G, out, path_matrix=False):
    """Compare the accepted graph with the reference. `out(kind, feature, message, expected, observed)`."""
    nodes = list(variables)
    order = obs["order"]
    if sorted(order) != sorted(nodes) or not isinstance(dag.sorted_variables_names, tuple):
        out("order_not_permutation", "nodes", "sorted_variables_names is not a tuple listing every variable once", sorted(nodes), order)
        return
    pos = {v: k for k, v in enumerate(order)}
    bad = [(u, v) for u, v in G.edges if pos[u] >= pos[v]]
    if bad:
        out("order_not_topological", "edge", f"variable listed before one of its dependencies: {bad[:3]}", None, order)
    for attr, fn, label in (("children", nx.descendants, "sorted_children"), ("ancestors", nx.ancestors, "sorted_ancestors")):
        got = obs[attr]
        if sorted(got) != sorted(nodes):
            out(f"{label}_mismatch", "keys", f"{label} keys differ from the variables", sorted(nodes), sorted(got))
            continue
        for v in nodes:
            ref_set = fn(G, v)
            exp = [x for x in order if x in ref_set]
            if got[v] != exp:
                feature = "order" if sorted(got[v]) == sorted(exp) else ("missing" if set(exp) - set(got[v]) else "extra")
                out(f"{label}_mismatch", feature, f"{label}[{v!r}] = {got[v]} but transitive set in global order is {exp}", exp, got[v])
                break
    exp_dc = {v: sorted(G.successors(v)) for v in sorted(nodes)}
    if obs["direct_children"] != exp_dc:
        out("direct_children_mismatch", "set", "direct_children is not the inverse of direct_ancestors", exp_dc, obs["direct_children"])
    exp_bt = {}
    for x in order:
        exp_bt.setdefault(type(variables[x]).__name__, []).append(x)
    if obs["by_type"] != exp_bt:
        out("by_type_mismatch", "order", "sorted_variables_by_type is not the global order stratified per type", exp_bt, obs["by_type"])
    if obs["individual"] != exp_bt.get("IndividualLatentVariable", []):
        out("by_type_mismatch", "individual_variable_names", "individual_variable_names", exp_bt.get("IndividualLatentVariable", []), obs["individual"])
    if obs["iter"] != order or obs["len"] != len(nodes) or any(dag[v] is not variables[v] for v in nodes):
        out("mapping_interface", "iter/len/getitem", "Mapping interface disagrees with the order / the variables", order, obs["iter"])
    if path_matrix:
        try:
            sn, pm = VariablesDAG.compute_topological_order_and_path_matrix(dag.direct_children, dag.direct_ancestors)
            exp_pm = [[(b in nx.descendants(G, a)) for b in sn] for a in sn]
            if list(sn) != order or pm.tolist() != exp_pm:
                out("path_matrix_mismatch", "static", "compute_topological_order_and_path_matrix: path matrix is not the reachability relation in the returned order", exp_pm, pm.tolist())
        except Exception as e:
            out("path_matrix_mismatch", type(e).__name__, f"static method raised {type(e).__name__}: {e}", None, None)


def check_case(case, emit, *, twice=True, path_matrix=False):
    """Full oracle for one definition case.

    emit(signature, message, expected, observed).  Returns (outcome label, kind, observation, n_transitions, valid)."""
    site = SITE[case["ctor"]]

    def out(kind, feature, message, expected=None, observed=None):
        emit(f"{site}|{kind}|{feature}", message, expected, observed)

    variables, anc = build_inputs(case)
    var_copy = dict(variables)
    anc_copy = None if anc is None else {k: frozenset(v) for k, v in anc.items()}
    kind, res, obs = run_once(variables, anc)
    n_tr = 1
    # independent statement of the definitions (never read back from the implementation)
    names, parents = definitions(case)
    anc_map = {names[i]: list(parents[i]) for i in range(case["n"])}
    decl = list(names)
    if case.get("extra") == "extra_key":
        anc_map[UNKNOWN] = []
    elif case.get("extra") == "missing_key":
        pa = case.get("perm_anc") or list(range(case["n"]))
        anc_map.pop(names[pa[-1]])
    elif case.get("extra") == "extra_var":
        decl.append(UNKNOWN)
    ref = reference(decl, anc_map)
    if list(variables) != list(var_copy) or any(variables[k] is not var_copy[k] for k in var_copy) or (
        anc is not None and (list(anc) != list(anc_copy) or anc != anc_copy)
    ):
        out("input_mutated", "dict", "the caller's dictionaries were modified by the construction")
    if kind == "accepted":
        if not ref["valid"]:
            out("accepted_invalid", "+".join(sorted(ref["reasons"])), f"definitions that are {sorted(ref['reasons'])} were accepted; order={obs['order']}", "refusal", obs["order"])
            label = "accepted(invalid)"
        else:
            check_accepted(site, res, obs, variables, ref["graph"], out, path_matrix=path_matrix)
            label = f"accepted:depth={depth_of(ref['graph'])}"
    else:
        label = obs
        reason = obs.split(":")[2]
        if ref["valid"]:
            out("refused_valid", type(res).__name__, f"valid definitions refused: {type(res).__name__}: {str(res)[:200]}", "a graph", obs)
        elif not isinstance(res, ValueError):
            out("wrong_exception", type(res).__name__, f"invalid definitions ({sorted(ref['reasons'])}) must be refused with an input/value error, got {type(res).__name__}: {str(res)[:200]}", "ValueError family", type(res).__name__)
        elif reason != "other" and reason not in ref["reasons"]:
            out("wrong_reason", reason, f"refused as {reason!r} but the definitions are only {sorted(ref['reasons'])}", sorted(ref["reasons"]), reason)
    if twice:
        v2, a2 = build_inputs(case)
        kind2, _, obs2 = run_once(v2, a2)
        n_tr += 1
        if (kind2, obs2) != (kind, obs):
            out("nondeterministic", "twice", "two constructions from equal definitions differ", obs, obs2)
    return label, kind, obs, n_tr, ref["valid"]


# ------------------------------------------------------------------------------------------
# model graphs

def independent_ancestors(var):
    """Ancestor names of a variable specification read without `get_ancestors_names`."""
    if isinstance(var, LinkedVariable):
        f = var.f
        if isinstance(f, NamedInputFunction):
            return set(f.parameters)
        return {p for p, q in inspect.signature(f).parameters.items() if q.kind is q.KEYWORD_ONLY}
    return set()


def model_definitions(model_name):
    from .models import MODEL_SPECS, build_model

    model = build_model(MODEL_SPECS[model_name])
    return model, model.get_variables_specs()


def model_digests(model_name):
    """digest of the graph built by the model itself and of a fresh from_dict construction."""
    try:
        model, specs = model_definitions(model_name)
    except Exception as e:
        return [f"build_failed:{type(e).__name__}"] * 2
    d1 = obs_digest("accepted", observe(model.dag))
    kind, _, obs = run_once(specs, None)
    return [d1, obs_digest(kind, obs)]


# ------------------------------------------------------------------------------------------
# enumerators shared by the parent shard and the hash-seed child

def is_plain_dag(n, bits):
    """Cheap harness-side filter (NOT an oracle): acyclic and without isolated node."""
    edges = edges_of(n, bits)
    touched = {x for e in edges for x in e}
    if len(touched) != n:
        return False
    indeg = [0] * n
    for _, j in edges:
        indeg[j] += 1
    todo = [i for i in range(n) if indeg[i] == 0]
    seen = 0
    while todo:
        i = todo.pop()
        seen += 1
        for a, b in edges:
            if a == i:
                indeg[b] -= 1
                if indeg[b] == 0:
                    todo.append(b)
    return seen == n


# ------------------------------------------------------------------------------------------
# larger graphs: hand-enumerated families (every member for every size in the bound, never sampled)

def family_edges(family, k):
    """-> (k, edges) of the named family on k nodes."""
    chain = [(i, i + 1) for i in range(k - 1)]
    if family == "chain":
        return chain
    if family == "complete":
        return [(i, j) for i in range(k) for j in range(i + 1, k)]
    if family == "out_star":
        return [(0, i) for i in range(1, k)]
    if family == "in_star":
        return [(i, 0) for i in range(1, k)]
    if family == "diamond_ladder":
        e, top = [], 0
        nxt = 1
        while nxt + 2 < k:
            e += [(top, nxt), (top, nxt + 1), (nxt, nxt + 2), (nxt + 1, nxt + 2)]
            top, nxt = nxt + 2, nxt + 3
        e += [(top, i) for i in range(nxt, k)]
        return e
    if family == "bipartite":
        h = k // 2
        return [(i, j) for i in range(h) for j in range(h, k)]
    if family == "binary_tree":
        return [((i - 1) // 2, i) for i in range(1, k)]
    if family == "diamond_late_root":  # diamond, tail, and a root that only feeds the last node
        return [(0, 1), (0, 2), (1, 3), (2, 3)] + [(i, i + 1) for i in range(3, k - 2)] + [(k - 1, k - 2)]
    if family == "skip_chain":
        return chain + [(i, i + 2) for i in range(k - 2)]
    # ---- definitions that must be refused
    if family == "ring":
        return chain + [(k - 1, 0)]
    if family == "chain_back_edge":
        return chain + [(k - 1, 1)]
    if family == "complete_one_reversed":
        return [(i, j) for i in range(k) for j in range(i + 1, k) if (i, j) != (1, k - 1)] + [(k - 1, 1)]
    if family == "chain_and_isolated":
        return chain[:-1]
    if family == "chain_and_rootless_2cycle":
        return chain[:-2] + [(k - 2, k - 1), (k - 1, k - 2)]
    if family == "chain_feeding_2cycle":
        return chain + [(k - 1, k - 2)]
    raise ValueError(family)


FAMILIES = ["chain", "complete", "out_star", "in_star", "diamond_ladder", "bipartite", "binary_tree", "diamond_late_root",
            "skip_chain", "ring", "chain_back_edge", "complete_one_reversed", "chain_and_isolated",
            "chain_and_rootless_2cycle", "chain_feeding_2cycle"]


def family_namings(k):
    stride = next(s for s in (3, 5, 7, 11, 13) if k % s)
    return [None, list(range(k - 1, -1, -1)), list(range(0, k, 2)) + list(range(1, k, 2)), [(i * stride) % k for i in range(k)]]


def family_cases(ks):
    out = []
    for k in ks:
        for fam in FAMILIES:
            bits = bits_of(k, family_edges(fam, k))
            for naming in family_namings(k):
                for ctor in CTORS_FOR_ALPHABET[3]:
                    out.append((fam, make_case(k, bits, 3, ctor, relabel=naming)))
    return out


def expand(desc):
    """Deterministic list of cases (or model names) designated by a JSON-able descriptor."""
    what = desc["what"]
    if what == "grid":  # every digraph on n nodes in [lo, hi), given alphabet, every applicable constructor
        out = []
        for n in desc["ns"]:
            hi = min(desc.get("hi", 1 << len(PAIRS(n))), 1 << len(PAIRS(n)))
            for bits in range(desc.get("lo", 0), hi):
                if desc.get("dags_only") and not is_plain_dag(n, bits):
                    continue
                for ctor in desc.get("ctors") or CTORS_FOR_ALPHABET[desc["names"]]:
                    out.append(make_case(n, bits, desc["names"], ctor))
        return out
    if what == "families":
        return [c for _, c in family_cases(desc["ks"])]
    if what == "cases":
        return list(desc["cases"])
    if what == "models":
        return list(desc["models"])
    raise ValueError(what)


MAX_TIMEOUTS = 2  # after that many non-terminating constructions an enumeration stops (and says so)


def digests(desc):
    items = expand(desc)
    if desc["what"] == "models":
        return [model_digests(m) for m in items]
    out, n_timeouts = [], 0
    for c in items:
        if n_timeouts >= MAX_TIMEOUTS:
            out.append("skipped:too many timeouts")
            continue
        d = case_digest(c)
        n_timeouts += d.startswith("refused:CaseTimeout")
        out.append(d)
    return out


def child_main():
    import warnings

    warnings.filterwarnings("ignore")
    torch.set_num_threads(1)
    desc = json.loads(sys.stdin.read())
    import os

    import leaspy

    res = {
        "hashseed": os.environ.get("PYTHONHASHSEED"),
        "leaspy": leaspy.__file__,
        "probe": hash_probe(),
        "digests": digests(desc),
    }
    sys.stdout.write("C15-CHILD-RESULT " + json.dumps(res) + "\n")


def hash_probe():
    """Iteration order of a set of strings: differs between processes with different hash seeds."""
    return list({"a", "b", "c", "d", "e", "x10", "x9", "X1", "_x", "x", "zeta", "tau", "xi", "sources"})


if __name__ == "__main__":
    child_main()

"""C17 -- personalisation returns one aligned, finite, non-worsening estimate per subject.

E-GRID + recording seams: the Cartesian product  model kind (hand-written parameters / freshly fitted) x cohort
(sizes 1-3, single-visit individuals, missing data, unsorted order) x identifier scheme x input form x algorithm x
settings (iterations, burn-in as a ratio or a count, annealing, optimiser) x seed  is enumerated and every element
is run through the public ``model.personalize``.  Three recording spies (they never alter anything):

* ``scipy.optimize.minimize`` as seen by ``leaspy.algo.personalize.scipy_minimize`` (x0, the individual's initial
  values held by the state handed to the objective, the optimiser's result);
* ``_compute_individual_parameters_from_samples_torch`` of the two sampling algorithms (arguments and result);
* ``IndividualGibbsSampler.sample`` (value of the sampled variable after every call = the chain itself).

Oracles (each compares the implementation with something it did not compute itself):
 (A) keys = input identifiers (as strings) in input order, one entry each, exactly the model's individual variables
     with the model's shapes, all finite, accepted by ``model.estimate``;
 (B) optimisation: one optimiser run per individual, in order; the run starts at the individual's initial values;
     the returned parameters are the optimiser's result; objective(returned) <= objective(start), both evaluated
     by a fresh State holding this individual's data built by the harness (not the optimiser's bookkeeping), and
     objective(returned) equals the value reported by the optimiser (so data and output are those of that individual);
 (C) sampling: n_iter sweeps of every individual variable; the kept draws are exactly the draws of the iterations
     after burn-in (n_iter - n_burn_in of them); every kept (attachment, regularity) equals the from-scratch value
     of its draw on the harness' own dataset; the returned value is the mean of the kept draws, respectively the
     draw of minimal attachment + regularity per individual (first minimum on ties), assigned to the right key.
"""

from __future__ import annotations

import contextlib
import copy
import inspect
import io
import itertools
import math
import warnings

import numpy as np
import pandas as pd
import torch

import leaspy.models  # noqa: F401
from leaspy.io.data import Data, Dataset
from leaspy.utils.weighted_tensor import WeightedTensor

from ..core import Acc, CaseTimeout, digest, time_limit
from ..models import EVENTS, INDIVIDUALS, NAN, build_model, cohort_frame, fresh_state, visits_frame
from ..models import MODEL_SPECS as _CATALOGUE_SPECS
from ..oracle import same_tensor

# the catalogue kinds + a joint model with two competing events (loaded from hand-written parameters)
JOINT2 = "joint_d2_s1_diag_2events"
MODEL_SPECS = dict(_CATALOGUE_SPECS, **{JOINT2: {"kind": "joint", "dim": 2, "ns": 1, "noise": "gaussian-diagonal", "ne": 2}})
EVENT_CODES_2 = {"a": 0, "b": 2, "c": 1, "d": 0, "e": 2, "n_ob": 2, "n_oa": 1, "n_cb": 0, "n_ca": 0}

ID = "C17"
LEVEL = "exploration"
RULE = (
    "Cartesian product model kind (hand-written / freshly fitted) x cohort x identifier scheme x input form x "
    "algorithm x settings (n_iter, burn-in ratio or count, annealing, optimiser method) x seed, every element run "
    "through model.personalize under recording spies; a case is non-trivial when its result discriminates: the "
    "optimiser moved away from its start for some individual, respectively the kept draws of some individual are "
    "not all identical (mean / argmin not degenerate); distinct = distinct (configuration) among those"
)
ASSUMPTIONS = [
    "cohorts are drawn from a 5-individual catalogue (1-3 visits, missing values, one single-visit individual) plus 4 individuals "
    "with two visits and no observed score at all; sizes 1-3",
    "the start of an optimisation is the individual values the model's put_individual_parameters leaves in the state dedicated to the "
    "individual (recorded by a spy of its own, so it is known even when the optimiser is never run)",
    "n_burn_in == n_iter (no kept draw) is outside the property's domain and not enumerated (design candidate D18)",
    "n_jobs = 1 only (the recording wrapper lives in this process); use_jacobian=True falls back to Powell (no model implements a jacobian)",
    "non-worsening is demanded up to 1e-6 * (|f0| + |f1| + 1): both objectives come from the same fresh-state evaluation, the "
    "margin only absorbs the float32 rounding of the initial point; returned-vs-optimiser values at rtol 1e-5 (float64 -> float32)",
    "mean of the kept draws compared with a float64 mean at (n_kept + 2) * eps32 * max|draw| (float32 summation error bound); "
    "argmin and kept draws compared bit-exactly (same float32 operations)",
    "freshly fitted models: tiny seeded fits (5 individuals, n_iter=10); bernoulli and mixture models only with hand-written parameters",
    "nothing is claimed about the statistical quality of the estimates",
]

EPS32 = float(np.finfo(np.float32).eps)

# ------------------------------------------------------------------------------------------
# alphabets

LABELS = {
    "alpha": {"a": "a", "b": "b", "c": "c", "d": "d", "e": "e"},
    # strings that look like numbers: lexicographic order != numeric order != input order
    "numlike": {"a": "10", "b": "9", "c": "007", "d": "1e3", "e": "2.50"},
    "int": {"a": 10, "b": 9, "c": 7, "d": 1000, "e": 2},
    "categorical": {"a": "10", "b": "9", "c": "007", "d": "1e3", "e": "2.50"},
}

COHORTS = {
    "quick": [["a"], ["c"], ["c", "a"], ["d", "b"], ["c", "a", "b"], ["e", "d", "a"]],
    "thorough": [["a"], ["b"], ["c"], ["d"], ["e"], ["c", "a"], ["a", "c"], ["d", "b"], ["e", "c"], ["b", "a"],
                 ["c", "a", "b"], ["e", "d", "a"], ["b", "c", "d"], ["d", "e", "c"], ["a", "b", "e"]],
}
ID_COHORTS = [["c", "a", "b"], ["e", "d", "a"]]

QUICK_MODELS = [("logistic_d2_s1_diag", "loaded"), ("logistic_d2_s1_diag", "fitted"), ("joint_d2_s1_diag", "loaded"), ("joint_d2_s1_diag", "fitted"),
                ("linear_d2_s0_scalar", "loaded"), ("shared_d2_s1_diag", "loaded"), ("logistic_d2_s0_diag", "loaded")]
FITTED = ["logistic_d2_s1_diag", "logistic_d2_s0_diag", "linear_d2_s1_diag", "shared_d2_s1_diag", "joint_d2_s1_diag",
          "logistic_d3_s2_diag", "linear_d2_s0_scalar"]
MIXTURE = "mixture_d4_s2_diag"

SCIPY_SETTINGS = {
    "powell": {"use_jacobian": False},
    "jacobian_fallback": {"use_jacobian": True},
    "powell_1_iteration": {"use_jacobian": False, "custom_scipy_minimize_params": {"method": "Powell", "options": {"maxiter": 1}}},
    "nelder_mead": {"use_jacobian": False, "custom_scipy_minimize_params": {"method": "Nelder-Mead", "options": {"maxiter": 40}}},
    "bfgs_finite_differences": {"use_jacobian": False, "custom_scipy_minimize_params": {"method": "BFGS", "options": {"maxiter": 5}}},
}
BURN = {
    "frac0": {"n_burn_in_iter_frac": 0.0},
    "frac0.5": {"n_burn_in_iter_frac": 0.5},
    "frac0.8": {"n_burn_in_iter_frac": 0.8},
    "count1": {"n_burn_in_iter": 1, "n_burn_in_iter_frac": None},
    "count_n-1": None,  # n_iter - 1, resolved per case
    # an explicit count given while the default ratio (0.5) stays in the settings: documented (FutureWarning) as
    # "n_burn_in_iter will always have priority over n_burn_in_iter_frac"
    "count1_ratio_kept": {"n_burn_in_iter": 1},
    "count_n-1_ratio_kept": None,  # n_iter - 1 with the default ratio kept, resolved per case
}
ANNEALING = {
    "off": {},
    "2_plateaus": {"annealing": {"do_annealing": True, "n_plateau": 2}},
    "3_plateaus": {"annealing": {"do_annealing": True, "n_plateau": 3, "initial_temperature": 2.0}},
    "1_plateau": {"annealing": {"do_annealing": True, "n_plateau": 1, "initial_temperature": 5.0}},
}


def bounds(tier):
    return {
        "models": [f"{m}:{s}" for m, s in model_sources(tier)],
        "cohorts": COHORTS[tier],
        "cohorts with an individual having visits but no observed score (drop_full_nan=False; event observed / censored, "
        "before / after the mean onset age)": NOSCORE_COHORTS,
        "identifier schemes": list(LABELS),
        "input forms": ["data", "dataset", "dataframe (not for the joint model)"],
        "settings passed": ["keyword arguments", "AlgorithmSettings object"],
        "optimiser settings": list(SCIPY_SETTINGS if tier == "thorough" else QUICK_SCIPY),
        "n_iter": N_ITER[tier],
        "burn-in": list(BURN),
        "annealing": list(ANNEALING if tier == "thorough" else QUICK_ANNEALING),
        "seeds": "{0, 1, VERIF_SEED}",
    }


N_ITER = {"quick": [2, 6], "thorough": [2, 5, 9]}
QUICK_SCIPY = ["powell", "jacobian_fallback", "powell_1_iteration", "nelder_mead"]
QUICK_ANNEALING = ["off", "2_plateaus", "3_plateaus"]


def model_sources(tier):
    if tier == "quick":
        return list(QUICK_MODELS) + [(JOINT2, "loaded"), (MIXTURE, "loaded")]
    out = [(n, "loaded") for n in MODEL_SPECS]
    out += [(n, "fitted") for n in FITTED]
    return out


# ------------------------------------------------------------------------------------------
# building blocks

class SpyError(BaseException):
    """A failure of the recording code itself (harness error, never a violation)."""


@contextlib.contextmanager
def quiet():
    with warnings.catch_warnings():
        warnings.simplefilter("ignore")
        with contextlib.redirect_stdout(io.StringIO()), contextlib.redirect_stderr(io.StringIO()):
            yield


def _is_joint(spec):
    return spec["kind"] == "joint"


# individuals with visits but not a single observed score (only ingested with drop_full_nan=False); for the joint model
# their event still informs the posterior: event observed / censored, before / after the mean onset age (70)
NOSCORE = {
    "n_ob": [(60.0, [NAN] * 4), (62.0, [NAN] * 4)],
    "n_oa": [(72.0, [NAN] * 4), (74.0, [NAN] * 4)],
    "n_cb": [(60.0, [NAN] * 4), (62.0, [NAN] * 4)],
    "n_ca": [(72.0, [NAN] * 4), (74.0, [NAN] * 4)],
}
ALL_INDIVIDUALS = dict(INDIVIDUALS, **NOSCORE)
ALL_EVENTS = dict(EVENTS, n_ob=(64.0, 1), n_oa=(78.0, 1), n_cb=(64.0, 0), n_ca=(78.0, 0))
NOSCORE_COHORTS = [["n_ob"], ["n_oa"], ["c", "n_cb"], ["n_ca", "b", "n_ob"]]


def keeps_empty_visits(cohort):
    """Cohorts holding an individual without any score are ingested with drop_full_nan=False (otherwise he is dropped)."""
    return any(i in NOSCORE for i in cohort)


def plain_frame(spec, cohort):
    df = _plain_frame(spec, cohort)
    if _is_joint(spec) and int(spec.get("ne", 1)) == 2:
        df["EVENT_BOOL"] = [EVENT_CODES_2[i] for i in df["ID"]]
    return df


def _plain_frame(spec, cohort):
    """Same table as lmc.models.cohort_frame, over the catalogue extended with the score-less individuals."""
    if not keeps_empty_visits(cohort):
        return cohort_frame(cohort, spec.get("dim", 2), joint=_is_joint(spec), binary=spec.get("noise") == "bernoulli")
    dim = spec.get("dim", 2)
    rows = []
    for i in cohort:
        for age, vals in ALL_INDIVIDUALS[i]:
            vv = list(vals[:dim])
            if spec.get("noise") == "bernoulli":
                vv = [v if v != v else float(v > 0.3) for v in vv]
            rows.append((i, age, vv))
    return visits_frame(rows, [f"Y{k}" for k in range(dim)], ALL_EVENTS if _is_joint(spec) else None)


def ingest(df, spec, keep_empty):
    kw = {"drop_full_nan": False} if keep_empty else {}
    if _is_joint(spec) and int(spec.get("ne", 1)) != 1:
        kw["factory_kws"] = {"nb_events": int(spec["ne"])}
    return Data.from_dataframe(df, "joint", **kw) if _is_joint(spec) else Data.from_dataframe(df, **kw)


def reference_dataset(cohort, spec):
    """The harness' own dataset of the cohort (plain identifiers), ingested the same way as the case's input."""
    return Dataset(ingest(plain_frame(spec, cohort), spec, keeps_empty_visits(cohort)), no_warning=True)


def case_frame(spec, cohort, labels):
    df = plain_frame(spec, cohort)
    mapping = LABELS[labels]
    ids = [mapping.get(i, i) for i in df["ID"]]
    if labels == "categorical":
        # categories deliberately in another order than the rows
        df["ID"] = pd.Categorical(ids, categories=sorted({mapping[i] for i in cohort}, reverse=True))
    else:
        df["ID"] = ids
    return df


def to_form(df, spec, form, keep_empty=False):
    if form == "dataframe":
        return df
    data = ingest(df, spec, keep_empty)
    return data if form == "data" else Dataset(data)


_FULL_DATA = {}


def single_dataset(cid, name):
    """The harness' own dataset of one catalogue individual (subset of the 5-individual table, so that a censored
    individual of the joint model can stand alone)."""
    spec = MODEL_SPECS[name]
    key = (name, cid in NOSCORE)
    if key not in _FULL_DATA:
        ids = sorted(ALL_INDIVIDUALS) if cid in NOSCORE else sorted(INDIVIDUALS)
        _FULL_DATA[key] = ingest(plain_frame(spec, ids), spec, cid in NOSCORE)
    return Dataset(_FULL_DATA[key][[cid]], no_warning=True)


def ingestible(spec, cohort):
    """The joint reader refuses a table without any observed event (outside this property)."""
    if _is_joint(spec) and int(spec.get("ne", 1)) == 2:
        # the reader wants the highest event code of the declared number of events to be present (or no event at all)
        return any(EVENT_CODES_2[i] == 2 for i in cohort)
    return not _is_joint(spec) or any(ALL_EVENTS[i][1] for i in cohort)


_FITTED_CACHE = {}


def fitted_model(name):
    """A freshly fitted model of this kind (tiny seeded fit on the 5 catalogue individuals)."""
    if name in _FITTED_CACHE:
        return copy.deepcopy(_FITTED_CACHE[name])
    from leaspy.models import model_factory

    spec = MODEL_SPECS[name]
    kw = {"source_dimension": spec["ns"], "dimension": spec["dim"], "obs_models": spec["noise"]}
    if _is_joint(spec):
        kw["nb_events"] = 1
        kw.pop("obs_models")
    df = cohort_frame(["a", "b", "c", "d", "e"], spec["dim"], joint=_is_joint(spec))
    data = Data.from_dataframe(df, "joint") if _is_joint(spec) else Data.from_dataframe(df)
    with quiet():
        model = model_factory(spec["kind"], **kw)
        model.fit(data, "mcmc_saem", seed=0, n_iter=10, progress_bar=False)
    _FITTED_CACHE[name] = model
    return copy.deepcopy(model)


def get_model(name, source):
    if source == "fitted":
        return fitted_model(name)
    with quiet():
        return build_model(MODEL_SPECS[name])


def expected_variables(spec, model):
    ns = model.source_dimension if spec["kind"] == "mixture_logistic" else spec.get("ns", 0)
    out = {"tau": 1, "xi": 1}
    if ns:
        out["sources"] = int(ns)
    return out


def algo_kwargs(case):
    """Keyword arguments of the algorithm (JSON-able) and the expected number of burn-in iterations."""
    s = case["settings"]
    if case["algo"] == "scipy_minimize":
        return copy.deepcopy(SCIPY_SETTINGS[s["optimiser"]]), None
    n_iter = s["n_iter"]
    kw = {"n_iter": n_iter}
    if s["burn"] == "count_n-1":
        kw.update({"n_burn_in_iter": n_iter - 1, "n_burn_in_iter_frac": None})
    elif s["burn"] == "count_n-1_ratio_kept":
        kw.update({"n_burn_in_iter": n_iter - 1})
    else:
        kw.update(BURN[s["burn"]])
    kw.update(copy.deepcopy(ANNEALING[s["annealing"]]))
    # reference: a count is taken as is, a ratio is truncated to an integer number of iterations
    n_burn = kw["n_burn_in_iter"] if kw.get("n_burn_in_iter") is not None else int(math.floor(kw["n_burn_in_iter_frac"] * n_iter + 1e-9))
    # (a count wins over a ratio, whether the ratio is the default one left in the settings or an explicit one)
    return kw, n_burn


# ------------------------------------------------------------------------------------------
# recording spies

@contextlib.contextmanager
def spies():
    import leaspy.algo.personalize.scipy_minimize as sm
    from leaspy.algo.personalize.mean_posterior import MeanPosteriorAlgorithm
    from leaspy.algo.personalize.mode_posterior import ModePosteriorAlgorithm
    from leaspy.samplers.gibbs import IndividualGibbsSampler

    rec = {"minimize": [], "from_samples": [], "sweeps": []}
    orig_min = sm.minimize

    def minimize(fun, *a, **kw):
        try:
            x0 = np.array(kw["x0"] if "x0" in kw else a[0], dtype=np.float64, copy=True)
            args = kw.get("args", ())
            state, scaling = args[0], args[1]
            # the state is dedicated to one individual: its initial values are the first row (a freshly fitted model still
            # holds the rows of its training cohort, of which the implementation also takes the first)
            nat = {n: state.get_tensor_value(n).detach().clone()[:1] for n in state.dag.individual_variable_names}
            scl = {n: (s.loc.detach().clone().to(torch.float64), s.scale.detach().clone().to(torch.float64), scaling.slices[n])
                   for n, s in scaling.scalings.items()}
        except Exception as e:  # pragma: no cover
            raise SpyError(f"minimize spy: {type(e).__name__}: {e}")
        res = orig_min(fun, *a, **kw)
        rec["minimize"].append({
            "state": state, "x0": x0, "nat": nat, "scaling": scl, "x": np.array(res.x, dtype=np.float64, copy=True), "fun": float(res.fun),
            "success": bool(res.success), "method": str(kw.get("method")), "nfev": int(getattr(res, "nfev", -1)),
        })
        return res

    def wrap_from_samples(cls):
        orig = cls.__dict__["_compute_individual_parameters_from_samples_torch"]
        sig = inspect.signature(orig)

        def wrapped(self, *a, **kw):
            b = sig.bind(self, *a, **kw).arguments
            entry = {
                "values": {k: v.detach().clone() for k, v in b["values"].items()},
                "attachments": b["attachments"].detach().clone(),
                "regularities": b["regularities"].detach().clone(),
            }
            out = orig(self, *a, **kw)
            entry["out"] = {k: v.detach().clone() for k, v in out.items()}
            rec["from_samples"].append(entry)
            return out

        return orig, wrapped

    orig_sample = IndividualGibbsSampler.sample

    def sample(self, state, **kw):
        orig_sample(self, state, **kw)
        rec["sweeps"].append((self.name, state.get_tensor_value(self.name).detach().clone(), float(kw.get("temperature_inv", float("nan")))))

    name = "_compute_individual_parameters_from_samples_torch"
    o_mean, w_mean = wrap_from_samples(MeanPosteriorAlgorithm)
    o_mode, w_mode = wrap_from_samples(ModePosteriorAlgorithm)
    sm.minimize = minimize
    setattr(MeanPosteriorAlgorithm, name, w_mean)
    setattr(ModePosteriorAlgorithm, name, w_mode)
    IndividualGibbsSampler.sample = sample
    try:
        yield rec
    finally:
        sm.minimize = orig_min
        setattr(MeanPosteriorAlgorithm, name, o_mean)
        setattr(ModePosteriorAlgorithm, name, o_mode)
        IndividualGibbsSampler.sample = orig_sample


# ------------------------------------------------------------------------------------------
# from-scratch references

def _tensor(x):
    return x.weighted_value if isinstance(x, WeightedTensor) else x


def scratch_state(model, ds, values):
    st = fresh_state(model, ds)
    with st.auto_fork(None):
        for n, v in values.items():
            st[n] = v.detach().clone()  # dtype kept: a freshly fitted model may compute in float64
    return st


def objective(model, ds, values):
    """nll_attach + nll_regul_ind_sum of a fresh State holding `ds` and the given individual values."""
    st = scratch_state(model, ds, values)
    return float(_tensor(st["nll_attach"]).to(torch.float64).sum() + _tensor(st["nll_regul_ind_sum"]).to(torch.float64).sum())


# ------------------------------------------------------------------------------------------
# one case

def feature_of(case, spec, exception=False):
    if case["labels"] == "int":
        return "integer identifiers"
    if spec["kind"] == "mixture_logistic":
        return "mixture model"
    if exception and case["source"] == "fitted":
        return f"freshly fitted {spec['kind']} model"
    return ""


def site_of(case):
    return "personalize[scipy_minimize]" if case["algo"] == "scipy_minimize" else "personalize[mcmc]"


def run_case(case, model=None):
    """Run one case through model.personalize under the spies. Returns dict(problems, outcome, nontrivial, info)."""
    spec = MODEL_SPECS[case["model"]]
    cohort = list(case["cohort"])
    if model is None:
        model = get_model(case["model"], case["source"])
    df = case_frame(spec, cohort, case["labels"])
    data = to_form(df, spec, case["form"], keeps_empty_visits(cohort))
    expected_keys = [str(LABELS[case["labels"]].get(i, i)) for i in cohort]
    kwargs, n_burn = algo_kwargs(case)
    problems = []
    info = {}
    site = site_of(case)
    feat = feature_of(case, spec)
    # fourth recording spy: the documented start of the optimisation = the individual values the model puts into the
    # state dedicated to an individual (recorded whether or not the optimiser is run afterwards)
    rec_starts = []
    orig_pip = model.put_individual_parameters

    def put_individual_parameters(state, dataset, *a, **kw):
        out = orig_pip(state, dataset, *a, **kw)
        try:
            rec_starts.append({"state": state, "indices": [str(i) for i in dataset.indices],
                               "nat": {n: state.get_tensor_value(n).detach().clone()[:1] for n in state.dag.individual_variable_names}})
        except Exception as e:  # pragma: no cover
            raise SpyError(f"start spy: {type(e).__name__}: {e}")
        return out

    algo_obj = None
    if case.get("reuse"):
        # ONE algorithm object (algorithm_factory(settings)) first run on another cohort, then - observed - on the case's cohort:
        # an algorithm object may be run several times (cross-validation loops); every run answers for its own cohort only
        from leaspy.algo import AlgorithmSettings
        from leaspy.algo.base import algorithm_factory
        from leaspy.models import BaseModel

        try:
            with quiet():
                algo_obj = algorithm_factory(AlgorithmSettings(case["algo"], seed=case["seed"], progress_bar=False, **kwargs))
                prior = to_form(case_frame(spec, list(case["reuse"]), "alpha"), spec, "data", keeps_empty_visits(list(case["reuse"])))
                algo_obj.run(model, BaseModel._get_dataset(prior))
        except Exception as e:
            problems.append((f"{site}|raises {type(e).__name__}|first run of the algorithm object", f"{type(e).__name__}: {str(e)[:300]}"))
            return {"problems": problems, "outcome": f"raises:{type(e).__name__}", "nontrivial": False, "info": info}
        feat = feat + ", second run of the same algorithm object" if feat else "second run of the same algorithm object"
    model.put_individual_parameters = put_individual_parameters
    with spies() as rec, quiet():
        rec["starts"] = rec_starts
        try:
            with time_limit(900):  # guard against a hang only (CPU seconds; the longest chains take tens of seconds on a loaded machine)
                if algo_obj is not None:
                    from leaspy.models import BaseModel

                    ip = algo_obj.run(model, BaseModel._get_dataset(data))
                elif case.get("via", "kwargs") == "object":
                    from leaspy.algo import AlgorithmSettings

                    settings = AlgorithmSettings(case["algo"], seed=case["seed"], progress_bar=False, **kwargs)
                    ip = model.personalize(data, algorithm_settings=settings)
                else:
                    ip = model.personalize(data, case["algo"], seed=case["seed"], progress_bar=False, **kwargs)
        except (CaseTimeout, SpyError):
            raise
        except Exception as e:
            del model.put_individual_parameters
            problems.append((f"{site}|raises {type(e).__name__}|{feature_of(case, spec, exception=True)}", f"{type(e).__name__}: {str(e)[:300]}"))
            return {"problems": problems, "outcome": f"raises:{type(e).__name__}", "nontrivial": False, "info": info}

    del model.put_individual_parameters
    # ---- (A) keys, variables, shapes, finiteness
    variables = expected_variables(spec, model)
    ok_layout = True
    keys = list(getattr(ip, "_indices", []))
    if [str(k) for k in keys] != expected_keys or len(ip._individual_parameters) != len(expected_keys):
        kind = "not the input identifiers" if sorted(map(str, keys)) != sorted(expected_keys) else "not in input order"
        problems.append((f"{site}|keys are {kind}|{feat}", f"keys {keys} expected {expected_keys}"))
        ok_layout = False
    returned = {}
    if ok_layout:
        for key in keys:
            entry = ip._individual_parameters[key]
            if set(entry) != set(variables):
                problems.append((f"{site}|entry does not hold exactly the model's individual variables|{feat}", f"{sorted(entry)} expected {sorted(variables)}"))
                ok_layout = False
                break
            vals = {}
            for n, d in variables.items():
                arr = np.atleast_1d(np.asarray(entry[n], dtype=np.float64))
                if arr.shape != (d,):
                    problems.append((f"{site}|value with another shape than the model expects|{feat}", f"'{n}' has shape {arr.shape}, expected {(d,)}"))
                    ok_layout = False
                    break
                if not np.isfinite(arr).all():
                    problems.append((f"{site}|non-finite individual parameter|{feat}", f"'{n}' of {key!r} = {arr.tolist()}"))
                vals[n] = arr
            if not ok_layout:
                break
            returned[str(key)] = vals
    if ok_layout and not any("non-finite" in s for s, _ in problems):
        # accepted by the model: one finite row per requested age
        try:
            with quiet():
                est = model.estimate({k: [70.0, 75.5] for k in keys}, ip)
            for k in keys:
                a = np.asarray(est[k], dtype=np.float64)
                if a.shape[0] != 2 or not np.isfinite(a).all():
                    problems.append((f"{site}|estimate() with the returned parameters is not a finite row per age|{feat}", f"{k!r}: {a.tolist()}"))
                    break
        except Exception as e:
            problems.append((f"{site}|returned parameters refused by estimate(): {type(e).__name__}|{feat}", str(e)[:300]))

    if not ok_layout:
        return {"problems": problems, "outcome": "bad layout", "nontrivial": False, "info": info}

    if case["algo"] == "scipy_minimize":
        outcome, nontrivial = check_scipy(case, spec, model, cohort, expected_keys, returned, rec, problems, info)
    else:
        outcome, nontrivial = check_mcmc(case, spec, model, cohort, expected_keys, returned, rec, n_burn, variables, problems, info)
    return {"problems": problems, "outcome": outcome, "nontrivial": nontrivial, "info": info}


def check_scipy(case, spec, model, cohort, keys, returned, rec, problems, info):
    site = "scipy_minimize"
    calls = rec["minimize"]
    # whose run is it?  the state handed to the optimiser is the one the model initialised for that individual
    start_of = {s["indices"][0]: s for s in rec["starts"] if len(s["indices"]) == 1}
    label_of_state = {id(s["state"]): k for k, s in start_of.items()}
    call_of = {}
    if start_of:
        for c in calls:
            label = label_of_state.get(id(c["state"]))
            if label is None or label in call_of:
                problems.append((f"{site}|optimiser run on a state that is not the one initialised for an individual, or run twice|", f"{len(calls)} runs for {len(cohort)} individuals"))
                return "bad runs", False
            call_of[label] = c
    elif len(calls) == len(cohort):
        call_of = dict(zip(keys, calls))  # positional (the model's initialisation was not observed)
    moved = 0
    skipped = 0
    methods = set()
    for cid, key in zip(cohort, keys):
        c = call_of.get(key)
        if key in start_of:
            start = start_of[key]["nat"]
        elif c is not None:
            start = c["nat"]
        else:
            raise SpyError(f"C17: neither the initialisation nor the optimisation of individual {key!r} was observed")
        ds = single_dataset(cid, case["model"])
        ret = returned[key]
        if c is not None:
            methods.add(c["method"])
            # (i) the optimiser starts at the individual's initial values; (ii) the returned point is its result
            for what, x, target in (("start", c["x0"], {n: v.reshape(-1).to(torch.float64).numpy() for n, v in start.items()}),
                                    ("result", c["x"], ret)):
                for n, (loc, scale, sl) in c["scaling"].items():
                    nat = loc.numpy() + scale.numpy() * x[sl]
                    tol = 1e-5 * np.abs(scale.numpy()) + 1e-6 * np.abs(nat) + 1e-12
                    if n not in target or target[n].shape != nat.shape or not (np.abs(nat - target[n]) <= tol).all():
                        msg = f"individual {cid!r} variable '{n}': optimiser coordinates give {nat.tolist()}, {'initial values' if what == 'start' else 'returned'} {None if n not in target else target[n].tolist()}"
                        sig = (f"{site}|optimiser start differs from the individual's initial values|" if what == "start"
                               else f"{site}|returned parameters differ from the optimiser's result|")
                        problems.append((sig, msg))
        else:
            skipped += 1
        # (iii) non-worsening, by a fresh state on the harness' own data of this individual; the start is the documented
        # initial point whether or not the optimiser was run
        f0 = objective(model, ds, start)
        f1 = objective(model, ds, {n: torch.tensor(v, dtype=torch.float32).reshape(1, -1) for n, v in ret.items()})
        info.setdefault("objectives", []).append([cid, f0, f1, None if c is None else c["fun"]])
        how = f"method {c['method']}" if c is not None else "no optimisation performed"
        if not math.isfinite(f1):
            problems.append((f"{site}|objective at the returned point is not finite|", f"individual {cid!r}: {f1!r} (start: {f0!r})"))
        elif math.isfinite(f0) and f1 > f0 + 1e-6 * (abs(f0) + abs(f1) + 1.0):
            problems.append((f"{site}|objective at the returned point is worse than at the start|{how}",
                             f"individual {cid!r}: objective(returned) = {f1!r} > objective(start) = {f0!r}"))
        # (iv) the returned point is the one the optimiser reports, on this individual's data
        if c is not None and math.isfinite(f1) and abs(f1 - c["fun"]) > 1e-5 * max(1.0, abs(f1)) + 1e-6:
            problems.append((f"{site}|objective at the returned point differs from the value reported by the optimiser|",
                             f"individual {cid!r}: fresh evaluation {f1!r}, optimiser {c['fun']!r}"))
        if c is not None and not np.array_equal(c["x"], c["x0"]):
            moved += 1
    return (f"scipy:{'/'.join(sorted(methods)) or 'none'}:moved {moved}/{len(cohort)}" + (f":{skipped} not optimised" if skipped else "")
            + (":individual without score" if keeps_empty_visits(cohort) else "")), moved > 0


def check_mcmc(case, spec, model, cohort, keys, returned, rec, n_burn, variables, problems, info):
    algo = case["algo"]
    site = algo
    n_iter = case["settings"]["n_iter"]
    n_ind = len(cohort)
    names = sorted(variables)
    if len(rec["from_samples"]) != 1:
        problems.append((f"{site}|point estimate not derived exactly once from the recorded samples|", f"{len(rec['from_samples'])} calls"))
        return "bad call count", False
    fs = rec["from_samples"][0]
    # ---- the chain: n_iter sweeps, one call per individual variable in each
    sweeps = rec["sweeps"]
    if len(sweeps) != n_iter * len(names) or any(sorted(s[0] for s in sweeps[k * len(names):(k + 1) * len(names)]) != names for k in range(n_iter)):
        problems.append((f"{site}|chain is not n_iter sweeps of every individual variable|", f"{len(sweeps)} sampler calls for n_iter={n_iter}, variables {names}"))
        return "bad chain", False
    chain = []
    for k in range(n_iter):
        chain.append({n: v for n, v, _ in sweeps[k * len(names):(k + 1) * len(names)]})
    n_kept = n_iter - n_burn
    values, att, reg = fs["values"], fs["attachments"], fs["regularities"]
    # ---- kept draws = the draws after burn-in
    if sorted(values) != names:
        problems.append((f"{site}|sample history does not hold exactly the individual variables|", f"{sorted(values)}"))
        return "bad history", False
    counts = {int(v.shape[0]) for v in values.values()} | {int(att.shape[0]), int(reg.shape[0])}
    if counts != {n_kept}:
        problems.append((f"{site}|number of kept draws differs from n_iter - n_burn_in|", f"kept {sorted(counts)}, n_iter={n_iter}, burn-in={n_burn}"))
        return "bad kept count", False
    for n in names:
        exp = torch.stack([chain[k][n] for k in range(n_burn, n_iter)])
        if values[n].shape != (n_kept, n_ind, variables[n]):
            problems.append((f"{site}|sample history with an unexpected shape|", f"'{n}': {tuple(values[n].shape)}"))
            return "bad history", False
        if not same_tensor(values[n], exp):
            where = "a shifted window of the chain" if any(
                n_kept + s <= n_iter and s >= 0 and s != n_burn and same_tensor(values[n], torch.stack([chain[k][n] for k in range(s, s + n_kept)]))
                for s in range(n_iter)) else "not draws of the chain"
            problems.append((f"{site}|kept draws are not the draws of the iterations after burn-in|{where}", f"'{n}': kept {values[n].reshape(n_kept, -1).tolist()}"))
            return "bad kept draws", False
    if att.shape != (n_kept, n_ind) or reg.shape != (n_kept, n_ind):
        problems.append((f"{site}|attachment / regularity history is not one value per kept draw and individual|", f"{tuple(att.shape)} {tuple(reg.shape)}"))
        return "bad history", False
    # ---- every kept (attachment, regularity) is the from-scratch value of its draw
    ds = reference_dataset(cohort, spec)
    for k in range(n_kept):
        st = scratch_state(model, ds, {n: values[n][k] for n in names})
        a_ref = st.get_tensor_value("nll_attach_ind")
        r_ref = st.get_tensor_value("nll_regul_ind_sum_ind")
        for what, got, ref in (("attachment", att[k], a_ref), ("regularity", reg[k], r_ref)):
            tol = 8 * EPS32 * ref.abs().to(torch.float64) + 1e-30
            if got.shape != ref.shape or not bool(((got.to(torch.float64) - ref.to(torch.float64)).abs() <= tol).all() or same_tensor(got, ref)):
                problems.append((f"{site}|recorded {what} differs from the from-scratch value of its draw|", f"kept draw {k}: {got.tolist()} vs {ref.tolist()}"))
                return "bad losses", False
    # ---- the returned value
    out = fs["out"]
    degenerate = True
    arg_classes = set()
    ties = False
    loss = (att + 1.0 * reg).numpy()  # float32, the documented loss of a draw
    for i, key in enumerate(keys):
        for n in names:
            col = values[n][:, i].numpy()  # (n_kept, d) float32
            if not (col == col[0]).all():
                degenerate = False
            got = returned[key][n]
            if algo == "mean_posterior":
                ref = col.astype(np.float64).mean(axis=0)
                tol = (n_kept + 2) * EPS32 * np.abs(col).max() + 1e-30
                if not (np.abs(got - ref) <= tol).all():
                    other = [j for j in range(n_ind) if j != i and (np.abs(got - values[n][:, j].numpy().astype(np.float64).mean(axis=0)) <= tol).all()]
                    kind = "it is the mean of another individual's draws" if other and not (np.abs(ref - values[n][:, other[0]].numpy().astype(np.float64).mean(axis=0)) <= tol).all() else ""
                    problems.append((f"{site}|returned value is not the mean of the kept draws|{kind}", f"{key!r} '{n}': {got.tolist()} expected {ref.tolist()} from {col.tolist()}"))
                    return "bad mean", False
            else:
                j = int(np.argmin(loss[:, i]))  # first minimum
                ref = col[j].astype(np.float64)
                if not np.array_equal(got, ref):
                    cands = [jj for jj in range(n_kept) if np.array_equal(got, col[jj].astype(np.float64))]
                    if cands and loss[cands[0], i] == loss[j, i]:
                        kind = "another draw of equal loss (not the first)"
                    elif cands:
                        kind = "a kept draw of higher loss"
                    else:
                        kind = "not a kept draw of this individual"
                    problems.append((f"{site}|returned value is not the kept draw of minimal attachment + regularity|{kind}",
                                     f"{key!r} '{n}': {got.tolist()} expected draw {j} = {ref.tolist()}; losses {loss[:, i].tolist()}"))
                    return "bad mode", False
        if algo == "mode_posterior":
            j = int(np.argmin(loss[:, i]))
            arg_classes.add("first" if j == 0 else "last" if j == n_kept - 1 else "middle")
            if (loss[:, i] == loss[j, i]).sum() > 1 and not all((values[n][:, i].numpy() == values[n][j, i].numpy()).all() for n in names):
                ties = True
    # the function's own result must be what ends up under each key (row i <-> i-th identifier)
    for n in names:
        if tuple(out[n].shape) != (n_ind, variables[n]):
            problems.append((f"{site}|point estimates with an unexpected shape|", f"'{n}': {tuple(out[n].shape)}"))
            return "bad estimate shape", False
        for i, key in enumerate(keys):
            if not np.array_equal(out[n][i].numpy().astype(np.float64), returned[key][n]):
                problems.append((f"{site}|estimate of row i is not stored under the i-th identifier|", f"'{n}' row {i} key {key!r}"))
                return "misaligned", False
    info["n_kept"] = n_kept
    info["first individual"] = {"kept tau": values["tau"][:, 0, 0].tolist(), "kept attachment + regularity": loss[:, 0].tolist(),
                                "returned tau": returned[keys[0]]["tau"].tolist()}
    if algo == "mean_posterior":
        return f"mean:kept {min(n_kept, 3)}{'+' if n_kept > 3 else ''}:{'degenerate' if degenerate else 'distinct draws'}", not degenerate
    return (f"mode:kept {min(n_kept, 3)}{'+' if n_kept > 3 else ''}:argmin {'/'.join(sorted(arg_classes))}"
            f"{':distinct draws of equal loss' if ties else ''}{':degenerate' if degenerate else ''}"), not degenerate


# ------------------------------------------------------------------------------------------
# enumeration

# ------------------------------------------------------------------------------------------
# scipy_minimize with several workers (separate non-daemonic interpreter; recording inside the joblib workers)

NJOBS_MODELS = {"quick": ["logistic_d2_s1_diag", "joint_d1_s0_scalar"], "thorough": ["logistic_d2_s1_diag", "joint_d1_s0_scalar", "linear_d2_s1_diag"]}
NJOBS_COHORTS = [["c", "a", "b"], ["e", "d", "a"], ["b", "c", "a", "e"], ["c", "a", "d", "e", "b"], ["a", "b"]]


def check_njobs(acc, model_name, n_jobs_list):
    """model.personalize(scipy_minimize, n_jobs=k), k >= 2: the identifier -> estimate binding.  Every optimisation is recorded
    where it runs (lmc/site_hooks/sitecustomize.py, inherited by the joblib workers) with the identifier it was run for; the
    estimate returned under identifier i must be a point whose objective ON i's OWN DATA (fresh State built here) is the value
    the optimiser reported for i."""
    from . import c07

    spec = MODEL_SPECS[model_name]
    res = c07.njobs_subprocess(model_name, NJOBS_COHORTS, n_jobs_list)
    model = build_model(spec)
    for nj in n_jobs_list:
        if nj > 1 and res["effective"][str(nj)] != nj:
            raise RuntimeError(f"harness: joblib would run n_jobs={nj} with {res['effective'][str(nj)]} workers")
        for c, ids in enumerate(NJOBS_COHORTS):
            got = res["results"][str(nj)][c]
            case = {"part": "njobs", "model": model_name, "ids": ids, "n_jobs": nj, "all_n_jobs": n_jobs_list}
            acc.evaluation()
            acc.count("cases scipy_minimize with n_jobs")
            site = "scipy_minimize[n_jobs>1]" if nj > 1 else "scipy_minimize[n_jobs=1, separate interpreter]"
            if nj > 1:
                acc.nontriv(digest(case))
            if "exc" in got:
                acc.violation(f"{site}|raises {got['exc'][0]}|", got["exc"][1], case)
                acc.outcome(f"njobs:{got['exc'][0]}")
                continue
            if got["order"] != list(ids):
                acc.violation(f"{site}|keys are not the input identifiers in input order|", f"{got['order']} for {ids}", case)
                continue
            starts = got.get("starts") or []
            by_id = {s_["patient_id"]: s_ for s_ in starts if s_.get("patient_id") is not None}
            if len(starts) != len(ids) or sorted(by_id) != sorted(ids):
                acc.violation(f"{site}|not exactly one optimisation per individual|",
                              f"recorded optimisations for {[s_.get('patient_id') for s_ in starts]}, cohort {ids}", case)
                continue
            ok = True
            for i in ids:
                p = got["params"][i]
                flat = [v for vals in p.values() for v in vals]
                if not all(math.isfinite(v) for v in flat):
                    acc.violation(f"{site}|non-finite estimate|", f"{i}: {p}", case)
                    ok = False
                    continue
                f_own = c07.objective(model, spec, i, p)
                f_rep = by_id[i]["fun"]
                # same float32 graph evaluated in another process on the same point: a few ulps of a sum of O(10) terms
                if not abs(f_own - f_rep) <= 1e-4 * (1.0 + abs(f_rep)):
                    others = {j: c07.objective(model, spec, i, got["params"][j]) for j in ids if j != i}
                    whose = [j for j, f in others.items() if abs(f - f_rep) <= 1e-4 * (1.0 + abs(f_rep))]
                    acc.violation(f"{site}|estimate returned under an identifier is not the optimum found for that individual|",
                                  f"'{i}' of {ids} (n_jobs={nj}): objective of the returned point on {i}'s data {f_own!r}, optimiser reported {f_rep!r}"
                                  + (f"; the estimate returned under {whose} matches it" if whose else ""), case)
                    ok = False
            acc.outcome(f"njobs:{'ok' if ok else 'problem'}:n_jobs={nj}:cohort of {len(ids)}")


def seeds_of(seed):
    return sorted({0, 1, int(seed)})


def mcmc_cases(tier, seed):
    ann = list(ANNEALING) if tier == "thorough" else QUICK_ANNEALING
    for algo, n_iter, burn, a, s in itertools.product(("mean_posterior", "mode_posterior"), N_ITER[tier], BURN, ann, seeds_of(seed)):
        if n_iter == 2 and burn in ("count_n-1", "frac0.8", "count_n-1_ratio_kept"):
            continue  # same number of burn-in iterations as count1 / frac0.5
        if tier == "quick" and burn.endswith("ratio_kept") and (a != "off" or s != 0):
            continue  # quick tier: the count-over-default-ratio settings without annealing, first seed
        yield {"algo": algo, "settings": {"n_iter": n_iter, "burn": burn, "annealing": a}, "seed": s}


def scipy_cases(tier, seed):
    opts = list(SCIPY_SETTINGS) if tier == "thorough" else QUICK_SCIPY
    for o, s in itertools.product(opts, seeds_of(seed)):
        yield {"algo": "scipy_minimize", "settings": {"optimiser": o}, "seed": s}


def identifier_cases(spec, seed):
    """Identifier schemes x input forms x ways of passing the settings, one setting per algorithm."""
    forms = ["data", "dataset"] + ([] if _is_joint(spec) else ["dataframe"])
    algos = [
        {"algo": "scipy_minimize", "settings": {"optimiser": "powell_1_iteration"}},
        {"algo": "mean_posterior", "settings": {"n_iter": 5, "burn": "frac0.5", "annealing": "off"}},
        {"algo": "mode_posterior", "settings": {"n_iter": 5, "burn": "count1", "annealing": "2_plateaus"}},
    ]
    for labels, form, via, a in itertools.product(LABELS, forms, ("kwargs", "object"), algos):
        if labels == "alpha" and form == "data" and via == "kwargs":
            continue  # the main grid
        yield dict(a, labels=labels, form=form, via=via, seed=seed if labels == "numlike" else 0)


def shards(tier, seed):
    out = []
    for name, source in model_sources(tier):
        spec = MODEL_SPECS[name]
        if spec["kind"] == "mixture_logistic":
            out.append({"model": name, "source": source, "part": "mixture", "tier": tier, "seed": seed})
            continue
        out.append({"model": name, "source": source, "part": "identifiers", "tier": tier, "seed": seed})
        if source == "loaded":
            out.append({"model": name, "source": source, "part": "reuse", "tier": tier, "seed": seed})
        if source == "loaded" and name == "logistic_d2_s1_diag":
            out.append({"model": name, "source": source, "part": "long_chain", "tier": tier, "seed": seed})
        for cohort in COHORTS[tier]:
            if not ingestible(spec, cohort):
                continue
            out.append({"model": name, "source": source, "part": "mcmc", "cohort": cohort, "tier": tier, "seed": seed})
            out.append({"model": name, "source": source, "part": "scipy", "cohort": cohort, "tier": tier, "seed": seed})
        for cohort in NOSCORE_COHORTS:
            if ingestible(spec, cohort):
                out.append({"model": name, "source": source, "part": "mcmc_small", "cohort": cohort, "tier": tier, "seed": seed})
                out.append({"model": name, "source": source, "part": "scipy", "cohort": cohort, "tier": tier, "seed": seed})
    # simplest first: small cohorts, sampling before optimisation
    order = [m for m, _ in model_sources(tier)]
    out.sort(key=lambda s: (len(s.get("cohort", "xxx")), order.index(s["model"]), s["source"] != "loaded", s.get("cohort", []), s["part"] != "mcmc"))
    njobs = [{"part": "njobs", "model": m, "n_jobs": [1, 2] if tier == "quick" else [1, 2, 3], "tier": tier} for m in NJOBS_MODELS[tier]]
    return out[:1] + njobs + out[1:]


def shard_cases(shard):
    name, source, tier, seed = shard["model"], shard["source"], shard["tier"], shard["seed"]
    spec = MODEL_SPECS[name]
    base = {"model": name, "source": source}
    if shard["part"] == "identifiers":
        for cohort in ID_COHORTS:
            for c in identifier_cases(spec, seed):
                yield dict(base, cohort=cohort, **c)
    elif shard["part"] == "mixture":
        for cohort in (["c", "a"], ["e", "d", "a"]):
            for c in scipy_cases("quick", 0):
                if c["seed"] == 0 and c["settings"]["optimiser"] in ("powell", "nelder_mead"):
                    yield dict(base, cohort=cohort, labels="alpha", form="data", via="kwargs", **c)
            for algo in ("mean_posterior", "mode_posterior"):
                yield dict(base, cohort=cohort, labels="alpha", form="data", via="kwargs", algo=algo,
                           settings={"n_iter": 5, "burn": "frac0.5", "annealing": "off"}, seed=0)
    elif shard["part"] == "long_chain":
        # more than a thousand kept draws (a number that is not a round one): the mean is the mean of ALL of them, equally weighted
        for algo, n_iter, burn in (("mean_posterior", 1100, "frac0"), ("mode_posterior", 1100, "frac0"), ("mean_posterior", 2300, "frac0.5")):
            if tier == "quick" and n_iter > 1100:
                continue
            yield dict(base, cohort=["a"], labels="alpha", form="data", via="kwargs", algo=algo,
                       settings={"n_iter": n_iter, "burn": burn, "annealing": "off"}, seed=0)
    elif shard["part"] == "reuse":
        for cohort, prior in ((["c", "a", "b"], ["e", "d", "a"]), (["e", "d"], ["a", "b", "c"]), (["a"], ["b"])):
            if not (ingestible(spec, cohort) and ingestible(spec, prior)):
                continue
            for a in ({"algo": "mean_posterior", "settings": {"n_iter": 6, "burn": "frac0.5", "annealing": "off"}},
                      {"algo": "mode_posterior", "settings": {"n_iter": 5, "burn": "count1", "annealing": "2_plateaus"}},
                      {"algo": "scipy_minimize", "settings": {"optimiser": "powell_1_iteration"}}):
                for sd in seeds_of(seed)[:2]:
                    yield dict(base, cohort=cohort, labels="alpha", form="data", via="kwargs", reuse=prior, seed=sd, **a)
    elif shard["part"] == "mcmc_small":
        for algo, burn, a, sd in itertools.product(("mean_posterior", "mode_posterior"), ("frac0.5", "count1"), ("off", "2_plateaus"), seeds_of(seed)):
            yield dict(base, cohort=shard["cohort"], labels="alpha", form="data", via="kwargs", algo=algo,
                       settings={"n_iter": 6, "burn": burn, "annealing": a}, seed=sd)
    else:
        gen = mcmc_cases(tier, seed) if shard["part"] == "mcmc" else scipy_cases(tier, seed)
        for c in gen:
            yield dict(base, cohort=shard["cohort"], labels="alpha", form="data", via="kwargs", **c)


def config_key(case):
    return digest(case)


def run_shard(shard):
    torch.set_num_threads(1)
    acc = Acc()
    if shard["part"] == "njobs":
        check_njobs(acc, shard["model"], shard["n_jobs"])
        return acc.to_dict()
    for case in shard_cases(shard):
        res = run_case(case)
        acc.evaluation()
        acc.outcome(res["outcome"])
        acc.count(f"cases {case['algo']}")
        if res["nontrivial"]:
            acc.nontriv(config_key(case))
        if res["outcome"].startswith("scipy") or res["outcome"].startswith("m"):
            acc.count("cases with every oracle evaluated" if not res["problems"] else "cases with a problem")
        if not res["problems"] and res["nontrivial"] and (len(acc.samples) < 1 or (len(acc.samples) < 2 and case["algo"] != acc.samples[0]["case"]["algo"])):
            acc.sample({"case": case, "outcome": res["outcome"], "info": res["info"]})
        for sig, msg in res["problems"]:
            acc.violation(sig, msg, case)
    return acc.to_dict()


def replay(case):
    if case.get("part") == "njobs":
        acc = Acc()
        check_njobs(acc, case["model"], case["all_n_jobs"])
        return [{"signature": v["signature"], "message": v["message"]} for v in acc.violations.values()]
    res = run_case(case)
    return [{"signature": s, "message": m} for s, m in res["problems"]]


def self_check():
    """The three spies see leaspy's own calls, record what the oracles need, and are removed afterwards."""
    import leaspy.algo.personalize.scipy_minimize as sm
    from leaspy.samplers.gibbs import IndividualGibbsSampler

    before = (sm.minimize, IndividualGibbsSampler.sample)
    spec = MODEL_SPECS["logistic_d2_s0_diag"]
    for algo, kw in (("scipy_minimize", {"use_jacobian": False}), ("mode_posterior", {"n_iter": 3})):
        model = get_model("logistic_d2_s0_diag", "loaded")
        with spies() as rec, quiet():
            model.personalize(to_form(case_frame(spec, ["c", "a"], "alpha"), spec, "data"), algo, seed=0, progress_bar=False, **kw)
        if algo == "scipy_minimize" and len(rec["minimize"]) != 2:
            raise RuntimeError("C17: the minimize spy is inactive")
        if algo == "mode_posterior" and (len(rec["from_samples"]) != 1 or len(rec["sweeps"]) != 6):
            raise RuntimeError("C17: the sampling spies are inactive")
    if (sm.minimize, IndividualGibbsSampler.sample) != before:
        raise RuntimeError("C17: spies not removed")

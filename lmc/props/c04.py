"""C04 -- the maximisation step is the closed-form maximiser of the sufficient statistics.

E-GRID: model kind x noise structure x visit layout x EVERY missing-entry pattern (each individual keeps >= 1
observation) x latent-state alphabet (2 values per group of latent variables) x phase.  Every case is a short history
driven through the REAL ``TensorMcmcSaemAlgorithm._maximization_step`` (iteration counter set by hand, as in C05):

    k = n_b      memory-less phase                         latent state L
    k = n_b + 1  first iteration after the memory-less one latent state ~L (every group flipped)
    k = n_b + 2  with memory, S = (1-e) s(~L) + e s(L)     latent state L          (thorough: one more, k = n_b + 3, ~L)

The parameters held before each step (theta), the statistics handed to ``update_parameters`` (S, recorded by a
transparent wrapper), the statistics of the current state (s) and the parameters after the step are compared with a
float64 numpy reference that only uses theta and S (plus y / model for the noise level in the memory-less phases).
Binding: complete seeded fits of real models, every iteration checked by the same oracle.
"""

from __future__ import annotations

import itertools
import math
import warnings

import numpy as np
import pandas as pd
import torch

import leaspy.models  # noqa: F401
from leaspy.algo import AlgorithmSettings
from leaspy.algo.base import algorithm_factory
from leaspy.exceptions import LeaspyConvergenceError
from leaspy.io.data import Data, Dataset
from leaspy.utils.weighted_tensor import WeightedTensor
from leaspy.variables.specs import IndividualLatentVariable, ModelParameter, PopulationLatentVariable

from ..core import Acc
from ..models import build_model
from ..oracle import tdigest

ID = "C04"
LEVEL = "exploration"
RULE = (
    "a case = (model configuration, visit layout, missing-entry pattern, latent state, phase) = one real "
    "_maximization_step; it is non-trivial when the step ran to the end and moved at least one parameter; distinct "
    "cases are counted by the digest of (configuration, phase, parameter values after the step), so two cases that "
    "produce the same parameters count once"
)
ASSUMPTIONS = [
    "2-3 individuals, <= 3 visits, <= 2 maskable features (mixture: features 2,3 always observed); values on fixed well-conditioned grids",
    "latent alphabet: 2 values per group (population variables / tau / xi / sources), the previous iteration of a history holds the flipped state",
    "memory weights e = (k-n_b)^-1 (0.5, 1/3); the schedule itself is C05's subject, here S is whatever the algorithm hands to update_parameters",
    "float32 implementation vs float64 reference: every tolerance is k*eps32*sum|terms| of the operation (written next to the comparison); population means are demanded bit-exact",
    "a feature without any observation in the whole cohort has no defined per-feature noise level (the implementation stores NaN): not compared, counted",
    "mixture responsibilities use the implementation's documented floor (log-weight >= -100): it only matters for a cluster farther than 100 nats from an individual; "
    "an (almost) empty cluster is produced by re-applying a parameter warm start (tau_mean of one cluster far from every individual) before every step",
    "collapsed dispersions (variance < 1e-5, documented LeaspyConvergenceError) are outside the alphabet; a raise is accepted only if the reference variance is below the threshold",
    "mixture: responsibilities are the per-individual normalised cluster weights computed from the pre-step parameters and the latent values; the "
    "implementation's convention (component likelihoods, current cluster probabilities not included) is accepted and counted "
    "(STRICT_RESPONSIBILITIES=False); individuals farther than 90 nats from every cluster are skipped (the implementation floors log-weights at -100)",
]

# if True, responsibilities must be the posterior membership probabilities pi_c N_c / sum_c' pi_c' N_c' (standard EM);
# leaspy normalises the component likelihoods without pi_c everywhere (samplers included): counted, reported, not flagged
STRICT_RESPONSIBILITIES = False

EPS32 = float(np.finfo(np.float32).eps)
VAR_THRESHOLD = 1e-5  # compute_std_from_variance default / FullGaussianObservationModel.tol_noise_variance

# ------------------------------------------------------------------------------------------
# catalogue

CONFIGS = {
    "logistic_d2_s1_diag": {"kind": "logistic", "dim": 2, "ns": 1, "noise": "gaussian-diagonal"},
    "logistic_d2_s1_scalar": {"kind": "logistic", "dim": 2, "ns": 1, "noise": "gaussian-scalar"},
    "logistic_d1_s0_scalar": {"kind": "logistic", "dim": 1, "ns": 0, "noise": "gaussian-scalar"},
    "logistic_d2_s1_bernoulli": {"kind": "logistic", "dim": 2, "ns": 1, "noise": "bernoulli"},
    "linear_d2_s0_scalar": {"kind": "linear", "dim": 2, "ns": 0, "noise": "gaussian-scalar"},
    "linear_d2_s1_diag": {"kind": "linear", "dim": 2, "ns": 1, "noise": "gaussian-diagonal"},
    "shared_d2_s1_diag": {"kind": "shared_speed_logistic", "dim": 2, "ns": 1, "noise": "gaussian-diagonal"},
    "shared_d2_s0_scalar": {"kind": "shared_speed_logistic", "dim": 2, "ns": 0, "noise": "gaussian-scalar"},
    "joint_d2_s1_diag": {"kind": "joint", "dim": 2, "ns": 1, "noise": "gaussian-diagonal"},
    "joint_d1_s0_scalar": {"kind": "joint", "dim": 1, "ns": 0, "noise": "gaussian-scalar"},
    # competing events: one Weibull scale / shape (and one column of zeta) per event, all updated in the same step
    "joint_d2_s1_diag_2events": {"kind": "joint", "dim": 2, "ns": 1, "noise": "gaussian-diagonal", "ne": 2},
    "mixture_d4_s2_diag": {"kind": "mixture_logistic", "dim": 4, "ns": 2, "noise": "gaussian-diagonal"},
}
NOISE_LABEL = {"gaussian-diagonal": "diagonal noise", "gaussian-scalar": "scalar noise", "bernoulli": "no noise parameter"}

LAYOUTS = {"1+1": [1, 1], "2+1": [2, 1], "1+1+1": [1, 1, 1], "2+2": [2, 2], "2+1+1": [2, 1, 1], "3+2": [3, 2]}
QUICK_LAYOUTS = ["1+1", "2+1", "1+1+1"]
THOROUGH_LAYOUTS = ["1+1", "2+1", "1+1+1", "2+2", "2+1+1", "3+2"]

NAN = float("nan")
IDS = ["i0", "i1", "i2"]
AGES = [[62.0, 66.5, 71.0], [70.0, 74.5, 78.0], [58.0, 61.0, 69.0]]
VALS = [
    [[0.15, 0.10, 0.30, 0.22], [0.25, 0.20, 0.35, 0.31], [0.33, 0.41, 0.52, 0.40]],
    [[0.40, 0.30, 0.45, 0.38], [0.48, 0.50, 0.50, 0.41], [0.60, 0.57, 0.70, 0.55]],
    [[0.05, 0.12, 0.10, 0.08], [0.12, 0.18, 0.21, 0.14], [0.30, 0.22, 0.28, 0.33]],
]
EVENTS = [(73.0, 1), (80.5, 0), (70.0, 1)]

# latent alphabets (per individual); old and new means differ by >= 1 for tau (simultaneity discriminates)
TAU = {"A": [64.0, 73.5, 69.25], "B": [75.0, 79.5, 71.0]}
XI = {"A": [0.4, -0.7, 0.1], "B": [-0.3, 0.9, 0.5]}
SRC = {"A": [[0.5, -0.2], [-1.0, 0.7], [0.3, 1.1]], "B": [[-0.6, 0.9], [0.8, -0.4], [1.2, 0.2]]}
POP_OFFSET = {"betas": 0.05, "zeta": 0.03, "g": 0.1, "log_rho": 0.1}  # default 0.25

# mixture only: parameter warm starts applied before EVERY step of a history (a user may set parameters in the state):
# one cluster is placed far from every individual so that it gets (almost) no responsibility.
#   far<c>:  tau_mean[c] = 10, tau_std = 8 -> about 25 nats behind the other cluster (mean responsibility ~ 1e-11)
#   gone<c>: tau_mean[c] = -300           -> > 1000 nats: the implementation's floor (log-weight >= -100) decides
WARM = {"far0": (0, 10.0), "far1": (1, 10.0), "gone0": (0, -300.0), "gone1": (1, -300.0)}
WARM_NEAR_TAU_MEAN, WARM_TAU_STD = 72.0, 8.0
LOGW_FLOOR = -100.0  # torch.clamp(-nll, -100) in every mixture rule

PHASES = ["memory-less phase", "first iteration after the memory-less phase", "with memory"]
N_BURN = 2


def bounds(tier):
    lay = QUICK_LAYOUTS if tier == "quick" else THOROUGH_LAYOUTS
    return {
        "model_configurations": sorted(CONFIGS),
        "visit_layouts": {k: LAYOUTS[k] for k in lay},
        "missing_patterns": "all subsets of missing entries leaving >= 1 observation per individual "
        + ("(<= 45 per layout)" if tier == "quick" else "(<= 945 per layout)"),
        "latent_states": "all 2^g combinations of the g = 3 or 4 latent groups (pop, tau, xi, sources)",
        "history": "k = n_b, n_b+1, n_b+2" + (", n_b+3" if tier == "thorough" else "") + " with n_b = 2, step power 1",
        "mixture_empty_cluster": "parameter warm starts far0/far1/gone0/gone1 (tau_mean of one cluster at 10 or -300, tau_std 8) re-applied before every step, "
        "for complete data and every single missing entry, all latent states, all phases",
        "real_fits": "seeded fits (6-8 iterations) of 5 (quick) / 9 (thorough) configurations, every iteration checked",
    }


# ------------------------------------------------------------------------------------------
# data

def entries(layout, dim, maskable):
    return [(i, j, k) for i, nv in enumerate(layout) for j in range(nv) for k in range(min(dim, maskable))]


def patterns(layout, dim, maskable):
    """All sets of missing entries (as index tuples into entries()) leaving >= 1 observation per individual, fewest missing first."""
    ent = entries(layout, dim, maskable)
    always = dim > maskable
    out = []
    for r in range(len(ent) + 1):
        for miss in itertools.combinations(range(len(ent)), r):
            if not always:
                ms = set(miss)
                if any(all(q in ms for q, e in enumerate(ent) if e[0] == i) for i in range(len(layout))):
                    continue
            out.append(list(miss))
    return out


def make_frame(spec, layout, missing):
    dim = spec["dim"]
    binary = spec["noise"] == "bernoulli"
    miss = {tuple(m) for m in missing}
    rows = []
    for i, nv in enumerate(layout):
        for j in range(nv):
            vals = []
            for k in range(dim):
                v = VALS[i][j][k]
                if binary:
                    v = float(v > 0.3)
                vals.append(NAN if (i, j, k) in miss else v)
            rows.append([IDS[i], AGES[i][j]] + vals)
    feats = [f"Y{k}" for k in range(dim)]
    df = pd.DataFrame(rows, columns=["ID", "TIME"] + feats)
    if spec["kind"] == "joint":
        df["EVENT_TIME"] = [EVENTS[IDS.index(i)][0] for i in df["ID"]]
        df["EVENT_BOOL"] = [EVENTS[IDS.index(i)][1] for i in df["ID"]]
        if int(spec.get("ne", 1)) == 2:
            # two competing events: the first individual has event 2 (the reader wants the highest code present), then 1, then censored
            df["EVENT_BOOL"] = [[2, 1, 0][IDS.index(i)] for i in df["ID"]]
    return df, feats


def make_dataset(spec, df):
    if spec["kind"] == "joint" and int(spec.get("ne", 1)) != 1:
        return Dataset(Data.from_dataframe(df, "joint", factory_kws={"nb_events": int(spec["ne"])}))
    if spec["kind"] == "joint":
        return Dataset(Data.from_dataframe(df, "joint"))
    return Dataset(Data.from_dataframe(df))


def missing_class(dataset):
    """Which kind of incompleteness the tensors hold (a visit slot is real when at least one feature is observed there)."""
    m = dataset.mask.to(torch.bool).numpy()  # (individuals, visit slots, features)
    real = m.any(axis=-1)
    if (~m[real]).any():
        return "entry missing at a real visit"
    if (~real).any():
        return "padded visits only"
    return "complete rectangular data"


# ------------------------------------------------------------------------------------------
# model / algorithm / latent states

def arr(v):
    """(float64 numpy value, bool mask or None)."""
    if isinstance(v, WeightedTensor):
        val = v.value.detach().to(torch.float64).numpy().copy()
        w = None if v.weight is None else np.broadcast_to(v.weight.detach().to(torch.bool).numpy(), val.shape).copy()
        return val, w
    return torch.as_tensor(v).detach().to(torch.float64).numpy().copy(), None


def make_algo(n_iter=8, n_burn=N_BURN, power=1.0, seed=0, via_load=False, annealing=False):
    """via_load: the algorithm is built with another length of the memory-less phase, the wanted one being given afterwards
    through the documented `algo.load_parameters({...})` - the phase of every iteration must follow what the algorithm holds now."""
    with warnings.catch_warnings():
        warnings.simplefilter("ignore")
        settings = AlgorithmSettings("mcmc_saem", n_iter=n_iter, progress_bar=False, seed=seed,
                                     n_burn_in_iter=n_burn + 3 if via_load else n_burn, n_burn_in_iter_frac=None, burn_in_step_power=power,
                                     # annealing that outlasts the memory-less phase: the chain is still heated when the rules with memory apply
                                     **({"annealing": dict(do_annealing=True, initial_temperature=3.0, n_plateau=3, n_iter_frac=0.9)} if annealing else {}))
        algo = algorithm_factory(settings)
        if via_load:
            algo.load_parameters({"n_burn_in_iter": n_burn})
        return algo


class Recorder:
    """Transparent wrappers around the two model methods `_maximization_step` calls (recorded, not altered)."""

    def __init__(self, model):
        self.model = model
        self.cls = type(model)
        self.clear()
        o_css = self.cls.compute_sufficient_statistics.__func__
        o_up = self.cls.update_parameters.__func__
        rec = self

        def css(state):
            out = o_css(rec.cls, state)
            rec.s.append(dict(out))
            return out

        def up(state, sufficient_statistics, *, burn_in):
            rec.S.append(dict(sufficient_statistics))
            rec.burn.append(burn_in)
            rec.pre.append(read_params(rec.info, state))
            try:
                return o_up(rec.cls, state, sufficient_statistics, burn_in=burn_in)
            finally:
                rec.post.append(read_params(rec.info, state))
                if rec.keep_latent:
                    rec.latent.append(read_latent(rec.info, state))

        model.compute_sufficient_statistics = css
        model.update_parameters = up
        self.info = None
        self.keep_latent = False

    def clear(self):
        self.s, self.S, self.burn, self.pre, self.post, self.latent = [], [], [], [], [], []


def model_info(name, model):
    spec = CONFIGS[name]
    dag = model.state.dag
    params = list(dag.sorted_variables_by_type[ModelParameter])
    pop = sorted(dag.sorted_variables_by_type[PopulationLatentVariable])
    ind = sorted(dag.sorted_variables_by_type[IndividualLatentVariable])
    mixture = spec["kind"] == "mixture_logistic"
    rules = {}
    for p in params:
        if p == "noise_std":
            rules[p] = ("noise", None)
        elif p == "probs":
            rules[p] = ("probs", None)
        elif p.endswith("_mean") and p[:-5] in pop:
            rules[p] = ("pop_mean", p[:-5])
        elif p.endswith("_mean") and p[:-5] in ind:
            rules[p] = ("mix_mean" if mixture else "ind_mean", p[:-5])
        elif p.endswith("_std") and p[:-4] in ind:
            rules[p] = ("mix_std" if mixture else "ind_std", p[:-4])
        else:
            raise RuntimeError(f"harness: no documented update rule known for model parameter '{p}' of {name}")
    aux = [f"{v}_{suffix}" for v in ind for suffix in ("mean", "std") if f"{v}_{suffix}" not in params and f"{v}_{suffix}" in dag]
    info = {
        "name": name, "spec": spec, "params": params, "pop": pop, "ind": ind, "rules": rules, "aux": aux,
        "mixture": mixture, "noise": NOISE_LABEL[spec["noise"]],
        "pop_base": {v: model.state[v].detach().clone() for v in pop},
        "groups": ["pop", "tau", "xi"] + (["sources"] if "sources" in ind else []),
    }
    return info


def read_params(info, state):
    """Model parameters (+ the fixed prior means/stds of individual variables that are hyperparameters)."""
    out = {}
    for p in info["params"] + info["aux"]:
        out[p] = arr(state[p])[0]
    return out


def read_latent(info, state):
    out = {v: arr(state[v])[0] for v in info["pop"] + info["ind"]}
    for v in ("y", "model"):
        try:
            out[v] = arr(state[v])
        except Exception:
            pass
    return out


def flip(label):
    return "".join("B" if c == "A" else "A" for c in label)


def latent_labels(info):
    return ["".join(t) for t in itertools.product("AB", repeat=len(info["groups"]))]


def set_latent(info, st, label, n):
    choice = dict(zip(info["groups"], label))
    for v in info["pop"]:
        base = info["pop_base"][v]
        if choice["pop"] == "A":
            val = base.clone()
        else:
            m = base.numel()
            k = torch.arange(m, dtype=base.dtype)
            bump = (POP_OFFSET.get(v, 0.25) * (1 + 0.25 * k) * (-1.0) ** k).reshape(base.shape)
            val = base + bump
        st[v] = val
    if info["mixture"]:
        # same path as a fit of the mixture model (float64 tau / xi, float32 sources)
        df = pd.DataFrame({"tau": TAU[choice["tau"]][:n], "xi": XI[choice["xi"]][:n]})
        for l in range(info["spec"]["ns"]):
            df[f"sources_{l}"] = [SRC[choice["sources"]][i][l] for i in range(n)]
        st.put_individual_latent_variables(df=df)
        return
    st["tau"] = torch.tensor(TAU[choice["tau"]][:n], dtype=torch.float32).reshape(n, 1)
    st["xi"] = torch.tensor(XI[choice["xi"]][:n], dtype=torch.float32).reshape(n, 1)
    if "sources" in info["ind"]:
        ns = info["spec"]["ns"]
        st["sources"] = torch.tensor([SRC[choice["sources"]][i][:ns] for i in range(n)], dtype=torch.float32)


def apply_warm(st, warm):
    if warm is None:
        return
    c, far = WARM[warm]
    cur = st["tau_mean"]
    mean = torch.full_like(cur, WARM_NEAR_TAU_MEAN)
    mean[c] = far
    st["tau_mean"] = mean
    st["tau_std"] = torch.full_like(st["tau_std"], WARM_TAU_STD)


def fresh_case_state(model, dataset):
    st = model.state.clone(disable_auto_fork=True)
    st.auto_fork_type = None
    model.put_data_variables(st, dataset)
    return st


# ------------------------------------------------------------------------------------------
# the reference

def _close(a, b, tol):
    a, b = np.asarray(a, dtype=np.float64).reshape(-1), np.asarray(b, dtype=np.float64).reshape(-1)
    if a.shape != b.shape:
        return False
    if not (np.isfinite(a).all() and np.isfinite(b).all()):
        return False
    t = np.asarray(tol, dtype=np.float64).reshape(-1)
    if t.size not in (1, a.size):
        raise RuntimeError(f"harness: tolerance of size {t.size} for a value of size {a.size}")
    return bool((np.abs(a - b) <= t).all())


def _fmt(x):
    return np.round(np.asarray(x, dtype=np.float64).reshape(-1)[:6], 7).tolist()


def mixture_responsibilities(info, pre, lat, with_probs):
    """r[i, c] from the pre-step parameters and the latent values (float64, log-sum-exp); also min_c nll per individual."""
    n = lat["tau"].shape[0]
    C = pre["probs"].reshape(-1).shape[0]
    nll = np.zeros((n, C))
    for v in ("tau", "xi"):
        mu, sd = pre[f"{v}_mean"].reshape(-1), pre[f"{v}_std"].reshape(-1)
        x = lat[v].reshape(n, 1)
        nll += 0.5 * ((x - mu[None, :]) / sd[None, :]) ** 2 + np.log(sd)[None, :]
    if "sources" in lat and "sources_mean" in pre:
        mu = pre["sources_mean"]  # (ns, C)
        sd = float(np.asarray(pre.get("sources_std", 1.0)).reshape(-1)[0])
        s = lat["sources"]  # (n, ns)
        nll += (0.5 * ((s[:, :, None] - mu[None, :, :]) / sd) ** 2 + math.log(sd)).sum(axis=1)
    logw = np.maximum(-nll, LOGW_FLOOR)  # the documented floor of the implementation (only matters for an empty cluster)
    if with_probs:
        with np.errstate(divide="ignore"):
            logw = logw + np.log(pre["probs"].reshape(-1))[None, :]
    logw = logw - logw.max(axis=1, keepdims=True)
    w = np.exp(logw)
    return w / w.sum(axis=1, keepdims=True), nll.min(axis=1)


def noise_reference(info, S, lat, memoryless):
    """variance reference (global or per feature), its tolerance, the 'model values at unobserved entries' excess, n_obs."""
    y, mask = lat["y"]
    mask = np.ones_like(y, dtype=bool) if mask is None else mask
    n_ft = y.shape[-1]
    s_yxm = arr(S["y_x_model"])[0]
    s_mxm = arr(S["model_x_model"])[0]
    if memoryless:
        m = lat["model"][0]
        q = (y - m) ** 2  # root-mean-square residual, independent of the statistics
    else:
        q = y ** 2 - 2 * s_yxm + s_mxm  # the same quantity written with the statistics in force
    mag = y ** 2 + 2 * np.abs(s_yxm) + np.abs(s_mxm)
    scalar = info["spec"]["noise"] == "gaussian-scalar"
    if scalar:
        n_obs = mask.sum()
        var = np.where(mask, q, 0.0).sum() / n_obs
        # 3 float32 sums of N terms: |err| <= N eps sum|terms| each, then 3 more roundings
        tol = 2 * (mask.size + 4) * EPS32 * np.where(mask, mag, 0.0).sum() / n_obs + 4 * EPS32 * abs(var)
        extra = np.where(mask, 0.0, s_mxm).sum() / n_obs
    else:
        ax = tuple(range(y.ndim - 1))
        n_obs = mask.sum(axis=ax)
        div = np.maximum(n_obs, 1)  # a feature without any observation has no defined noise level (not compared)
        var = np.where(mask, q, 0.0).sum(axis=ax) / div
        tol = 2 * (mask.size // n_ft + 4) * EPS32 * np.where(mask, mag, 0.0).sum(axis=ax) / div + 4 * EPS32 * np.abs(var)
        extra = np.where(mask, 0.0, s_mxm).sum(axis=ax) / div
    return np.atleast_1d(var), np.atleast_1d(tol), np.atleast_1d(extra), n_obs


def ind_var_reference(S, pre_mean, base):
    """mean S[x^2] - 2 theta mean S[x] + theta^2 (per column), with its float32 evaluation tolerance."""
    x = arr(S[base])[0]
    x2 = arr(S[f"{base}_sqr"])[0]
    m1, m2 = x.mean(axis=0), x2.mean(axis=0)
    th = np.asarray(pre_mean, dtype=np.float64)
    var = m2 - 2 * th * m1 + th ** 2
    # three float32 terms of these magnitudes are added: condition number (|m2| + 2|th m1| + th^2) / var
    tol = 16 * EPS32 * (np.abs(x2).mean(axis=0) + 2 * np.abs(th * m1) + th ** 2)
    return var, tol, m1


def expected_collapse(info, S, pre, lat, burn_in):
    """True/False/None(=borderline): does the documented rule have to refuse (variance below the threshold)?"""
    lows, border = False, False
    for p, (rule, base) in info["rules"].items():
        if rule == "ind_std" and not burn_in:
            var, tol, _ = ind_var_reference(S, pre[f"{base}_mean"], base)
        elif rule == "noise":
            var, tol, _, n_obs = noise_reference(info, S, lat, False)
            if info["spec"]["noise"] == "gaussian-diagonal":
                keep = np.atleast_1d(n_obs) > 0
                var, tol = var[keep], tol[keep]
        else:
            continue
        var, tol = np.atleast_1d(var).reshape(-1), np.broadcast_to(np.atleast_1d(tol).reshape(-1), np.atleast_1d(var).reshape(-1).shape)
        if (var < VAR_THRESHOLD - tol).any():
            lows = True
        elif (var < VAR_THRESHOLD + tol).any():
            border = True
    return True if lows else (None if border else False)


def check_step(info, pre, post, S, s_cur, burn_in, lat, phase, mclass, acc=None):
    """All mismatches between the parameters after one maximisation step and the documented closed forms.

    pre / post: parameters before / after; S: statistics in force; s_cur: statistics of the current state;
    lat: latent values, y and model read after the step (not touched by the parameter update)."""
    out = []

    def bad(site, kind, feature, msg):
        out.append((f"{site}|{kind}|{feature}", msg))

    memoryless = phase != PHASES[2]

    # ---- the statistics of the current state are what their names say
    for v in info["pop"] + info["ind"]:
        if v in s_cur and not np.array_equal(arr(s_cur[v])[0], lat[v]):
            bad("compute_sufficient_statistics", "collected latent value differs from the state", "latent variable", f"'{v}'")
        sq = f"{v}_sqr"
        if sq in s_cur:
            got, ref = arr(s_cur[sq])[0], lat[v] ** 2
            if not _close(got, ref, 4 * EPS32 * np.abs(ref).reshape(-1) + 1e-30):
                bad("compute_sufficient_statistics", "collected square differs from the squared latent value", "latent variable",
                    f"'{sq}': {_fmt(got)} expected {_fmt(ref)}")
    if "y_x_model" in s_cur and "model" in lat:
        y, mask = lat["y"]
        mask = np.ones_like(y, dtype=bool) if mask is None else mask
        m = lat["model"][0]
        for nm, ref in (("y_x_model", y * m), ("model_x_model", m * m)):
            got = arr(s_cur[nm])[0]
            if not _close(got[mask], ref[mask], 4 * EPS32 * np.abs(ref[mask]) + 1e-30):
                bad("compute_sufficient_statistics", "collected product differs from its definition at observed entries", "noise statistics",
                    f"'{nm}': {_fmt(got[mask])} expected {_fmt(ref[mask])}")

    # ---- mixture responsibilities (pre-step parameters, latent values in force)
    resp = None
    if info["mixture"]:
        r_lik, far = mixture_responsibilities(info, pre, lat, with_probs=False)
        r_post, _ = mixture_responsibilities(info, pre, lat, with_probs=True)
        if (far > 90).any():
            if acc is not None:
                acc.count("mixture_steps_skipped_individual_far_from_every_cluster")
            resp = None
        else:
            resp = (r_lik, r_post)

    for p in info["params"]:
        rule, base = info["rules"][p]
        got = np.asarray(post[p], dtype=np.float64)
        defined = None
        if rule == "noise" and info["spec"]["noise"] == "gaussian-diagonal":
            defined = np.atleast_1d(noise_reference(info, S, lat, memoryless)[3]) > 0
            if not defined.all():
                if acc is not None:
                    acc.count("steps_with_a_never_observed_feature (its noise level is undefined, not compared)")
                got = np.where(defined, got.reshape(-1), 1.0)
        if not np.isfinite(got).all():
            bad("update_parameters", "parameter is not finite after the step", f"{rule}, {phase}", f"'{p}' = {_fmt(got)}")
            continue
        if rule == "pop_mean":
            ref = arr(S[base])[0]
            if got.size != ref.size or not np.array_equal(got.reshape(-1), ref.reshape(-1)):
                bad("update_parameters", "population prior mean differs from the statistic in force", phase,
                    f"'{p}' = {_fmt(got)} expected {_fmt(ref)}")
        elif rule == "ind_mean":
            x = arr(S[base])[0]
            ref = x.mean(axis=0)
            tol = 4 * EPS32 * np.abs(x).max()  # float32 mean of <= 3 values
            if not _close(got, ref, tol):
                bad("update_parameters", "individual prior mean is not the average of the latent values in force", phase,
                    f"'{p}' = {_fmt(got)} expected {_fmt(ref)}")
        elif rule == "ind_std":
            if burn_in:
                x = arr(S[base])[0]
                ref = x.var(axis=0, ddof=1)
                dev = np.abs(x - x.mean(axis=0)).max()
                tol = 16 * EPS32 * np.abs(x).max() * dev + 8 * EPS32 * np.abs(ref)  # deviations carry 2 eps |x| each
                if not _close(got ** 2, ref, tol):
                    kind = "prior standard deviation is not the unbiased dispersion of the latent values"
                    if _close(got ** 2, x.var(axis=0, ddof=0), tol):
                        kind = "prior standard deviation is the biased (1/n) dispersion in the memory-less phase"
                    bad("update_parameters", kind, phase, f"'{p}' = {_fmt(got)} expected {_fmt(np.sqrt(ref))}")
            else:
                ref, tol, m1 = ind_var_reference(S, pre[f"{base}_mean"], base)
                tol = tol + 8 * EPS32 * np.abs(ref)
                if not _close(got ** 2, ref, tol):
                    kind = "prior standard deviation is not sqrt(mean S[x^2] - 2 old_mean mean S[x] + old_mean^2)"
                    alt, _, _ = ind_var_reference(S, post[f"{base}_mean"], base)
                    if not np.allclose(pre[f"{base}_mean"], post[f"{base}_mean"]) and _close(got ** 2, alt, tol):
                        kind = "prior standard deviation computed around the updated mean instead of the pre-step mean"
                    bad("update_parameters", kind, phase, f"'{p}' = {_fmt(got)} expected {_fmt(np.sqrt(np.maximum(ref, 0)))}")
        elif rule == "noise":
            ref, tol, extra, n_obs = noise_reference(info, S, lat, memoryless)
            if "n_obs_frame" in lat and int(np.sum(n_obs)) != lat["n_obs_frame"]:
                raise RuntimeError(f"harness: observation mask holds {int(np.sum(n_obs))} entries, the table {lat['n_obs_frame']}")
            if defined is not None and not defined.all():
                ref, extra = np.where(defined, ref, 1.0), np.where(defined, extra, 0.0)
            if not _close(got ** 2, ref, tol):
                kind = "noise level is not the root-mean-square residual over observed entries"
                if (extra > tol).any() and _close(got ** 2, ref + extra, tol + 100 * EPS32 * extra):
                    kind = "noise level counts model values at unobserved entries"
                bad("update_parameters", kind, f"{info['noise']}, {mclass}",
                    f"{phase}: '{p}' = {_fmt(got)} expected {_fmt(np.sqrt(np.maximum(ref, 0)))} ({int(np.sum(n_obs))} observed entries)")
        elif rule == "probs":
            if abs(got.sum() - 1.0) > 4 * EPS32:
                bad("update_parameters", "mixture probabilities do not sum to one", "mixture", f"{phase}: {_fmt(got)} sum {got.sum()!r}")
            if resp is not None:
                r_lik, r_post = resp
                if acc is not None and r_lik.mean(axis=0).min() < 1e-3:
                    acc.count("mixture_steps_with_a_mean_responsibility_below_1e-3")
                tol = 1e-5  # responsibilities: exp of float32 log-weights of magnitude <= 90 (90 eps32 ~ 1e-5 relative)
                ok_post, ok_lik = _close(got, r_post.mean(axis=0), tol), _close(got, r_lik.mean(axis=0), tol)
                distinguishable = not _close(r_post.mean(axis=0), r_lik.mean(axis=0), 4 * tol)
                if ok_lik and not ok_post and distinguishable:
                    if acc is not None:
                        acc.count("mixture_probs_from_likelihood_only_responsibilities")
                    if STRICT_RESPONSIBILITIES:
                        bad("update_parameters", "mixture probabilities are mean responsibilities that ignore the current cluster probabilities",
                            "mixture", f"{phase}: {_fmt(got)} expected {_fmt(r_post.mean(axis=0))}")
                elif not (ok_lik or ok_post):
                    bad("update_parameters", "mixture probabilities are not the mean cluster responsibilities", "mixture",
                        f"{phase}: {_fmt(got)} expected {_fmt(r_lik.mean(axis=0))} (or {_fmt(r_post.mean(axis=0))} with cluster probabilities)")
        elif rule == "mix_mean":
            if resp is None:
                continue
            x_S = arr(S[base])[0]
            x_cur = lat[base]
            scale = max(1.0, float(np.abs(x_S).max()), float(np.abs(x_cur).max()))
            tol = 1e-5 * scale * 4

            def wmean(r, x):
                if x.shape[1] == 1 and base != "sources":
                    return (r * x).sum(axis=0) / r.sum(axis=0)  # (C,)
                return (x[:, :, None] * r[:, None, :]).sum(axis=0) / r.sum(axis=0)[None, :]  # (ns, C)

            refs = [wmean(r, x_S) for r in resp]
            if not any(_close(got, ref, tol) for ref in refs):
                kind = "mixture prior mean is not the responsibility-weighted average of the latent values in force"
                if not memoryless and any(_close(got, wmean(r, x_cur), tol) for r in resp):
                    kind = "mixture prior mean computed from the current latent values, not from the statistics in force"
                bad("update_parameters", kind, f"mixture, {phase}", f"'{p}' = {_fmt(got)} expected {_fmt(refs[0])}")
        elif rule == "mix_std":
            x = arr(S[base])[0]
            if burn_in:
                xc = lat[base]
                ref = np.broadcast_to(xc.var(axis=0, ddof=1), got.shape)
                dev = np.abs(xc - xc.mean(axis=0)).max()
                tol = 16 * EPS32 * np.abs(xc).max() * dev + 16 * EPS32 * np.abs(ref)
                if not _close(got ** 2, ref, tol):
                    bad("update_parameters", "prior standard deviation is not the unbiased dispersion of the latent values", f"mixture, {phase}",
                        f"'{p}' = {_fmt(got)} expected {_fmt(np.sqrt(ref))}")
            else:
                ref, tol, _ = ind_var_reference(S, pre[f"{base}_mean"].reshape(1, -1), base)
                ref, tol = ref.reshape(-1), tol.reshape(-1) + 16 * EPS32 * np.abs(ref.reshape(-1))
                if not _close(got ** 2, ref, tol):
                    bad("update_parameters", "prior standard deviation is not sqrt(mean S[x^2] - 2 old_mean mean S[x] + old_mean^2)", f"mixture, {phase}",
                        f"'{p}' = {_fmt(got)} expected {_fmt(np.sqrt(np.maximum(ref, 0)))}")
    # one message per signature
    seen, uniq = set(), []
    for s, m in out:
        if s not in seen:
            seen.add(s)
            uniq.append((s, m))
    return uniq


# ------------------------------------------------------------------------------------------
# one grid case = one history on the real algorithm object

def run_history(ctx, layout_name, missing, label, n_steps, acc=None, sample=False, warm=None):
    """Returns (problems [(signature, message)], per-step records)."""
    info, model, rec = ctx["info"], ctx["model"], ctx["rec"]
    layout = LAYOUTS[layout_name]
    ent = entries(layout, info["spec"]["dim"], ctx["maskable"])
    miss_entries = [ent[q] for q in missing]
    key = (layout_name, tuple(missing))
    if ctx.get("ds_key") != key:
        df, feats = make_frame(info["spec"], layout, miss_entries)
        ctx["ds"] = make_dataset(info["spec"], df)
        ctx["mclass"] = missing_class(ctx["ds"])
        ctx["n_obs_frame"] = int(df[feats].notna().sum().sum())
        ctx["ds_key"] = key
    ds, mclass = ctx["ds"], ctx["mclass"]
    n = ds.n_individuals
    st = fresh_case_state(model, ds)
    # every second missing pattern: the length of the memory-less phase reaches the algorithm through load_parameters
    algo = make_algo(via_load=len(missing) % 2 == 1)
    problems, records = [], []
    labels = [label, flip(label), label, flip(label)][:n_steps]
    for step, lab in enumerate(labels):
        k = N_BURN + step
        phase = PHASES[min(step, 2)]
        algo.current_iteration = k
        set_latent(info, st, lab, n)
        apply_warm(st, warm)
        rec.clear()
        raised = None
        try:
            with warnings.catch_warnings():
                warnings.simplefilter("ignore")
                algo._maximization_step(model, st)
        except LeaspyConvergenceError as e:
            raised = e
        except Exception as e:  # noqa: BLE001
            problems.append((f"_maximization_step|raises {type(e).__name__}|{info['spec']['kind']}, {phase}", f"{e}"[:300]))
            records.append({"phase": phase, "outcome": f"raised {type(e).__name__}"})
            break
        if acc is not None:
            acc.evaluation()
        if len(rec.S) != 1 or len(rec.s) != 1:
            raise RuntimeError("harness: _maximization_step did not call the two model methods exactly once")
        S, s_cur, burn_in, pre = rec.S[0], rec.s[0], rec.burn[0], rec.pre[0]
        lat = read_latent(info, st)
        lat["n_obs_frame"] = ctx["n_obs_frame"]
        if burn_in != (k <= N_BURN):
            problems.append((f"_maximization_step|burn-in flag passed to the update|{phase}", f"k={k} n_b={N_BURN} burn_in={burn_in}"))
        if raised is not None:
            exp = expected_collapse(info, S, pre, lat, burn_in)
            if exp is False:
                problems.append((f"_maximization_step|raises LeaspyConvergenceError although no variance is below the threshold|{info['noise']}, {phase}",
                                 f"{raised}"[:120]))
            records.append({"phase": phase, "outcome": "refused: dispersion collapsed"})
            break
        post = rec.post[0]
        if expected_collapse(info, S, pre, lat, burn_in) is True:
            problems.append((f"_maximization_step|variance below the threshold accepted|{info['noise']}, {phase}", ""))
        step_problems = check_step(info, pre, post, S, s_cur, burn_in, lat, phase, mclass, acc)
        problems.extend(step_problems)
        moved = any(not np.array_equal(pre[p], post[p]) for p in info["params"])
        r = {"phase": phase, "outcome": ("ok" if not step_problems else "mismatch"), "moved": moved, "warm": warm,
             "digest": tdigest(*[torch.from_numpy(np.ascontiguousarray(post[p])) for p in info["params"]])}
        if sample:
            r["latent_state"] = lab
            r["parameters_before"] = {p: _fmt(pre[p]) for p in info["params"]}
            r["parameters_after"] = {p: _fmt(post[p]) for p in info["params"]}
        records.append(r)
    seen, uniq = set(), []
    for s, m in problems:
        if s not in seen:
            seen.add(s)
            uniq.append((s, m))
    return uniq, records


def make_ctx(name):
    model = build_model(CONFIGS[name])
    info = model_info(name, model)
    rec = Recorder(model)
    rec.info = info
    return {"info": info, "model": model, "rec": rec, "maskable": 2}


# ------------------------------------------------------------------------------------------
# binding: complete real fits, every iteration checked

FITS_QUICK = [("logistic_d2_s1_diag", "2+2", [1], 6), ("logistic_d2_s1_scalar", "2+1+1", [2], 6), ("joint_d2_s1_diag", "2+2", [], 6),
              ("linear_d2_s0_scalar", "2+1", [], 6), ("mixture_d4_s2_diag", "2+1+1", [0, 5], 6)]
FITS_THOROUGH = FITS_QUICK + [("shared_d2_s1_diag", "3+2", [3, 8], 8), ("shared_d2_s0_scalar", "2+2", [], 8), ("logistic_d2_s1_bernoulli", "3+2", [1], 8),
                              ("linear_d2_s1_diag", "2+1+1", [4], 8), ("joint_d1_s0_scalar", "3+2", [], 8), ("logistic_d1_s0_scalar", "2+1+1", [], 8)]


def run_fit(name, layout_name, missing, n_iter, seed, acc=None, annealing=False):
    ctx = make_ctx(name)
    info, model, rec = ctx["info"], ctx["model"], ctx["rec"]
    layout = LAYOUTS[layout_name]
    ent = entries(layout, info["spec"]["dim"], 2)
    df, feats = make_frame(info["spec"], layout, [ent[q] for q in missing])
    ds = make_dataset(info["spec"], df)
    mclass = missing_class(ds)
    n_burn = n_iter // 2
    algo = make_algo(n_iter=n_iter, n_burn=n_burn, power=0.8, seed=seed, annealing=annealing)
    # individual latent values already present in the model state are kept by the fit initialisation ("if not already set"):
    # start from dispersed values so that two or three individuals do not collapse the dispersions in a few iterations
    with model.state.auto_fork(None):
        set_latent(info, model.state, "A" * len(info["groups"]), len(layout))
    rec.clear()
    rec.keep_latent = True
    problems = []
    raised = False
    try:
        with warnings.catch_warnings():
            warnings.simplefilter("ignore")
            algo.run(model, ds)
    except LeaspyConvergenceError as e:
        raised = True
        legit = False
        if rec.S and len(rec.latent) == len(rec.S):
            legit = expected_collapse(info, rec.S[-1], rec.pre[-1], rec.latent[-1], rec.burn[-1]) is not False
        if not legit:
            problems.append((f"fit|raises LeaspyConvergenceError although no variance is below the threshold|{info['noise']}", f"{e}"[:120]))
    except Exception as e:  # noqa: BLE001
        raised = True
        problems.append((f"fit|raises {type(e).__name__}|{info['spec']['kind']}", f"{e}"[:300]))
    n_done = min(len(rec.post), len(rec.latent), len(rec.S), len(rec.s))
    if raised:
        n_done = max(0, n_done - 1)  # the iteration that may have been interrupted is not compared
    records = []
    for it in range(n_done):
        k = it + 1
        phase = PHASES[0] if k <= n_burn else (PHASES[1] if k == n_burn + 1 else PHASES[2])
        if acc is not None:
            acc.evaluation()
        if rec.burn[it] != (k <= n_burn):
            problems.append((f"_maximization_step|burn-in flag passed to the update|{phase}", f"k={k}"))
        lat = rec.latent[it]
        lat["n_obs_frame"] = int(df[feats].notna().sum().sum())
        sp = check_step(info, rec.pre[it], rec.post[it], rec.S[it], rec.s[it], rec.burn[it], lat, phase, mclass, acc)
        problems.extend(sp)
        records.append({"phase": phase, "outcome": "ok" if not sp else "mismatch", "moved": True,
                        "digest": tdigest(*[torch.from_numpy(np.ascontiguousarray(rec.post[it][p])) for p in info["params"]])})
    seen, uniq = set(), []
    for s, m in problems:
        if s not in seen:
            seen.add(s)
            uniq.append((s, m))
    return uniq, records


# ------------------------------------------------------------------------------------------
# contract

def _chunks(n, size):
    return [(lo, min(lo + size, n)) for lo in range(0, n, size)]


def shards(tier, seed):
    out = []
    lay = QUICK_LAYOUTS if tier == "quick" else THOROUGH_LAYOUTS
    n_steps = 3 if tier == "quick" else 4
    for layout_name in lay:
        for name, spec in CONFIGS.items():
            n_pat = len(patterns(LAYOUTS[layout_name], spec["dim"], 2))
            n_lat = 16 if spec["ns"] else 8
            size = max(8, int(2400 / (n_lat * n_steps)))  # ~ 2400 steps (~ 10-20 s) per shard
            for lo, hi in _chunks(n_pat, size):
                out.append({"kind": "grid", "config": name, "layout": layout_name, "lo": lo, "hi": hi, "n_steps": n_steps})
    # mixture: one cluster (almost) empty before every step; complete data and every single missing entry
    for layout_name in lay:
        name = "mixture_d4_s2_diag"
        n_ent = len(entries(LAYOUTS[layout_name], CONFIGS[name]["dim"], 2))
        for w in WARM:
            out.append({"kind": "grid", "config": name, "layout": layout_name, "lo": 0, "hi": 1 + n_ent, "n_steps": n_steps, "warm": w})
    for f in (FITS_QUICK if tier == "quick" else FITS_THOROUGH):
        out.append({"kind": "fit", "config": f[0], "layout": f[1], "missing": f[2], "n_iter": f[3], "seed": seed})
    out.append({"kind": "fit", "config": "logistic_d2_s1_diag", "layout": "2+2", "missing": [1], "n_iter": 8, "seed": seed, "annealing": True})
    return out


def _account(acc, info, records):
    for r in records:
        acc.outcome(f"{r['phase']}{', (almost) empty cluster' if r.get('warm') else ''}: {r['outcome']}")
        if r.get("moved") and r["outcome"] in ("ok", "mismatch"):
            acc.nontriv((info["name"], r["phase"], r["digest"]))


def run_shard(shard):
    acc = Acc()
    if shard["kind"] == "fit":
        problems, records = run_fit(shard["config"], shard["layout"], shard["missing"], shard["n_iter"], shard["seed"], acc,
                                    annealing=shard.get("annealing", False))
        info = {"name": shard["config"]}
        _account(acc, info, records)
        acc.count("real_fit_iterations_checked", len(records))
        case = {k: shard[k] for k in ("kind", "config", "layout", "missing", "n_iter", "seed", "annealing") if k in shard}
        for sig, msg in problems:
            acc.violation(sig, msg, case)
        return acc.to_dict()
    ctx = make_ctx(shard["config"])
    info = ctx["info"]
    pats = patterns(LAYOUTS[shard["layout"]], info["spec"]["dim"], ctx["maskable"])
    for pi in range(shard["lo"], shard["hi"]):
        missing = pats[pi]
        for label in latent_labels(info):
            want_sample = shard["layout"] == "2+1" and len(missing) == 1 and label == "AB" + "A" * (len(info["groups"]) - 2) and pi == 1
            warm = shard.get("warm")
            want_sample = want_sample and warm is None
            problems, records = run_history(ctx, shard["layout"], missing, label, shard["n_steps"], acc, sample=want_sample, warm=warm)
            _account(acc, info, records)
            if label == latent_labels(info)[0]:
                acc.count(f"patterns: {ctx['mclass']}")
            case = {"kind": "grid", "config": shard["config"], "layout": shard["layout"], "missing": missing,
                    "missing_entries(individual,visit,feature)": [entries(LAYOUTS[shard["layout"]], info["spec"]["dim"], 2)[q] for q in missing],
                    "latent": label, "n_steps": shard["n_steps"], "warm": warm}
            if want_sample:
                acc.sample(dict(case, steps=records))
            for sig, msg in problems:
                acc.violation(sig, msg, case)
    return acc.to_dict()


def replay(case):
    if case.get("kind") == "fit":
        problems, _ = run_fit(case["config"], case["layout"], case["missing"], case["n_iter"], case["seed"], annealing=case.get("annealing", False))
    else:
        ctx = make_ctx(case["config"])
        problems, _ = run_history(ctx, case["layout"], case["missing"], case["latent"], case["n_steps"], warm=case.get("warm"))
    return [{"signature": s, "message": m} for s, m in problems]

"""C01 -- values read from the lazily cached variable graph are never stale.

E-HIST: breadth-first search over histories of State operations on (a) a family of toy graphs with exact
integer arithmetic and (b) the graphs of the shipped model kinds holding a 2-individual dataset.
Oracle after every transition: every node read through a throw-away copy equals the value obtained from a
fresh State assigned the reference model's independent values (or both are input errors).
"""

from __future__ import annotations

import itertools

import torch

import leaspy.models  # noqa: F401
from leaspy.variables.dag import VariablesDAG
from leaspy.variables.specs import DataVariable, Hyperparameter, LinkedVariable

from .. import statemc
from ..core import Acc
from ..models import MODEL_SPECS, build_model, cohort_dataset, fresh_state

ID = "C01"
LEVEL = "model_checking"
RULE = (
    "explicit-state BFS over histories of set/put/read/precompute/revert/revert(subset)/clone/fork-mode "
    "operations on the real State; a state is distinct (non-trivial) when its canonical key "
    "(independent values, cache-fill pattern, fork snapshot digest, fork mode) is new; every transition is "
    "executed on the implementation and followed by the full from-scratch oracle"
)
ASSUMPTIONS = [
    "value alphabets are tiny (2 values + unset per settable node); invalidation is structural so values are not expected to matter",
    "partial reverts are only enabled under the documented precondition (values held on both sides carry the individual axis)",
    "hash order fixed (PYTHONHASHSEED=0), single torch thread",
    "toy graphs: all DAG shapes up to the stated node count with <= 3 roots; model graphs: menu restricted as listed in bounds",
]

PRIMES = [2, 3, 5, 7, 11, 13, 17, 19, 23, 29, 31, 37]


def _make_fn(parents, coefs, const, aggregate):
    expr = " + ".join(f"{c} * {p}" for p, c in zip(parents, coefs)) + f" + {const}"
    if aggregate:
        expr = f"({expr}).sum()"
    src = f"def f(*, {', '.join(parents)}):\n    return {expr}\n"
    ns = {}
    exec(src, ns)
    return ns["f"]


def toy_graphs(n):
    """All DAG shapes on n topologically labelled nodes (edges i->j, i<j) without isolated node,
    with 1..3 roots and at least one derived node."""
    pairs = [(i, j) for i in range(n) for j in range(i + 1, n)]
    out = []
    for bits in range(1, 2 ** len(pairs)):
        edges = [p for k, p in enumerate(pairs) if (bits >> k) & 1]
        touched = {x for e in edges for x in e}
        if len(touched) != n:
            continue
        roots = [j for j in range(n) if not any(e[1] == j for e in edges)]
        if not (1 <= len(roots) <= 3):
            continue
        out.append(edges)
    return out


def toy_universe(n, edges, n_ind=2, with_hyper=True):
    names = [f"v{i}" for i in range(n)]
    parents = {j: [i for (i, jj) in edges if jj == j] for j in range(n)}
    roots = [j for j in range(n) if not parents[j]]
    spec = {}
    settable, put_values, put_indices = {}, {}, {}
    axis = {}
    for r_i, r in enumerate(roots):
        spec[names[r]] = DataVariable()
        if r_i % 2 == 0:  # individual axis
            axis[r] = True
            settable[names[r]] = [
                torch.tensor([1.0 + r, 2.0 + r], dtype=torch.float64)[:n_ind].clone()
                if n_ind <= 2
                else torch.arange(1.0 + r, 1.0 + r + n_ind, dtype=torch.float64),
                -3.0 * torch.arange(1.0, 1.0 + n_ind, dtype=torch.float64) + r,
            ]
            put_values[names[r]] = [torch.tensor(10.0, dtype=torch.float64)]
            put_indices[names[r]] = list(range(n_ind))
        else:
            axis[r] = False
            settable[names[r]] = [torch.tensor(4.0 + r, dtype=torch.float64), torch.tensor(-7.0 - r, dtype=torch.float64)]
            put_values[names[r]] = [torch.tensor(10.0, dtype=torch.float64)]
            put_indices[names[r]] = [None]
    derived = [j for j in range(n) if parents[j]]
    if with_hyper:
        spec["h"] = Hyperparameter(torch.tensor(100.0, dtype=torch.float64))
    for d_i, j in enumerate(derived):
        ps = [names[i] for i in parents[j]]
        coefs = [PRIMES[(i + 2 * j) % len(PRIMES)] for i in parents[j]]
        if with_hyper and d_i == 0:
            ps = ps + ["h"]
            coefs = coefs + [1]
        aggregate = j == derived[-1] and len(derived) >= 2
        spec[names[j]] = LinkedVariable(_make_fn(ps, coefs, 1000 * (j + 1), aggregate))
    dag = VariablesDAG.from_dict(spec)
    return statemc.Universe(dag, settable, put_values, n_ind, put_indices=put_indices)


# named 5/6-node shapes called out in the property text
NAMED_SHAPES = {
    "diamond_late_root": (5, [(0, 1), (0, 2), (1, 3), (2, 3), (3, 4)], [(5, 4)]),  # + late root v5 -> v4
    "multi_path": (5, [(0, 1), (0, 2), (0, 3), (1, 2), (2, 3), (1, 4), (3, 4)], []),
    "two_roots_chain": (5, [(0, 2), (1, 2), (2, 3), (3, 4), (1, 4)], []),
}


def weighted_toy_universe(n_ind=2):
    """A graph whose derived values are *weighted* tensors with genuine relative weights (0.5, 2, 1, 0), as a reliability of
    visits would be: w = t * a (weighted, individual axis), q = weighted sum of w over visits, z = q + b (aggregated)."""
    from leaspy.utils.weighted_tensor import WeightedTensor

    def fn(src):
        ns = {}
        exec(src, ns)
        return ns["f"]

    spec = {
        "t": DataVariable(), "a": DataVariable(), "b": DataVariable(),
        "w": LinkedVariable(fn("def f(*, t, a):\n    return t * a\n")),
        "q": LinkedVariable(fn("def f(*, w):\n    return w.wsum(dim=1)[0]\n")),
        "z": LinkedVariable(fn("def f(*, q, b):\n    return (q * b).sum()\n")),
    }
    dag = VariablesDAG.from_dict(spec)
    vals = torch.tensor([[1.0, 2.0], [3.0, 4.0], [5.0, 6.0]], dtype=torch.float64)[:n_ind]
    wts = torch.tensor([[0.5, 2.0], [1.0, 0.0], [4.0, 0.25]], dtype=torch.float64)[:n_ind]
    t0 = WeightedTensor(vals.clone(), wts.clone())
    a0 = torch.arange(2.0, 2.0 + n_ind, dtype=torch.float64).reshape(n_ind, 1)
    settable = {"a": [a0.clone(), -3.0 * a0 + 1.0], "b": [torch.tensor(7.0, dtype=torch.float64), torch.tensor(-2.0, dtype=torch.float64)]}
    base = {"t": t0, "a": a0.clone(), "b": torch.tensor(7.0, dtype=torch.float64)}
    return statemc.Universe(dag, settable, {}, n_ind, base=base)


def model_universe(name, thorough=False):
    spec = MODEL_SPECS[name]
    model = build_model(spec)
    ds = cohort_dataset(["a", "b"], spec)
    st = fresh_state(model, ds)
    dag = st.dag
    base = {k: st._values[k] for k in dag.sorted_variables_names if dag[k].is_settable and st._values[k] is not None}
    settable, put_values, put_indices = {}, {}, {}

    def alt(v, delta):
        return [v.clone(), v.clone() + delta]

    for k in model.individual_variables_names:
        v = base[k]
        d = torch.linspace(0.3, -0.4, v.numel()).reshape(v.shape).to(v.dtype)
        if k == "tau":
            d = d * 10
        settable[k] = alt(v, d)
        put_values[k] = [torch.tensor(0.7 if k != "tau" else 71.5, dtype=v.dtype)]
        put_indices[k] = [[0, 0], [1, 0]]
    pops = list(model.population_variables_names)
    for k in pops if thorough else pops[:2]:
        v = base[k]
        settable[k] = alt(v, torch.linspace(0.2, -0.1, v.numel()).reshape(v.shape).to(v.dtype))
    params = [p for p in ("noise_std", "tau_mean", "xi_std") if p in base]
    for k in params if thorough else params[:1]:
        v = base[k]
        settable[k] = alt(v, 0.25 * torch.ones_like(v))
    # re-assignment of a weighted data variable whose *mask* changes only where the stored number is 0:
    # the two alternatives have the same weighted values and differ by their weights only
    from leaspy.utils.weighted_tensor import WeightedTensor

    y = base.get("y")
    if isinstance(y, WeightedTensor) and y.weight is not None:
        w = y.weight.clone()
        pos = tuple(int(i) for i in torch.nonzero(w.to(torch.bool))[0])
        val = y.value.clone()
        val[pos] = 0.0
        w_off = w.clone()
        w_off[pos] = 0
        settable["y"] = [WeightedTensor(val, w), WeightedTensor(val.clone(), w_off)]
    observed = None if thorough else None
    u = statemc.Universe(dag, settable, put_values, 2, observed=observed, put_indices=put_indices, base=base)
    return u


# ------------------------------------------------------------------------------------------

def bounds(tier):
    if tier == "quick":
        return {"toy_nodes": "all shapes: <=3 nodes to fixpoint, 4 nodes depth 7 (set/read/revert/clone/mode menu) + depth 3 with put/accumulate; named 5/6-node shapes depth 4",
                "model_graphs": "depth 2, reduced menu, all catalogue kinds"}
    return {"toy_nodes": "<=4 fixpoint; all 5-node shapes depth 4; named shapes fixpoint",
            "model_graphs": "depth 3, full menu, all catalogue kinds"}


def shards(tier, seed):
    out = []
    if tier == "quick":
        for n in (2, 3, 4):
            for g_i, edges in enumerate(toy_graphs(n)):
                out.append({"kind": "toy", "n": n, "edges": edges, "depth": None if n <= 3 else 7, "puts": False})
                out.append({"kind": "toy", "n": n, "edges": edges, "depth": 3, "accumulate": True})
        for name in NAMED_SHAPES:
            out.append({"kind": "named", "name": name, "depth": 4, "accumulate": False})
        out.append({"kind": "wtoy", "n_ind": 2, "depth": None})
        for name in MODEL_SPECS:
            out.append({"kind": "model", "name": name, "depth": 2, "thorough": False})
    else:
        for n in (2, 3, 4):
            for edges in toy_graphs(n):
                out.append({"kind": "toy", "n": n, "edges": edges, "depth": None, "accumulate": False})
                out.append({"kind": "toy", "n": n, "edges": edges, "depth": 4, "accumulate": True})
        for edges in toy_graphs(5):
            out.append({"kind": "toy", "n": 5, "edges": edges, "depth": 4, "accumulate": False})
        for name in NAMED_SHAPES:
            out.append({"kind": "named", "name": name, "depth": 6, "accumulate": False})
        out.append({"kind": "wtoy", "n_ind": 2, "depth": None})
        out.append({"kind": "wtoy", "n_ind": 3, "depth": None})
        for name in MODEL_SPECS:
            out.append({"kind": "model", "name": name, "depth": 3, "thorough": True})
    return out


def _universe_for(shard):
    if shard["kind"] == "toy":
        return toy_universe(shard["n"], [tuple(e) for e in shard["edges"]])
    if shard["kind"] == "named":
        n, edges, extra = NAMED_SHAPES[shard["name"]]
        all_edges = list(edges) + list(extra)
        nn = max(max(e) for e in all_edges) + 1
        # relabel so that edges go from lower to higher index is not required by toy_universe (it only uses parents)
        return toy_universe(nn, all_edges)
    if shard["kind"] == "model":
        return model_universe(shard["name"], shard.get("thorough", False))
    if shard["kind"] == "wtoy":
        return weighted_toy_universe(shard["n_ind"])
    raise ValueError(shard)


def _menu_kwargs(shard):
    if shard["kind"] == "model":
        if shard.get("thorough"):
            return dict(accumulate=True, clones=True, ctx=True, tv_reads=("rt", "model"))
        return dict(accumulate=False, clones=True, modes=(None, "REF"), masks=[[1, 0], [0, 1]], ctx=False,
                    reads=["model", "nll_attach_ind", "nll_attach", "nll_regul_ind_sum_ind", "rt", "n_obs", "n_obs_per_ft"], tv_reads=("rt",))
    if shard["kind"] == "wtoy":
        return dict(accumulate=False, puts=False, clones=shard["depth"] is None, ctx=False, aliasing=True, tv_reads=("w",))
    return dict(accumulate=shard.get("accumulate", False), puts=shard.get("puts", True), clones=True,
                ctx=shard.get("depth") is not None, aliasing=True)


def run_shard(shard):
    acc = Acc()
    u = _universe_for(shard)
    label = shard.get("name") or (f"weighted toy, {shard['n_ind']} individuals" if shard["kind"] == "wtoy" else f"toy{shard['n']}:{shard['edges']}")
    for mode in (None, "REF"):
        n_states, depth, fix = statemc.bfs(
            u, acc, max_depth=shard["depth"], menu_kwargs=_menu_kwargs(shard), mode=mode, label=label,
            case_base={"shard": shard},
        )
        acc.count("fixpoints_reached" if fix else "depth_bounded_runs")
    return acc.to_dict()


def replay(case):
    shard = case["shard"]
    u = _universe_for(shard)
    res = statemc.run_history(u, case["history"], case.get("mode"))
    out = []
    for i, op, reason, details in res:
        out.append({"signature": statemc.classify(op, reason), "message": f"step {i} {op}: {reason} {details or ''}"})
    return out

"""C02 -- a rejected proposal leaves no trace in the state.

Driver A (protocol level, E-HIST): phased BFS on the real State of every catalogue model holding a small cohort:
  warm-up reads -> proposal (accumulating put, as the samplers do) -> reads between proposal and decision ->
  decision (accept / revert() / revert(mask) for every mask) -> following history (reads of any variable,
  further proposals and decisions) up to a depth bound.
  Oracle after every transition: reference independent values = where(rejected, before, proposed) and every cached
  value equals the from-scratch evaluation; right after each decision every node is additionally read through a
  throw-away copy (deep oracle).
Driver B (E-ENV): the real samplers' `sample()` under scripted draws forcing every acceptance pattern, followed by
  the same deep oracle (accepted blocks read from the sampler's own acceptance record), then a second sampler on
  another variable (non-initial start).
"""

from __future__ import annotations

import itertools
import os
from collections import deque

import torch

import leaspy.models  # noqa: F401
from leaspy.exceptions import LeaspyInputError

from .. import seams, statemc
from ..core import Acc
from ..models import MODEL_SPECS, build_model, cohort_dataset, fresh_state
from ..oracle import brief, same_value, tdigest
from ..samplers_util import POP_KINDS, latent_variables, make_sampler, pop_blocks

ID = "C02"
LEVEL = "model_checking"
RULE = (
    "phased explicit-state BFS (warm-up reads, proposal, reads allowed by the contract, decision incl. every "
    "per-individual mask, following history) on the real State of each model kind, deduplicated on "
    "(phase, independent values, cache-fill pattern, fork digest); plus every scripted acceptance pattern through the "
    "real samplers; a case is non-trivial when its canonical state key / (sampler, variable, acceptance pattern, "
    "proposal class) is new"
)
ASSUMPTIONS = [
    "proposal alphabet per variable: small, large, opposite signs across individuals, extreme (overflowing), inf, NaN",
    "per-individual rejections only under the documented precondition (only values carrying the individual axis held on both sides)",
    "cohorts of 2 (quick) / 3 (thorough) individuals; following history bounded in depth",
    "PYTHONHASHSEED=0, single torch thread",
]

NAN, INF = float("nan"), float("inf")


def bounds(tier):
    return {
        "quick": {"individuals": 2, "follow_depth": "1 read or 1 further proposal+decision", "models": "all catalogue kinds incl. the mixture model", "sampler_scripts": "u in {0, .5, 1-2^-24} per decision, <=1 extreme z"},
        "thorough": {"individuals": "2 and 3", "follow_depth": "2 (individual variables, two individuals, REF forking); 1 (population variables, COPY forking, three individuals)", "models": "all catalogue kinds incl. the mixture model", "sampler_scripts": "same + 2 deviations"},
    }[tier]


# ------------------------------------------------------------------------------------------
# universe

def _deltas_for(name, value, n_ind):
    """Per-variable proposal alphabet (full-shaped tensors for individual variables)."""
    dt = value.dtype
    s, big = (0.1, 3.0) if name != "tau" else (1.5, 25.0)
    ext = 200.0 if name == "xi" else 3.0e38

    def rows(per_ind):
        t = torch.zeros_like(value)
        for i, x in enumerate(per_ind):
            t[i] = x
        return t.to(dt)

    pats = [
        [s] * n_ind,
        [big] + [-big] * (n_ind - 1),
        [s] * (n_ind - 1) + [ext],
        [ext] + [s] * (n_ind - 1),
        [ext] * n_ind,
        [NAN] + [s] * (n_ind - 1),
        [s] * (n_ind - 1) + [INF],
        # a null change (a proposal equal to the current value is still a proposal: it can be rejected, and what is
        # restored then is ITS snapshot, not an older one) - for everybody, and for the first individual only
        [0.0] * n_ind,
        [0.0] + [s] * (n_ind - 1),
    ]
    return [rows(p) for p in pats]


N_IND_PATTERNS = 9
ZERO_IND = 7  # index of the all-zero pattern above
POP_DELTAS = [0.05, -2.0, 200.0, NAN, 0.0]
ZERO_POP = 4


def universe(model_name, ids, quick=True):
    spec = MODEL_SPECS[model_name]
    model = build_model(spec)
    ds = cohort_dataset(ids, spec)
    st = fresh_state(model, ds)
    dag = st.dag
    n_ind = len(ids)
    base = {k: st._values[k] for k in dag.sorted_variables_names if dag[k].is_settable and st._values[k] is not None}
    pop, ind = latent_variables(st)
    put_values, put_indices = {}, {}
    for v in ind:
        put_values[v] = _deltas_for(v, base[v], n_ind)
        put_indices[v] = [None]
        # last entry: a scalar written at ONE coordinate (replacement or accumulation), as `put(indices=...)` allows
        put_values[v].append(torch.tensor(0.7 if v != "tau" else 71.5, dtype=base[v].dtype))
    for v in pop:
        val = base[v]
        put_values[v] = [torch.tensor(d, dtype=val.dtype) for d in POP_DELTAS]
        coords = list(itertools.product(*[range(s) for s in val.shape]))
        put_indices[v] = [list(coords[0]), list(coords[-1])] if len(coords) > 1 else [list(coords[0])]
    # a whole-variable replacement proposal held in ANOTHER floating dtype than the state's value
    # (the State API accepts it; joint / mixture states hold tau and xi in float64, the others in float32)
    settable = {}
    for v in ind:
        other = torch.float32 if base[v].dtype == torch.float64 else torch.float64
        d = torch.linspace(0.123456789, -0.0987654321, base[v].numel(), dtype=torch.float64).reshape(base[v].shape)
        settable[v] = [(base[v].to(torch.float64) * 1.000001 + d).to(other)]
    u = statemc.Universe(dag, settable, put_values, n_ind, put_indices=put_indices, base=base)
    u.pop_vars, u.ind_vars = pop, ind
    return u


def read_menus(u, v):
    dag = u.dag
    is_ind = v in u.ind_vars
    names = set(dag.sorted_variables_names)
    if is_ind:
        between = ["nll_attach_ind", f"nll_regul_{v}_ind", "nll_regul_ind_sum_ind", "model"]
        # aggregated reads are allowed before a FULL rejection only (the enumerator disables masks after them)
        between_agg = ["nll_attach"]
    else:
        between = ["nll_attach", f"nll_regul_{v}", "nll_attach_ind", "model"]
        between_agg = []
    follow = ["nll_attach", "nll_attach_ind", "nll_regul_ind_sum", "model", f"{v}_sqr", "nll_regul_ind_sum_ind",
              "y_x_model", "rt"]
    flt = lambda l: [x for x in l if x in names]
    return flt(between), flt(between_agg), flt(follow)


def explore_protocol(u, v, acc, *, follow_depth, quick, case_base, fork_mode="REF"):
    """Phased BFS for proposals on variable v."""
    is_ind = v in u.ind_vars
    between, between_agg, follow = read_menus(u, v)
    warm = between[:1] if quick else between[:3]
    if quick:
        between = between[:2]
    others = [w for w in (u.ind_vars + u.pop_vars) if w != v]
    masks = [[(m >> i) & 1 for i in range(u.n_ind)] for m in range(2 ** u.n_ind)]

    st0, ref0 = statemc.initial(u, fork_mode)
    start = ("warm", 0, statemc.state_key(u, st0, ref0))
    seen = {start}
    frontier = deque([(st0, ref0, (), "warm", 0)])
    acc.state()

    def menu(st, ref, phase, d):
        ops = []
        if phase == "warm":
            ops += [(["read", x], "warm", 0) for x in warm if st._values[x] is None]
            n_full = len(u.put_values[v]) - (1 if is_ind else 0)
            for k in range(n_full):
                for idx in u.put_indices[v]:
                    ops.append((["put", v, k, idx, True], "between", 0))
            if is_ind:
                coord = [0] * u.base[v].ndim
                last = [u.n_ind - 1] + [0] * (u.base[v].ndim - 1)
                for idx in (coord, last):
                    ops.append((["put", v, n_full, idx, False], "between", 0))
                ops.append((["put", v, n_full, coord, True], "between", 0))
        elif phase in ("between", "between_nofork"):
            ops += [(["read", x], phase, 0) for x in between + between_agg if st._values[x] is None]
            if phase == "between":
                # the state is moved (to the device it is on) between the proposal and the decision
                ops.append((["to_device"], "between", 0))
                # another latent variable is updated WITHOUT snapshot between the proposal and the decision: the documented
                # lifetime of the snapshot ends there, so a later rejection must say so (input error), never half-restore
                for w in others[:1]:
                    ops.append((["ctxput", None, w, 0, u.put_indices[w][0], True], "between_nofork", 0))
            ops.append((["accept"], "after", 0))
            ops.append((["revert"], "after", 0))
            if is_ind and statemc.partial_revert_enabled(st, u.n_ind):
                ops += [(["revert", m], "after", 0) for m in (masks if phase == "between" else masks[1:2])]
                proper = [m for m in masks if 0 < sum(m) < len(m)]
                if phase == "between" and proper:
                    # the same rejections handed over as 0/1 masks of an integer dtype
                    ops += [(["revert", proper[0], "uint8"], "after", 0), (["revert", proper[-1], "int64"], "after", 0)]
        elif phase == "after" and d < follow_depth:
            ops += [(["read", x], "after", d + 1) for x in follow if st._values[x] is None]
            # next proposal on another variable (small / extreme), then its decision
            for w in others[: (2 if quick else len(others))]:
                for k in (0, 2, ZERO_IND if w in u.ind_vars else ZERO_POP):
                    ops.append((["put", w, k, u.put_indices[w][0], True], "after2:" + w, d + 1))
        elif phase.startswith("after2:") and d <= follow_depth:
            w = phase.split(":")[1]
            ops.append((["accept"], "after", d))
            ops.append((["revert"], "after", d))
            if w in u.ind_vars and statemc.partial_revert_enabled(st, u.n_ind):
                ops += [(["revert", m], "after", d) for m in masks[1:-1]]
        return ops

    while frontier:
        st, ref, hist, phase, d = frontier.popleft()
        for op, nphase, nd in menu(st, ref, phase, d):
            s2, r2 = statemc.copy_state(st), ref.copy()
            h2 = hist + (op,)
            acc.transition()
            acc.evaluation()
            case = dict(case_base, variable=v, history=[list(o) for o in h2])
            try:
                if op[0] != "accept":
                    s2, r2, note = statemc.apply_op(u, s2, r2, op)
                else:
                    note = None
            except statemc.StepError as e:
                acc.violation(classify(u, v, op, str(e), s2, h2), str(e), case)
                acc.outcome("step-violation")
                continue
            except Exception as e:
                acc.violation(classify(u, v, op, f"unexpected {type(e).__name__}", s2, h2), f"{type(e).__name__}: {e}", case)
                acc.outcome("exception")
                continue
            deep = op[0] in ("revert", "accept")
            bad = statemc.check_all(u, s2, r2, deep=deep)
            if bad:
                n, why, got, exp = bad[0]
                acc.violation(classify(u, v, op, why, s2, h2, n), f"after {op}: '{n}' {why}", case, expected=exp, observed=got)
                acc.outcome("trace-left")
                continue
            acc.outcome(f"{phase}:{op[0]}{'(subset)' if op[0] == 'revert' and len(op) > 1 else ''}:{note or 'ok'}")
            k = (nphase, nd, statemc.state_key(u, s2, r2))
            if k not in seen:
                seen.add(k)
                acc.state()
                acc.nontriv(repr((case_base, v, k)))
                frontier.append((s2, r2, h2, nphase, nd))
                if len(seen) % 97 == 1:
                    acc.sample(case)
    return len(seen)


def _proposal_class(u, v, hist):
    """'finite' / 'extreme' / 'non-finite' class of the last proposal on v in the history (for signatures)."""
    cls = "finite"
    for op in hist:
        if op[0] == "set":
            cls = "finite proposal in another dtype"
        if op[0] == "put":
            val = u.put_values[op[1]][op[2]]
            if not bool(torch.isfinite(val).all()):
                cls = "non-finite proposal"
            elif float(val.abs().max()) >= 100:
                cls = "extreme proposal"
            elif float(val.abs().max()) == 0:
                cls = "null proposal"
            else:
                cls = "finite proposal"
    return cls


def classify(u, v, op, why, st=None, hist=(), node=None):
    import re

    kind = op[0]
    if kind == "revert" and len(op) > 1:
        kind = "revert(subset)"
    why = re.sub(r"'[^']*'", "<var>", why.split(":")[0])
    return f"State.{kind}|{why}|{'individual' if v in u.ind_vars else 'population'} variable, {_proposal_class(u, v, hist)}"


# ------------------------------------------------------------------------------------------
# Driver A': proposals held in another floating dtype than the state's value

def explore_dtype(u, acc, case_base):
    """A replacement proposal in another dtype (float32 on a float64-held variable or the converse), reads allowed
    by the contract, then every per-individual mask and the full revert.  The from-scratch oracle does not apply
    (rows computed before and after the proposal legitimately carry different precisions); the oracle is the
    property's own wording: rejected rows are exactly what they were before the proposal, accepted rows exactly
    what was read after it (compared in float64, into which both dtypes embed exactly)."""
    from leaspy.utils.weighted_tensor import WeightedTensor

    def f64(x):
        if x is None:
            return None
        x = x.weighted_value if isinstance(x, WeightedTensor) else x
        return x.to(torch.float64)

    masks = [[(m >> i) & 1 for i in range(u.n_ind)] for m in range(2 ** u.n_ind)]
    for v in u.ind_vars:
        reads = [x for x in ("nll_attach_ind", f"nll_regul_{v}_ind", "model", "rt") if x in u.dag.variables]
        for warm, between in ((False, False), (False, True), (True, False), (True, True)):
            if True:
                st, ref = statemc.initial(u, "REF")
                if warm:
                    for x in reads:
                        st[x]
                before = {k: f64(val) for k, val in st._values.items()}
                st[v] = u.settable[v][0].clone()
                try:
                    probe = statemc.copy_state(st)
                    for x in reads:
                        probe[x]
                except Exception as e:
                    # the definitions themselves refuse this dtype (e.g. float64 sources @ float32 mixing matrix)
                    acc.outcome(f"dtype:{v}:definition refuses the dtype ({type(e).__name__})")
                    break
                if between:
                    for x in reads:
                        st[x]
                proposed = {k: f64(val) for k, val in st._values.items()}
                for mask in masks + [None]:
                    s2 = statemc.copy_state(st)
                    acc.evaluation()
                    acc.transition()
                    case = dict(case_base, driver="dtype", variable=v, warm=warm, between=between, mask=mask)
                    try:
                        s2.revert() if mask is None else s2.revert(torch.tensor(mask, dtype=torch.bool))
                    except Exception as e:
                        acc.violation(f"State.revert{'(subset)' if mask is not None else ''}|unexpected {type(e).__name__}|individual variable, proposal in another dtype", str(e), case)
                        continue
                    m = torch.ones(u.n_ind, dtype=torch.bool) if mask is None else torch.tensor(mask, dtype=torch.bool)
                    acc.nontriv(repr((case_base, v, warm, between, mask)))
                    acc.outcome(f"dtype:{'full' if mask is None else sum(mask)}")
                    for k in (v,) + tuple(u.dag.sorted_children[v]):
                        got = f64(s2._values[k])
                        if got is None:
                            continue
                        b, pr = before[k], proposed[k]
                        if mask is None:
                            exp = b
                        elif b is None or pr is None:
                            exp = None
                        else:
                            exp = torch.where(m.reshape(m.shape + (1,) * (b.ndim - 1)), b, pr)
                        if exp is None or got.shape != exp.shape or not same_value(got, exp):
                            acc.violation(
                                f"State.revert{'(subset)' if mask is not None else ''}|rejected rows differ from their value before the proposal (or accepted rows from the proposed one)|individual variable, proposal in another dtype",
                                f"'{k}' after revert({mask}) of a {st._values[v].dtype} proposal on a {u.base[v].dtype} variable", case,
                                expected=brief(exp), observed=brief(got))
                            break


# ------------------------------------------------------------------------------------------
# Driver B: through the real samplers

U_ALPHABET = [0.0, 0.5, 1.0 - 2.0 ** -24]


def sampler_scripts(n_decisions, n_z_calls, thorough):
    """All scripts: every assignment of u in U_ALPHABET to the decisions (<= 3 decisions) or <=1/2 deviations from
    the default for longer ones, combined with at most one extreme / non-finite normal draw."""
    # +-6 is about the largest magnitude a float32 normal generator returns; non-finite and overflowing
    # proposals are not possible answers of the generator and are covered at protocol level (driver A)
    z_devs = [None] + [(c, x) for c in range(min(n_z_calls, 3)) for x in (6.0, -6.0)]
    if n_decisions <= 3:
        u_assign = list(itertools.product(range(len(U_ALPHABET)), repeat=n_decisions))
    else:
        u_assign = [tuple([1] * n_decisions)]
        for i in range(n_decisions):
            for a in (0, 2):
                t = [1] * n_decisions
                t[i] = a
                u_assign.append(tuple(t))
        if thorough:
            for i, j in itertools.combinations(range(n_decisions), 2):
                for a, b in itertools.product((0, 2), repeat=2):
                    t = [1] * n_decisions
                    t[i], t[j] = a, b
                    u_assign.append(tuple(t))
    for ua in u_assign:
        for zd in z_devs:
            yield ua, zd


def run_sampler_case(u, kind, v, ua, zd, second=None, shuffle="identity", std_scale=1.0):
    """One scripted `sample()` on variable v (then optionally one on `second`). Returns list of problems."""
    st, ref = statemc.initial(u, "REF")
    is_ind = v in u.ind_vars
    problems = []
    for step, (vv, knd) in enumerate([(v, kind)] + ([second] if second else [])):
        vis_ind = vv in u.ind_vars
        sampler = make_sampler(knd, st, vv, u.n_ind if vis_ind else None)
        if step == 0 and std_scale != 1.0:
            # a huge proposal scale (user-provided `scale`): the proposal's evaluation overflows / is non-finite
            sampler.std = sampler.std * std_scale
        std_before = sampler.std.clone()
        dev = {}
        if vis_ind:
            for i, a in enumerate(ua[: u.n_ind]):
                dev[f"u:0:{i}"] = U_ALPHABET[a]
        else:
            for c, a in enumerate(ua):
                dev[f"u:{c}"] = U_ALPHABET[a]
        if zd is not None and step == 0:
            c, x = zd
            dev[f"z:{c}:0" if vis_ind else f"z:{c}"] = x
        env = seams.Scripted({"z": 0.7, "u": 0.5, "dev": dev, "shuffle": shuffle})
        before = ref.indep[vv].clone()
        with seams.seam(env):
            try:
                sampler.sample(st, temperature_inv=1.0)
            except Exception as e:
                if std_scale != 1.0 and type(e).__name__ in ("ValueError", "LeaspyModelInputError", "LeaspyInputError"):
                    # the observation / basis definitions themselves refuse non-finite inputs (torch validates the
                    # Bernoulli probabilities, the orthonormal basis refuses infinite velocities): a refusal by a
                    # definition is not a trace left by a rejection
                    return [], ("definition refuses the proposal",)
                return [(f"{knd} sample('{vv}') step {step}", f"raised {type(e).__name__}", str(e)[:300], None)], None
        accepted = sampler.acceptation_history[-1]
        # reconstruct the reference value from the environment log and the acceptance record
        cur = before.clone()
        if vis_ind:
            z = torch.tensor(env.calls("z")[0][3], dtype=torch.float32).reshape((u.n_ind, *sampler.shape))
            delta = std_before[(slice(None),) + (None,) * sampler.ndim] * z
            prop = cur + delta
            mask = accepted.to(torch.bool).reshape((u.n_ind,) + (1,) * (cur.ndim - 1))
            cur = torch.where(mask, prop, cur)
            pattern = tuple(int(x) for x in accepted.tolist())
        else:
            blocks = pop_blocks(sampler)
            s_calls = env.calls("s")
            order = [blocks[i] for i in s_calls[0][3]] if s_calls else blocks
            zc = env.calls("z")
            for j, idx in enumerate(order):
                zt = torch.tensor(zc[j][3], dtype=torch.float32).reshape(zc[j][2])
                delta = std_before[idx] * zt
                if bool(accepted[idx].all() if accepted[idx].ndim else accepted[idx]):
                    if idx == ():
                        cur = cur + delta
                    else:
                        cur = cur.index_put(tuple(map(torch.tensor, idx)), delta, accumulate=True)
            pattern = tuple(int(x) for x in accepted.reshape(-1).tolist())
        ref.indep[vv] = cur
        ref.fork = None  # whatever the sampler left as fork is not observable through reads
        bad = statemc.check_all(u, st, ref, deep=True)
        for n, why, got, exp in bad[:1]:
            problems.append((f"after {knd} sample('{vv}') step {step}", f"'{n}' {why}", got, exp))
        if problems:
            return problems, pattern
    return problems, pattern


def explore_samplers(u, acc, thorough, case_base, model_name):
    for v in u.ind_vars + u.pop_vars:
        is_ind = v in u.ind_vars
        kinds = ["gibbs"] if is_ind else list(POP_KINDS)
        for kind in kinds:
            st, _ = statemc.initial(u, "REF")
            sampler = make_sampler(kind, st, v, u.n_ind if is_ind else None)
            n_dec = u.n_ind if is_ind else len(pop_blocks(sampler))
            n_z = 1 if is_ind else n_dec
            seconds = [None]
            other = [w for w in u.ind_vars if w != v][:1]
            if other:
                seconds.append((other[0], "gibbs"))
            for ua, zd in sampler_scripts(n_dec, n_z, thorough):
                for second in seconds if zd is None or thorough else seconds[:1]:
                    for shuffle in (["identity", "reverse"] if (not is_ind and n_dec > 1 and zd is None and second is None) else ["identity"]):
                        case = dict(case_base, driver="sampler", kind=kind, variable=v, u=list(ua), z=list(zd) if zd else None,
                                    second=list(second) if second else None, shuffle=shuffle)
                        acc.evaluation()
                        acc.transition(2 if second else 1)
                        problems, pattern = run_sampler_case(u, kind, v, ua, zd, second, shuffle)
                        if zd is None and second is None and shuffle == "identity" and set(ua) <= {1}:
                            # same script with an overflowing proposal scale
                            acc.evaluation()
                            acc.transition()
                            p2, pat2 = run_sampler_case(u, kind, v, ua, None, None, "identity", std_scale=1e32)
                            acc.nontriv(repr((model_name, kind, v, pat2, "huge scale")))
                            acc.outcome(f"sampler-huge-scale:{kind}:{pat2}")
                            for where, why, got, exp in p2:
                                import re

                                acc.violation(
                                    f"{'IndividualGibbsSampler' if is_ind else 'Population' + kind}.sample|{re.sub(chr(39) + '[^' + chr(39) + ']*' + chr(39), '<var>', why)}|overflowing proposal scale",
                                    f"{where}: {why}", dict(case, std_scale=1e32), expected=exp, observed=got)
                        zcls = "default z" if zd is None else "extreme z"
                        acc.nontriv(repr((model_name, kind, v, pattern, zcls, second, shuffle)))
                        acc.outcome(f"sampler:{kind}:{pattern}")
                        for where, why, got, exp in problems:
                            import re

                            w2 = re.sub(r"'[^']*'", "<var>", why)
                            acc.violation(
                                f"{'IndividualGibbsSampler' if is_ind else 'Population' + kind}.sample|{w2}|{zcls}",
                                f"{where}: {why}", case, expected=exp, observed=got)
    return


# ------------------------------------------------------------------------------------------

QUICK_MODELS = ("logistic_d2_s1_diag", "linear_d2_s1_diag", "shared_d2_s1_diag", "joint_d2_s1_diag")


def _latents_of(name):
    m = build_model(MODEL_SPECS[name])
    return latent_variables(m.state)


def shards(tier, seed):
    out = []
    names = list(MODEL_SPECS)
    for name in names:
        pop, ind = _latents_of(name)
        for v in ind + pop:
            if tier == "quick" and name not in QUICK_MODELS and v in pop:
                continue  # quick: population variables on the representative kinds only
            out.append({"model": name, "ids": ["a", "b"], "driver": "protocol", "tier": tier, "variable": v})
            # the documented other fork strategy (snapshot by deep copy): same protocol, same oracle
            if tier == "thorough" or (name == QUICK_MODELS[0] and (v in ind or v == pop[0])):
                out.append({"model": name, "ids": ["a", "b"], "driver": "protocol", "tier": tier, "variable": v, "fork_mode": "COPY"})
        out.append({"model": name, "ids": ["a", "b"], "driver": "sampler", "tier": tier})
        out.append({"model": name, "ids": ["a", "b"] if tier == "quick" else ["a", "b", "c"], "driver": "dtype", "tier": tier})
    if tier == "thorough":
        for name in names:
            pop, ind = _latents_of(name)
            for v in ind:
                out.append({"model": name, "ids": ["a", "b", "c"], "driver": "protocol", "tier": tier, "variable": v})
            out.append({"model": name, "ids": ["b", "d", "e"], "driver": "sampler", "tier": tier})
    return out


def run_shard(shard):
    acc = Acc()
    thorough = shard["tier"] == "thorough"
    u = universe(shard["model"], shard["ids"], quick=not thorough)
    base = {"model": shard["model"], "ids": shard["ids"]}
    if shard["driver"] == "protocol":
        fm = shard.get("fork_mode", "REF")
        # following history: quick 1; thorough 2 on the two-individual REF shards (one such shard is ~3e5 transitions, 7 CPU-minutes;
        # depth 3 did not finish in 40 CPU-minutes per shard once null proposals, COPY forking and integer masks had joined the
        # alphabet), 1 on the COPY and three-individual shards (which quick only runs on the first model / not at all)
        # (population-variable shards stay at depth 1 too: with depth 2 on all 107 two-individual REF shards the command was
        # still running after 60 minutes on 12 workers; the individual-variable shards are the measured ones)
        deep = thorough and fm == "REF" and len(shard["ids"]) == 2 and shard["variable"] in u.ind_vars
        explore_protocol(u, shard["variable"], acc, follow_depth=int(os.environ.get("LMC_C02_DEPTH", "2")) if deep else 1, quick=not thorough,
                         case_base=dict(base, driver="protocol", **({"fork_mode": fm} if fm != "REF" else {})), fork_mode=fm)
    elif shard["driver"] == "dtype":
        explore_dtype(u, acc, base)
    else:
        explore_samplers(u, acc, thorough, base, shard["model"])
    return acc.to_dict()


def replay(case):
    u = universe(case["model"], case["ids"], quick=False)
    out = []
    if case.get("driver") == "sampler":
        problems, pattern = run_sampler_case(u, case["kind"], case["variable"], tuple(case["u"]),
                                             tuple(case["z"]) if case["z"] else None,
                                             tuple(case["second"]) if case["second"] else None, case["shuffle"],
                                             std_scale=case.get("std_scale", 1.0))
        for where, why, got, exp in problems:
            out.append({"signature": f"sampler|{why}", "message": f"{where}: {why} got={got} expected={exp}"})
        return out
    if case.get("driver") == "dtype":
        acc = Acc()
        explore_dtype(u, acc, {"model": case["model"], "ids": case["ids"]})
        return [{"signature": v["signature"], "message": v["message"]} for v in acc.violations.values()]
    hist = [op for op in case["history"]]
    st, ref = statemc.initial(u, case.get("fork_mode", "REF"))
    for i, op in enumerate(hist):
        try:
            if op[0] != "accept":
                st, ref, _ = statemc.apply_op(u, st, ref, op)
        except statemc.StepError as e:
            return [{"signature": classify(u, case["variable"], op, str(e), st, hist[: i + 1]), "message": str(e)}]
        bad = statemc.check_all(u, st, ref, deep=op[0] in ("revert", "accept"))
        if bad:
            n, why, got, exp = bad[0]
            return [{"signature": classify(u, case["variable"], op, why, st, hist[: i + 1], n),
                     "message": f"step {i} {op}: '{n}' {why}; got {got}, expected {exp}"}]
    return out

"""C10 -- re-centring is a pure gauge change; space shifts are orthogonal to progression.

E-GRID, four parts (every case is a plain JSON-able dict holding every number that enters the call, and
``replay`` is ``run_case`` on the stored dict -- the function the explorer itself calls):

``gauge``    a State of a real model holding a tiny cohort is assigned population values, individual
             log-accelerations / time shifts / sources from small alphabets; ``model``, the attachment terms and the
             event likelihood are read, the REAL ``compute_sufficient_statistics`` (the step run at every fit
             iteration) is called, everything is read again.  Oracle: same trajectories / attachment / event terms
             (tolerance derived from ``exp(a+m)*exp(b-m)`` in float32, evaluated in float64 numpy from the state
             values), log-accelerations zero-mean and only commonly shifted, no other independent variable touched.
             Covered kinds = the kinds whose class really has the re-centring step (logistic, linear, joint,
             mixture_logistic: read from the code and asserted by ``self_check``); the shared-speed model has no such
             step and is run as a control (observables must not change either).
``ortho``    population values (velocities, positions, mixing coefficients) from 3-value alphabets are assigned to the
             State of every kind having sources; every row of ``mixing_matrix`` and every ``space_shifts`` row (all
             source vectors of {-2,0,1.5}^ns) must be orthogonal to G.d, where the metric G and the direction of
             progression d are re-derived here in float64 from the model equations (not read from the implementation).
``basis``    ``leaspy.utils.linalg.compute_orthonormal_basis`` itself on 0D/1D/2D metrics, every ``strip_col``.
``tangent``  the statement "spatial variability can never mimic a time shift" taken literally on the real ``model``
             function: autograd tangents d model/d sources_j and d model/d tau at grid points, inner product in the
             manifold metric at the point itself.
"""

from __future__ import annotations

import copy
import itertools
import json
import math

import numpy as np
import torch

import leaspy.models  # noqa: F401  (before leaspy.variables.*)
from leaspy.models import BaseModel
from leaspy.utils.linalg import compute_orthonormal_basis
from leaspy.utils.weighted_tensor import WeightedTensor
from leaspy.variables.specs import LinkedVariable

from ..core import Acc, digest
from leaspy.io.data import Data, Dataset
from ..models import cohort_dataset, fresh_state, model_dict
from ..oracle import tdigest

ID = "C10"
LEVEL = "exploration"
RULE = (
    "full products of the stated alphabets; one evaluation = one execution of the implementation on one case "
    "(gauge: one real compute_sufficient_statistics call on a freshly cloned State; ortho: one assignment of "
    "population values + read of mixing_matrix/space_shifts; basis: one compute_orthonormal_basis call; tangent: one "
    "autograd evaluation of the real model function). A case is distinct when its JSON description is new. It is "
    "non-trivial when: gauge -> the kind has the re-centring step and the mean log-acceleration is non-zero (something "
    "has to be compensated); ortho -> at least one mixing row / space shift is non-zero; basis -> dimension >= 2; "
    "tangent -> a source tangent is non-zero. Outcomes = (part, kind, what happened: shift sign / no-op / "
    "non-zero rows / zero rows ...)"
)
ASSUMPTIONS = [
    "real-valued inputs are covered on small grids only (alphabets in bounds); dimension <= 3 (quick) / <= 4 (thorough)",
    "kinds with the re-centring step are those whose class defines _center_xi_realizations (logistic, linear, joint, "
    "mixture_logistic); self_check fails (harness error) if that list drifts; shared_speed_logistic is a control",
    "gauge: Gaussian observation models (diagonal / scalar) and the Weibull event model; Bernoulli/ordinal attachment "
    "not covered; the State is the fit State layout (xi, tau of shape (n,1), float32 as left by the samplers or float64 "
    "as left by put_individual_latent_variables(df=...)), automatic forking off as in the maximisation step",
    "gauge tolerances: d(model) <= 32*eps32*(2+|xi|+|log_v0|+2|m|)*|metric*v0*alpha*(t-tau)|*slope + 12*eps32*(1+|model|); "
    "attachment and event tolerances are these propagated through the Gaussian / Weibull formulas in float64; a dropped "
    "or mis-signed compensation is >= 3 orders of magnitude larger on every non-trivial case",
    "ortho/basis tolerance: |<row, G d>| <= 1e-5 * (sum_i |beta_ij| |q_i|) * |G d| (float32 Householder, dimension <= 4)",
    "basis: a direction whose stripped component (G v)[strip_col] is 0 (or cancels to rounding level inside G @ v) is outside the domain (velocities and "
    "metrics of the models are strictly positive); 2D metrics are symmetric positive definite",
    "the closed form of the trajectories themselves is C09's subject, the likelihood formulas are C08's",
    "hash order fixed (PYTHONHASHSEED=0), single torch thread",
]

EPS32 = float(np.finfo(np.float32).eps)
EPS64 = float(np.finfo(np.float64).eps)
ORTHO_TOL = 1e-5
TANGENT_TOL = 2e-5
PENALTY = 1e300

RECENTRING_KINDS = ("logistic", "linear", "joint", "mixture_logistic")
CONTROL_KINDS = ("shared_speed_logistic",)
SOURCE_KINDS = ("logistic", "linear", "joint", "shared_speed_logistic", "mixture_logistic")
LOGISTIC_LIKE = ("logistic", "joint", "mixture_logistic")


# ------------------------------------------------------------------------------------------ models / states

def _spec_key(spec):
    return json.dumps(spec, sort_keys=True)


EVENT_CODES_2 = {"b": 2, "a": 0, "c": 1}  # competing events: b (always first) has event 2 (the reader wants the highest code present), a is censored, c has event 1


def _model_dict(spec):
    d = copy.deepcopy(model_dict({k: v for k, v in spec.items() if k not in ("ne", "unobserved")}))
    ne = int(spec.get("ne", 1))
    if spec["kind"] == "joint" and ne != 1:
        # competing events (hyperparameter nb_events): one Weibull shape / scale (and one row of zeta) per event
        d["nb_events"] = ne
        p = d["parameters"]
        p["log_rho_mean"] = [round(p["log_rho_mean"][0] - 0.3 * e, 6) for e in range(ne)]
        p["n_log_nu_mean"] = [round(p["n_log_nu_mean"][0] - 0.2 * e, 6) for e in range(ne)]
        if spec.get("ns"):
            p["zeta_mean"] = [[round(0.05 * (j + 1) * (-1) ** (j + e), 6) for e in range(ne)] for j in range(spec["ns"])]
    if spec["kind"] == "mixture_logistic":
        ns = int(spec.get("ns", 0))
        p = d["parameters"]
        if ns == 0:
            p.pop("sources_mean", None)
        else:
            table = [[-0.5, 0.4], [0.3, 0.8], [0.1, -0.2]]
            p["sources_mean"] = table[:ns]
    return d


_MODELS = {}


def build(spec):
    k = _spec_key(spec)
    if k not in _MODELS:
        _MODELS[k] = BaseModel.load(_model_dict(spec))
    return _MODELS[k]


_BASES = {}


def base_state(spec, ids):
    k = (_spec_key(spec), tuple(ids))
    if k not in _BASES:
        m = build(spec)
        ne = int(spec.get("ne", 1))
        if spec["kind"] == "joint" and ne != 1:
            from lmc.models import EVENTS, cohort_frame as _cf
            df = _cf(list(ids), spec.get("dim", 2), joint=True)
            df["EVENT_BOOL"] = [EVENT_CODES_2[i] for i in df["ID"]]
            # the reader wants to see every event code of the declared number of events: with fewer than 3 members the
            # number of events is given explicitly (as scipy_minimize does for its single-individual datasets)
            ds = Dataset(Data.from_dataframe(df, "joint", factory_kws={"nb_events": ne}))
        elif spec.get("unobserved"):
            # the second member keeps its visits but has no observed value at all (the library itself builds such datasets,
            # drop_full_nan=False): its trajectory is still a trajectory, and its xi counts in the mean like everybody's
            from lmc.models import cohort_frame as _cf
            df = _cf(list(ids), spec.get("dim", 2), joint=spec["kind"] == "joint")
            feats = [c for c in df.columns if c.startswith("Y")]
            df.loc[df["ID"] == list(ids)[min(1, len(ids) - 1)], feats] = float("nan")
            ds = Dataset(Data.from_dataframe(df, "joint", drop_full_nan=False) if spec["kind"] == "joint"
                         else Data.from_dataframe(df, drop_full_nan=False))
        else:
            ds = cohort_dataset(list(ids), spec)
        _BASES[k] = fresh_state(m, ds, latent=None)
    return _BASES[k]


def N(t):
    """float64 numpy view of a (weighted) tensor value."""
    if isinstance(t, WeightedTensor):
        t = t.value
    return t.detach().to(torch.float64).numpy().copy()


def T32(v):
    return torch.tensor(v, dtype=torch.float32)


def has_recentring(model):
    return hasattr(type(model), "_center_xi_realizations")


def self_check():
    """The list of kinds 'with the re-centring step' is read from the code: fail loudly when it drifts."""
    for kind in RECENTRING_KINDS + CONTROL_KINDS:
        spec = {"kind": kind, "dim": 2, "ns": 1, "noise": "gaussian-diagonal", "variant": 0}
        m = build(spec)
        if has_recentring(m) != (kind in RECENTRING_KINDS):
            raise RuntimeError(f"C10: kind {kind}: re-centring step present={has_recentring(m)}, harness list is stale")


# ------------------------------------------------------------------------------------------ alphabets (gauge)

IDS = ["b", "a", "c"]  # "b" first: a joint cohort needs at least one observed event
XI_ALPHABET = [0.0, -1.0, 0.4, 2.0]
XI_EXTREME = [[6.0, -5.5, 0.3], [5.5, 5.9, 6.3]]
TAUS = [[60.0, 66.0, 72.5], [70.0, 70.0, 70.0]]
# sources: alternative 0 has an exactly zero overall mean for every (n, ns) block, alternative 1 has not
SRC3 = [[-1.5, 1.0, 0.5], [0.0, 0.5, -0.5], [1.5, -1.5, 0.0]]
SRC2 = [[-1.5, 1.0, 0.5], [1.5, -1.0, -0.5]]
SRC1 = [[0.0, 0.0, 0.0]]
SRC_ALT = [[-2.0, 0.0, 1.5], [0.0, 1.5, -2.0], [1.5, 1.5, 0.0]]
D_LOG_V0 = [0.4, -0.3, 0.2, -0.5]
D_LOG_G = [-0.4, 0.3, 0.5, -0.2]
D_G_LIN = [0.1, -0.05, 0.2, 0.1]
D_N_LOG_NU = 0.5


def sources_alt(n, ns, which):
    if which == 0:
        tab = {1: SRC1, 2: SRC2, 3: SRC3}[n]
    else:
        tab = SRC_ALT[:n]
    return [row[:ns] for row in tab]


def pop_axes(spec):
    """name -> [base value, alternative value] for the population variables entering the trajectories."""
    d = _model_dict(spec)["parameters"]
    kind, dim, ns = spec["kind"], spec["dim"], spec["ns"]
    r = lambda xs: [round(float(x), 6) for x in xs]
    ax = {}
    if kind == "shared_speed_logistic":
        ax["log_g"] = [r(d["log_g_mean"]), r([d["log_g_mean"][0] + D_LOG_G[0]])]
        if dim > 1:
            ax["deltas"] = [r(d["deltas_mean"]), r([x + y for x, y in zip(d["deltas_mean"], D_LOG_V0)])]
    else:
        ax["log_v0"] = [r(d["log_v0_mean"]), r([x + y for x, y in zip(d["log_v0_mean"], D_LOG_V0)])]
        if kind == "linear":
            ax["g"] = [r(d["g_mean"]), r([x + y for x, y in zip(d["g_mean"], D_G_LIN)])]
        else:
            ax["log_g"] = [r(d["log_g_mean"]), r([x + y for x, y in zip(d["log_g_mean"], D_LOG_G)])]
    if ns:
        b = d["betas_mean"]
        ax["betas"] = [[r(row) for row in b], [r([-1.5 * x + 0.05 for x in row]) for row in b]]
    if kind == "joint":
        ax["n_log_nu"] = [r(d["n_log_nu_mean"]), r([x + D_N_LOG_NU for x in d["n_log_nu_mean"]])]
    return ax


def gauge_specs(tier):
    dims = (1, 2, 3) if tier == "quick" else (1, 2, 3, 4)
    variants = (0,) if tier == "quick" else (0, 1, 2)
    out = []
    for kind in RECENTRING_KINDS + CONTROL_KINDS:
        for dim in dims:
            for ns in range(0, dim):
                if kind == "mixture_logistic" and (dim < 2 or ns < 1 or ns > 3):
                    continue  # the mixture model cannot be initialised without sources (unsupported configuration)
                for noise in ("gaussian-diagonal", "gaussian-scalar"):
                    if kind == "joint" and ns == 0 and noise != "gaussian-scalar":
                        continue  # JointModel without sources only accepts the scalar noise model
                    if kind == "mixture_logistic" and noise != "gaussian-diagonal":
                        continue  # the mixture model is written for the diagonal noise model
                    if dim == 1 and noise != "gaussian-scalar":
                        continue
                    if dim == 4 and noise != "gaussian-diagonal":
                        continue
                    for v in variants:
                        out.append({"kind": kind, "dim": dim, "ns": ns, "noise": noise, "variant": v})
                        if v == 0 and dim == 2 and kind in ("logistic", "linear", "joint") and noise == "gaussian-diagonal":
                            out.append({"kind": kind, "dim": dim, "ns": ns, "noise": noise, "variant": v, "unobserved": True})
                        if kind == "joint" and v == 0 and dim <= 2:
                            # competing events: the compensation must reach the scale of EVERY event
                            out.append({"kind": kind, "dim": dim, "ns": ns, "noise": noise, "variant": v, "ne": 2})
    return out


def gauge_cases(spec, tier):
    ax = pop_axes(spec)
    names = list(ax)
    ns = spec["ns"]
    f64_kinds = ("joint", "mixture_logistic")  # kinds whose fit puts xi/tau through a float64 data frame
    for n in (1, 2, 3):
        for combo in itertools.product((0, 1), repeat=len(names)):
            base = not any(combo)
            full = n == 3 or tier == "thorough"
            if not full and not base:
                continue
            pop = {k: ax[k][c] for k, c in zip(names, combo)}
            for tau_i in (0, 1):
                if tau_i == 1 and not (base or tier == "thorough"):
                    continue
                for src_i in (0, 1) if ns else (0,):
                    for dtype in ("f32", "f64"):
                        if dtype == "f64" and not (spec["kind"] in f64_kinds and (base or tier == "thorough")):
                            continue
                        xis = list(itertools.product(XI_ALPHABET, repeat=n))
                        if base and tau_i == 0 and dtype == "f32":
                            # very fast / very slow progressors (|xi| > 5): velocities held in another time unit, compensated by xi
                            xis += [tuple(XI_EXTREME[0][:n]), tuple(XI_EXTREME[1][:n])]
                        for xi in xis:
                            yield {
                                "part": "gauge", "spec": spec, "ids": IDS[:n], "pop": pop, "xi": list(xi),
                                "tau": TAUS[tau_i][:n], "sources": sources_alt(n, ns, src_i) if ns else None,
                                "dtype": dtype,
                            }


# ------------------------------------------------------------------------------------------ gauge: one case

OBS_COMMON = ("model", "nll_attach_ind", "nll_attach")
OBS_JOINT = ("nll_attach_y_ind", "nll_attach_event_ind", "nll_attach_y", "nll_attach_event", "predictions_event")


def _feature(case, src_mean_nonzero=False):
    spec = case["spec"]
    f = spec["kind"] + (", sources" if spec["ns"] else ", no sources") + (", competing events" if int(spec.get("ne", 1)) > 1 else "") \
        + (", a member without any observed value" if spec.get("unobserved") else "")
    if spec["kind"] == "mixture_logistic" and src_mean_nonzero:
        f += " with non-zero overall mean"
    return f


def _independent_names(st):
    return [k for k in st.dag.sorted_variables_names if not isinstance(st.dag[k], LinkedVariable)]


def _gauge_tolerances(kind, v):
    """Float64 bounds on the legitimate float32 rounding differences, from the values held BEFORE the step."""
    xi = v["xi"].reshape(-1)
    n = xi.shape[0]
    m = abs(float(xi.mean()))
    out = {}
    if kind == "shared_speed_logistic":
        # no compensation arithmetic at all: only reduction noise
        out["model"] = 8 * EPS32 * (1 + np.abs(v["model"]))
        rel = np.zeros((n, 1, 1))
    else:
        log_v0 = v["log_v0"]
        g = v["g"]
        metric = np.ones_like(g) if kind == "linear" else (g + 1) ** 2 / g
        slope = 1.0 if kind == "linear" else 0.25
        dt = (v["t"] - v["tau"].reshape(n, 1))[:, :, None]
        P = metric[None, None, :] * np.exp(log_v0)[None, None, :] * np.exp(xi)[:, None, None] * dt
        rel = 32 * EPS32 * (2 + np.abs(xi)[:, None, None] + np.abs(log_v0)[None, None, :] + 2 * m)
        out["model"] = rel * np.abs(P) * slope + 12 * EPS32 * (1 + np.abs(v["model"]))
    # Gaussian attachment: sum_k 0.5 r^2/s^2 + log s + 0.5 log 2 pi  over observed entries
    w = v["y_w"]
    sig = np.broadcast_to(v["noise_std"].reshape(1, 1, -1), v["model"].shape)
    r = np.where(w, v["y"] - v["model"], 0.0)
    terms = np.where(w, 0.5 * (r / sig) ** 2 + np.abs(np.log(sig)) + 0.92, 0.0)
    tol_y = (np.abs(r) / sig**2 * out["model"] * w).sum(axis=(1, 2)) + 64 * EPS32 * terms.sum(axis=(1, 2)) + 1e-7
    out["y_ind"] = tol_y
    if kind == "joint":
        # one Weibull term per (competing) event e: the individual's event term is the sum over e of H_e - delta_e log h_e
        rhos = v["rho"].reshape(-1)
        nlns = v["n_log_nu"].reshape(-1)
        ne = rhos.shape[0]
        ev_t = v["event"].reshape(n, -1)[:, 0]
        ev_w = v["event_w"].reshape(n, -1)
        shifts = v["survival_shifts"].reshape(n, -1) if "survival_shifts" in v else np.zeros((n, ne))
        out["event_ind"] = np.full(n, 1e-9)
        out["pred_rel"] = np.full(n, 1e-6)
        for e in range(ne):
            rho, nln, shift = float(rhos[e]), float(nlns[e]), shifts[:, e]
            arg = -(xi + shift / rho) - nln
            nu_r = np.exp(arg)
            s = np.clip(ev_t - v["tau"].reshape(n), 0.0, None)
            H = (s / nu_r) ** rho
            s0 = np.clip(ev_t.min() - v["tau"].reshape(n), 0.0, None)
            H0 = (s0 / nu_r) ** rho
            delta = ev_w[:, e].astype(float)
            rel_ev = 32 * EPS32 * (2 + np.abs(xi) + abs(nln) + np.abs(shift / rho) + 2 * m)
            out["event_ind"] = out["event_ind"] + rel_ev * rho * (H + delta)
            out["pred_rel"] = out["pred_rel"] + rel_ev * rho * (H + H0)
    return out


def _close(a, b, tol):
    """elementwise |a-b| <= tol with identical non-finite / penalty classes; returns (ok, worst ratio, index)."""
    a = np.asarray(a, dtype=np.float64)
    b = np.asarray(b, dtype=np.float64)
    tol = np.broadcast_to(np.asarray(tol, dtype=np.float64), a.shape)
    special = ~np.isfinite(a) | ~np.isfinite(b) | (np.abs(a) >= PENALTY) | (np.abs(b) >= PENALTY)
    same_special = np.where(special, (a == b) | (np.isnan(a) & np.isnan(b)), True)
    with np.errstate(invalid="ignore", over="ignore"):
        ratio = np.where(special, 0.0, np.abs(a - b) / tol)
    ok = bool(same_special.all()) and bool((ratio <= 1.0).all())
    idx = int(np.argmax(np.where(same_special, ratio, np.inf)))
    worst = float(np.where(same_special, ratio, np.inf).reshape(-1)[idx]) if a.size else 0.0
    return ok, worst, idx


def _put_case_values(st, case):
    spec = case["spec"]
    n = len(case["ids"])
    for k, val in case["pop"].items():
        st[k] = T32(val)
    dt = torch.float32 if case.get("dtype", "f32") == "f32" else torch.float64
    st["xi"] = torch.tensor(case["xi"], dtype=dt).reshape(n, 1)
    st["tau"] = torch.tensor(case["tau"], dtype=dt).reshape(n, 1)
    if spec["ns"]:
        st["sources"] = T32(case["sources"]).reshape(n, spec["ns"])


def _observe(st, kind, ne=1):
    names = list(OBS_COMMON) + (list(OBS_JOINT) if kind == "joint" else [])
    if ne != 1:
        # the cumulative-incidence prediction of competing events is only implemented for one individual at a time
        names = [k for k in names if k != "predictions_event"]
    return {k: N(st[k]) for k in names}


def run_gauge(case):
    spec = case["spec"]
    kind = spec["kind"]
    model = build(spec)
    st = base_state(spec, case["ids"]).clone(disable_auto_fork=True)
    _put_case_values(st, case)
    n = len(case["ids"])
    recentring = has_recentring(model)

    # ---- before
    ne = int(spec.get("ne", 1))
    before = _observe(st, kind, ne)
    vals = {"xi": N(st["xi"]), "tau": N(st["tau"]), "t": N(st["t"]), "model": before["model"],
            "y": N(st["y"]), "y_w": st["y"].weight.numpy().astype(bool), "noise_std": N(st["noise_std"])}
    if kind != "shared_speed_logistic":
        vals["log_v0"] = N(st["log_v0"])
        vals["g"] = N(st["g"])
    if kind == "joint":
        vals.update(rho=N(st["rho"]), n_log_nu=N(st["n_log_nu"]), event=N(st["event"]),
                    event_w=st["event"].weight.numpy().astype(bool))
        if spec["ns"]:
            vals["survival_shifts"] = N(st["survival_shifts"])
    indep = _independent_names(st)
    dig_before = {k: tdigest(st._values.get(k)) for k in indep}
    xi0 = vals["xi"].reshape(-1)
    m_true = float(xi0.mean())
    src_mean_nonzero = bool(spec["ns"]) and abs(float(np.mean(case["sources"]))) > 0
    feat = _feature(case, src_mean_nonzero)
    site = "compute_sufficient_statistics"
    out = {"violations": [], "nontrivial": recentring and m_true != 0.0, "ratios": {}}

    # ---- the real step
    try:
        model.compute_sufficient_statistics(st)
        after = _observe(st, kind, ne)
        xi1 = N(st["xi"]).reshape(-1)
        dig_after = {k: tdigest(st._values.get(k)) for k in indep}
    except Exception as e:  # the step must run on every state
        out["violations"].append((f"{site}|{type(e).__name__}|{feat}", f"{type(e).__name__}: {e}", None, None))
        out["outcome"] = f"gauge:{kind}:exception"
        return out

    tol = _gauge_tolerances(kind, vals)
    V = out["violations"]

    def chk(name, sig_kind, t):
        ok, worst, idx = _close(before[name], after[name], t)
        out["ratios"][name] = worst
        if not ok:
            b, a = before[name].reshape(-1), after[name].reshape(-1)
            V.append((f"{site}|{sig_kind}|{feat}",
                      f"{name} differs before/after the re-centring step at flat index {idx}: {b[idx]!r} -> {a[idx]!r} "
                      f"(allowed {float(np.broadcast_to(t, before[name].shape).reshape(-1)[idx]):.3g}); mean(xi) was {m_true:.6g}",
                      b.tolist()[:24], a.tolist()[:24]))

    chk("model", "trajectory (model) changed", tol["model"])
    if kind == "joint":
        chk("nll_attach_y_ind", "attachment term changed", tol["y_ind"])
        chk("nll_attach_event_ind", "event likelihood changed", tol["event_ind"])
        chk("nll_attach_ind", "attachment term changed", tol["y_ind"] + tol["event_ind"])
        chk("nll_attach_y", "attachment term changed", tol["y_ind"].sum())
        chk("nll_attach_event", "event likelihood changed", tol["event_ind"].sum())
        chk("nll_attach", "attachment term changed", tol["y_ind"].sum() + tol["event_ind"].sum())
        if "predictions_event" in before:
            chk("predictions_event", "event prediction (survival) changed",
                tol["pred_rel"].reshape(-1, 1) * np.abs(before["predictions_event"]) + 1e-300)
    else:
        chk("nll_attach_ind", "attachment term changed", tol["y_ind"])
        chk("nll_attach", "attachment term changed", tol["y_ind"].sum())

    changed = sorted(k for k in indep if dig_before[k] != dig_after[k])
    if recentring:
        eps = EPS32 if case.get("dtype", "f32") == "f32" else EPS64
        scale = float(np.abs(xi0).max()) + abs(m_true)
        mean_after = float(xi1.mean())
        if abs(mean_after) > (n + 2) * eps * max(scale, 1e-30):
            V.append((f"{site}|log-accelerations not zero-mean afterwards|{feat}",
                      f"mean(xi) after the step = {mean_after!r} (xi before {xi0.tolist()}, after {xi1.tolist()})",
                      0.0, mean_after))
        # a common shift: differences between individuals are preserved
        d0 = xi0 - xi0[0]
        d1 = xi1 - xi1[0]
        if np.abs(d0 - d1).max() > 4 * eps * max(scale, 1e-30):
            V.append((f"{site}|log-accelerations not shifted by a common constant|{feat}",
                      f"xi before {xi0.tolist()} after {xi1.tolist()}", d0.tolist(), d1.tolist()))
    allowed = {"xi", "log_v0", "n_log_nu"} if recentring else set()
    for k in changed:
        if k not in allowed:
            V.append((f"{site}|independent variable other than xi/log_v0/n_log_nu modified: {k}|{feat}",
                      f"{k} was modified by the step: {N(st[k]).reshape(-1).tolist()[:12]}", None, None))
    if not recentring:
        out["outcome"] = f"gauge:{kind}:control (no re-centring step) changed={changed}"
    elif m_true == 0.0:
        out["outcome"] = f"gauge:{kind}:already centred"
    else:
        out["outcome"] = f"gauge:{kind}:shift {'>' if m_true > 0 else '<'} 0, changed={','.join(changed)}"
    return out


# ------------------------------------------------------------------------------------------ ortho

A_LOG_V0 = [-3.5, -2.5, -1.0]
# slow velocities (time unit = days, slowly progressing scores) and mixed slow / fast scales inside one vector:
# orthogonality is a statement about directions, it must hold at every scale of the velocity vector
A_LOG_V0_SLOW = [-14.0, -12.0, -9.0]
A_LOG_V0_MIXED = [-13.0, -6.0, 2.0]
A_LOG_G = [-0.5, 0.5, 1.5]
A_LOG_G_EXTREME = [-7.0, 0.0, 7.0]
A_G_LIN = [0.0, 0.3, 0.8]
A_DELTA = [-0.5, 0.0, 0.8]
A_BETA = [-1.0, 0.0, 0.5]
A_SRC = [-2.0, 0.0, 1.5]


def beta_list(dim, ns, full):
    """mixing coefficients: full product of the 3-value alphabet when small, else a fixed structured list."""
    rows, cols = dim - 1, ns
    if full or rows * cols <= 2:
        for flat in itertools.product(A_BETA, repeat=rows * cols):
            yield [list(flat[i * cols:(i + 1) * cols]) for i in range(rows)]
        return
    mats = []
    for s in range(rows):  # unit selections: every basis column alone in some row of the mixing matrix
        mats.append([[1.0 if i == (j + s) % rows else 0.0 for j in range(cols)] for i in range(rows)])
    mats.append([[round(0.1 * (i + 1) * (-1) ** j + 0.05 * (j + 1), 6) for j in range(cols)] for i in range(rows)])
    mats.append([[(-1.0) ** (i + j) for j in range(cols)] for i in range(rows)])  # cancelling combinations
    mats.append([[0.5 if j == 0 else 0.0 for j in range(cols)] for i in range(rows)])  # a zero column when cols > 1
    mats.append([[[-1.0, 0.5, 0.0][(i + 2 * j) % 3] for j in range(cols)] for i in range(rows)])
    seen = set()
    for mt in mats:
        mt = [list(r) for r in mt]
        k = json.dumps(mt)
        if k not in seen:
            seen.add(k)
            yield mt


def ortho_specs(tier):
    dims = (2, 3) if tier == "quick" else (2, 3, 4)
    out = []
    for kind in SOURCE_KINDS:
        for dim in dims:
            for ns in range(1, dim):
                if kind == "mixture_logistic" and ns > 3:
                    continue
                out.append({"kind": kind, "dim": dim, "ns": ns, "noise": "gaussian-diagonal", "variant": 0})
    return out


def ortho_points(spec, tier):
    """population points (without betas): products of the 3-value alphabets."""
    kind, dim = spec["kind"], spec["dim"]
    if kind == "shared_speed_logistic":
        for lg in A_LOG_G:
            for de in itertools.product(A_DELTA, repeat=dim - 1):
                yield {"log_g": [lg], "deltas": list(de)}
        return
    pos_name, pos_alpha = ("g", A_G_LIN) if kind == "linear" else ("log_g", A_LOG_G)
    for set_i, vel_alpha in enumerate((A_LOG_V0, A_LOG_V0_SLOW, A_LOG_V0_MIXED)):
        for lv in itertools.product(vel_alpha, repeat=dim):
            if kind == "linear":
                # positions do not enter the linear model's metric: one non-constant position vector per velocity vector
                yield {"log_v0": list(lv), "g": [A_G_LIN[(i + 1) % 3] for i in range(dim)]}
                continue
            if dim == 4 or (set_i > 0 and dim == 3 and tier == "quick"):
                # positions from the alphabet on a Latin-square style sub-product (9 position vectors per velocity vector)
                for a, b in itertools.product(range(3), repeat=2):
                    yield {"log_v0": list(lv), pos_name: [pos_alpha[(a + i * b) % 3] for i in range(dim)]}
                continue
            for lg in itertools.product(pos_alpha, repeat=dim):
                yield {"log_v0": list(lv), pos_name: list(lg)}
    if kind != "linear" and dim <= 3:
        # positions next to the floor / ceiling of a logistic curve for some features and mid-range for others: the metric
        # tensor then differs by several orders of magnitude between features (ratio of its squares above 1e5)
        for lv in itertools.product(A_LOG_V0[:2], repeat=dim):
            for lg in itertools.product(A_LOG_G_EXTREME, repeat=dim):
                if len(set(lg)) > 1:
                    yield {"log_v0": list(lv), pos_name: list(lg)}


def ortho_cases(spec, tier):
    dim, ns = spec["dim"], spec["ns"]
    full = tier == "thorough" and dim <= 3
    betas = list(beta_list(dim, ns, full))
    srcs = [list(s) for s in itertools.product(A_SRC, repeat=ns)]
    n = 0
    for pt in ortho_points(spec, tier):
        for b in betas:
            yield {"part": "ortho", "spec": spec, "pop": dict(pt, betas=b), "sources": srcs}
            n += 1
            if n % (29 if tier == "quick" else 7) == 1 and spec["kind"] != "mixture_logistic":
                yield {"part": "ortho", "spec": spec, "pop": dict(pt, betas=b), "sources": srcs, "route": "file"}


def reference_metric_direction(kind, pop):
    """(G diagonal, direction of progression d) at the reference point, float64, from the model equations only."""
    if kind == "linear":
        v0 = np.exp(np.asarray(pop["log_v0"], dtype=np.float32).astype(np.float64))
        return np.ones_like(v0), v0
    if kind == "shared_speed_logistic":
        g = math.exp(float(np.float32(pop["log_g"][0])))
        de = np.concatenate([[0.0], np.asarray(pop["deltas"], dtype=np.float32).astype(np.float64)])
        p = 1.0 / (1.0 + g * np.exp(-de))  # position of feature k at reparametrised time 0
        return 1.0 / (p * (1 - p)) ** 2, p * (1 - p)  # every feature advances at logit-speed 1
    g = np.exp(np.asarray(pop["log_g"], dtype=np.float32).astype(np.float64))
    v0 = np.exp(np.asarray(pop["log_v0"], dtype=np.float32).astype(np.float64))
    p = 1.0 / (1.0 + g)
    return 1.0 / (p * (1 - p)) ** 2, v0  # product metric of the logistic manifold; velocity at t0 is v0


_ORTHO_STATES = {}


def run_ortho(case):
    spec = case["spec"]
    kind = spec["kind"]
    k = _spec_key(spec)
    if k not in _ORTHO_STATES:
        _ORTHO_STATES[k] = build(spec).state.clone(disable_auto_fork=True)
    st = _ORTHO_STATES[k]  # every varied variable is re-assigned by every case
    out = {"violations": [], "ratios": {}}
    V = out["violations"]
    feat = kind
    try:
        if case.get("route") == "file":
            # the population values come from a model file which also carries a mixing matrix computed for OTHER values
            # (a file edited by hand; the documentation says the stored matrix is overwritten at loading): the loaded
            # model must work with the matrix of ITS values
            d = _model_dict(spec)
            for name, val in case["pop"].items():
                d["parameters"][f"{name}_mean"] = val
            d["parameters"]["mixing_matrix"] = [[round(0.3 + 0.1 * i - 0.2 * j, 3) for j in range(spec["dim"])] for i in range(spec["ns"])]
            import warnings as _w

            with _w.catch_warnings():
                _w.simplefilter("ignore")
                st = BaseModel.load(d).state.clone(disable_auto_fork=True)
            feat = kind + ", loaded from a file holding another mixing matrix"
        else:
            for name, val in case["pop"].items():
                st[name] = T32(val)
        st["sources"] = T32(case["sources"]).reshape(len(case["sources"]), spec["ns"])
        Q = N(st["orthonormal_basis"])
        M = N(st["mixing_matrix"])
        W = N(st["space_shifts"])
    except Exception as e:
        V.append((f"mixing_matrix|{type(e).__name__}|{feat}", f"{type(e).__name__}: {e}", None, None))
        out["outcome"] = f"ortho:{kind}:exception"
        out["nontrivial"] = False
        return out
    G, d = reference_metric_direction(kind, case["pop"])
    nvec = G * d
    nn = float(np.linalg.norm(nvec))
    B = np.abs(np.asarray(case["pop"]["betas"], dtype=np.float64))  # (dim-1, ns)
    qn = np.linalg.norm(Q, axis=0)  # (dim-1,)
    row_scale = (B * qn[:, None]).sum(axis=0)  # (ns,)
    if Q.shape != (spec["dim"], spec["dim"] - 1) or M.shape != (spec["ns"], spec["dim"]):
        V.append((f"mixing_matrix|wrong shape|{feat}", f"basis {Q.shape}, mixing matrix {M.shape}", None, None))
        out["outcome"] = f"ortho:{kind}:wrong shape"
        out["nontrivial"] = False
        return out
    sv = np.linalg.svd(Q, compute_uv=False)
    if sv.min() < 1e-3:
        V.append((f"orthonormal_basis|degenerate (rank < dimension-1)|{feat}", f"singular values {sv.tolist()}", None, sv.tolist()))
    ip = M @ nvec
    lim = ORTHO_TOL * row_scale * nn
    ratio = np.where(lim > 0, np.abs(ip) / np.where(lim > 0, lim, 1.0), np.where(np.abs(ip) > 0, np.inf, 0.0))
    out["ratios"]["mixing_matrix"] = float(ratio.max())
    if (ratio > 1).any():
        j = int(np.argmax(ratio))
        cosv = float(ip[j] / (np.linalg.norm(M[j] * np.sqrt(G)) * np.linalg.norm(d * np.sqrt(G)) + 1e-300))
        V.append((f"mixing_matrix|row not orthogonal to the direction of progression in the model's metric|{feat}",
                  f"row {j} = {M[j].tolist()}, metric diag = {G.tolist()}, direction = {d.tolist()}: <row, G d> = {ip[j]!r} "
                  f"(cosine in the metric {cosv:.3g}, allowed {lim[j]:.3g})", 0.0, float(ip[j])))
    S = np.abs(np.asarray(case["sources"], dtype=np.float64))  # (n, ns)
    ipw = W @ nvec
    limw = ORTHO_TOL * (S @ row_scale) * nn
    ratiow = np.where(limw > 0, np.abs(ipw) / np.where(limw > 0, limw, 1.0), np.where(np.abs(ipw) > 0, np.inf, 0.0))
    out["ratios"]["space_shifts"] = float(ratiow.max())
    if (ratiow > 1).any():
        i = int(np.argmax(ratiow))
        V.append((f"space_shifts|space shift not orthogonal to the direction of progression in the model's metric|{feat}",
                  f"sources {case['sources'][i]} -> space shift {W[i].tolist()}: <w, G d> = {ipw[i]!r} (allowed {limw[i]:.3g})",
                  0.0, float(ipw[i])))
    nz_rows = int((np.linalg.norm(M, axis=1) > 0).sum())
    # a non-zero column of betas must give a non-zero row (the basis has full column rank)
    for j in range(spec["ns"]):
        if B[:, j].max() > 0 and np.linalg.norm(M[j]) == 0:
            V.append((f"mixing_matrix|zero row for non-zero mixing coefficients|{feat}", f"betas column {j}", None, None))
    out["nontrivial"] = nz_rows > 0
    out["outcome"] = f"ortho:{kind}:{'non-zero rows' if nz_rows == spec['ns'] else 'some zero rows' if nz_rows else 'zero matrix'}"
    return out


# ------------------------------------------------------------------------------------------ basis (direct calls)

B_VEL = [-2.0, 0.05, 1.0, 3.0]
B_G0 = [0.5, 1.0, 7.0]
B_G1 = [0.5, 1.0, 16.0]


def spd_matrices(dim):
    """a few symmetric positive definite metrics (diagonally dominant)."""
    out = []
    for c in (0.25, -0.2):
        out.append([[(1.0 + i) if i == j else c for j in range(dim)] for i in range(dim)])
    out.append([[2.0 if i == j else (0.5 if abs(i - j) == 1 else 0.0) for j in range(dim)] for i in range(dim)])
    return out


B_SCALES = [1e-6, 1e5]
B_VEL_SMALL = [0.05, 1.0, -2.0]


def _basis_metrics(tier, dim, reduced):
    metrics = [("0D", g) for g in B_G0]
    g1_alpha = B_G1 if (dim <= 2 or tier == "thorough") and not reduced else B_G1[::2]
    if (dim <= 3 or tier == "thorough") and not reduced:
        metrics += [("1D", list(g)) for g in itertools.product(g1_alpha, repeat=dim)]
    else:
        metrics += [("1D", [g1_alpha[(a + i * b) % len(g1_alpha)] for i in range(dim)]) for a in range(2) for b in range(2)]
    metrics += [("2D", mtx) for mtx in spd_matrices(dim)]
    return metrics


def basis_cases(tier, dim):
    vel_alpha = B_VEL if (dim <= 3 or tier == "thorough") else B_VEL[1:]
    for v in itertools.product(vel_alpha, repeat=dim):
        for form, g in _basis_metrics(tier, dim, False):
            for col in range(dim):
                yield {"part": "basis", "v": list(v), "metric_form": form, "G": g, "strip_col": col}
    # the same directions at very small / very large norms, and mixed scales inside one vector (scale-freeness)
    for base in itertools.product(B_VEL_SMALL, repeat=dim):
        vs = [[x * sc for x in base] for sc in B_SCALES]
        vs.append([x * 10.0 ** (-3 * k) for k, x in enumerate(base)])
        vs.append([x * 10.0 ** (-7 + 3 * k) for k, x in enumerate(base)])
        for v in vs:
            for form, g in _basis_metrics(tier, dim, True):
                for col in range(dim):
                    yield {"part": "basis", "v": [float(np.float32(x)) for x in v], "metric_form": form, "G": g, "strip_col": col}


def run_basis(case):
    v = np.asarray(case["v"], dtype=np.float64)
    dim = v.shape[0]
    form = case["metric_form"]
    Gt = T32(case["G"])
    G64 = np.asarray(case["G"], dtype=np.float64)
    nvec = G64 * v if form in ("0D", "1D") else G64 @ v
    col = case["strip_col"]
    feat = f"{form} metric" + (", strip_col > 0" if col else "")
    out = {"violations": [], "ratios": {}, "nontrivial": dim >= 2}
    V = out["violations"]
    # outside the domain: the stripped component of G.v is zero (for a 2D metric: cancelled to rounding level inside G @ v)
    mag = float(np.abs(G64[col]) @ np.abs(v)) if form == "2D" else abs(float(nvec[col]))
    if nvec[col] == 0.0 or abs(float(nvec[col])) <= 1e-6 * mag:
        out["outcome"] = "basis:outside domain (stripped component is 0)"
        out["nontrivial"] = False
        out["skipped"] = True
        return out
    try:
        Q = N(compute_orthonormal_basis(T32(case["v"]), Gt, strip_col=col))
    except Exception as e:
        V.append((f"compute_orthonormal_basis|{type(e).__name__}|{feat}", f"{type(e).__name__}: {e}", None, None))
        out["outcome"] = "basis:exception"
        return out
    if Q.shape != (dim, dim - 1):
        V.append((f"compute_orthonormal_basis|wrong shape|{feat}", f"{Q.shape} for dimension {dim}", [dim, dim - 1], list(Q.shape)))
        out["outcome"] = "basis:wrong shape"
        return out
    if dim == 1:
        out["outcome"] = "basis:dimension 1 (empty basis)"
        return out
    ip = Q.T @ nvec
    lim = ORTHO_TOL * np.linalg.norm(Q, axis=0) * np.linalg.norm(nvec)
    ratio = np.abs(ip) / np.where(lim > 0, lim, 1e-300)
    out["ratios"]["basis"] = float(ratio.max())
    if (ratio > 1).any():
        j = int(np.argmax(ratio))
        V.append((f"compute_orthonormal_basis|column not orthogonal to G.v|{feat}",
                  f"column {j} = {Q[:, j].tolist()}, G.v = {nvec.tolist()}, inner product {ip[j]!r} (allowed {lim[j]:.3g})",
                  0.0, float(ip[j])))
    sv = np.linalg.svd(Q, compute_uv=False)
    if sv.min() < 1e-3:
        V.append((f"compute_orthonormal_basis|degenerate (rank < dimension-1)|{feat}", f"singular values {sv.tolist()}", None, sv.tolist()))
    out["outcome"] = f"basis:{form}:dim{dim}:orthogonal complement of G.v"
    return out


# ------------------------------------------------------------------------------------------ tangent (autograd on the real model)

TG_DT = [-5.0, 0.0, 8.0]
TG_XI = [0.0, 0.4]
TG_LOG_V0_SLOW = [-14.0, -12.0, -9.0, -13.0]
TG_LOG_V0_MIXED = [-13.0, 0.5, -6.0, -2.5]


def tangent_cases(tier):
    dims = (2, 3) if tier == "quick" else (2, 3, 4)
    variants = (0,) if tier == "quick" else (0, 1, 2)
    for kind in SOURCE_KINDS:
        for dim in dims:
            for ns in range(1, dim):
                if kind == "mixture_logistic" and ns > 3:
                    continue
                for v in variants:
                    spec = {"kind": kind, "dim": dim, "ns": ns, "noise": "gaussian-diagonal", "variant": v}
                    ax = pop_axes(spec)
                    ax.pop("n_log_nu", None)
                    pops = [{k: vals[alt] for k, vals in ax.items()} for alt in (0, 1)]
                    if "log_v0" in ax:  # slow velocities / mixed slow and fast velocities in one vector
                        pops.append(dict(pops[0], log_v0=TG_LOG_V0_SLOW[:dim]))
                        pops.append(dict(pops[1], log_v0=TG_LOG_V0_MIXED[:dim]))
                    for pop in pops:
                        for dt in TG_DT:
                            for xi in TG_XI:
                                for src_i in (0, 1):
                                    src = [0.0] * ns if src_i == 0 else SRC_ALT[0][:ns]
                                    yield {"part": "tangent", "spec": spec, "pop": pop, "dt": dt, "xi": xi, "sources": src}


def run_tangent(case):
    spec = case["spec"]
    kind, dim, ns = spec["kind"], spec["dim"], spec["ns"]
    model = build(spec)
    st = model.state.clone(disable_auto_fork=True)
    out = {"violations": [], "ratios": {}, "nontrivial": False}
    V = out["violations"]
    feat = kind
    tau0 = 70.0
    try:
        for name, val in case["pop"].items():
            st[name] = T32(val)
        model._put_data_timepoints(st, torch.tensor([[tau0 + case["dt"]]], dtype=torch.float32))
        tau = torch.tensor([[tau0]], dtype=torch.float32, requires_grad=True)
        src = torch.tensor([case["sources"]], dtype=torch.float32, requires_grad=True)
        st["xi"] = torch.tensor([[case["xi"]]], dtype=torch.float32)
        st["tau"] = tau
        st["sources"] = src
        mod = st["model"]
        U = np.zeros(dim)
        S = np.zeros((ns, dim))
        for k in range(dim):
            gt, gs = torch.autograd.grad(mod[0, 0, k], [tau, src], retain_graph=True, allow_unused=True)
            U[k] = 0.0 if gt is None else float(gt[0, 0])
            if gs is not None:
                S[:, k] = gs[0].to(torch.float64).numpy()
        p = N(mod)[0, 0]
    except Exception as e:
        V.append((f"model|{type(e).__name__}|{feat}", f"{type(e).__name__}: {e}", None, None))
        out["outcome"] = f"tangent:{kind}:exception"
        return out
    if kind == "linear":
        G = np.ones(dim)
    else:
        pq = p * (1 - p)
        if pq.min() < 1e-6:  # saturated sigmoid in float32: tangents underflow, nothing to compare
            out["outcome"] = f"tangent:{kind}:saturated"
            return out
        G = 1.0 / pq**2
    un = math.sqrt(float((U * U * G).sum()))
    worst = 0.0
    for j in range(ns):
        sn = math.sqrt(float((S[j] * S[j] * G).sum()))
        if sn == 0 or un == 0:
            continue
        out["nontrivial"] = True
        c = float((S[j] * G * U).sum()) / (sn * un)
        worst = max(worst, abs(c))
        if abs(c) > TANGENT_TOL:
            V.append((f"model|source tangent not orthogonal to the time-shift tangent in the manifold metric at the point|{feat}",
                      f"d model/d sources_{j} = {S[j].tolist()}, d model/d tau = {U.tolist()}, model = {p.tolist()}: cosine {c:.3g}",
                      0.0, c))
            break
    out["ratios"]["tangent"] = worst / TANGENT_TOL
    out["outcome"] = f"tangent:{kind}:{'orthogonal tangents' if out['nontrivial'] else 'zero tangent'}"
    return out


# ------------------------------------------------------------------------------------------ contract

RUNNERS = {"gauge": run_gauge, "ortho": run_ortho, "basis": run_basis, "tangent": run_tangent}


def run_case(case):
    return RUNNERS[case["part"]](case)


def bounds(tier):
    return {
        "gauge": {
            "kinds with the step": list(RECENTRING_KINDS), "control": list(CONTROL_KINDS),
            "specs": len(gauge_specs(tier)), "dimension": "1..3" if tier == "quick" else "1..4", "sources": "0..dimension-1",
            "noise": ["gaussian-diagonal", "gaussian-scalar"], "parameter variants": 1 if tier == "quick" else 3,
            "individuals": "1, 2 and 3 (cohort a, b, c: 1-3 visits, missing values, censored and observed events)",
            "xi": f"{XI_ALPHABET}^n", "tau": TAUS, "sources values": "2 tables (zero / non-zero overall mean)",
            "population": "base and alternative value for each of log_v0, log_g|g, betas, n_log_nu (full product for n=3)",
            "dtype of xi,tau": "float32; float64 too for joint and mixture",
        },
        "ortho": {
            "kinds": list(SOURCE_KINDS), "dimension": "2..3" if tier == "quick" else "2..4", "sources": "1..dimension-1",
            "log_v0": [A_LOG_V0, A_LOG_V0_SLOW, A_LOG_V0_MIXED], "log_g": A_LOG_G, "deltas": A_DELTA, "betas": f"{A_BETA} (full product when <= 2 entries"
            + (" or dimension <= 3" if tier == "thorough" else "") + ", else 7-8 structured matrices)",
            "source vectors": f"{A_SRC}^ns",
        },
        "basis": {"dimension": "1..4", "v": B_VEL, "v rescaled": {"alphabet": B_VEL_SMALL, "uniform scales": B_SCALES, "mixed": "x_k*10^(-3k), x_k*10^(-7+3k)"}, "metric": {"0D": B_G0, "1D": B_G1, "2D": "3 SPD matrices"}, "strip_col": "all"},
        "tangent": {"kinds": list(SOURCE_KINDS), "t - tau": TG_DT, "xi": TG_XI, "sources": "0 and a non-zero vector",
                    "log_v0 also": [TG_LOG_V0_SLOW, TG_LOG_V0_MIXED],
                    "population": "base / alternative vectors, variants " + ("0" if tier == "quick" else "0..2")},
    }


def shards(tier, seed):
    # the enumerated spaces do not depend on the seed (nothing is drawn; there is no seed alphabet in this property)
    basis = [{"part": "basis", "dim": dim, "tier": tier} for dim in (1, 2, 3, 4)]
    tangent = [{"part": "tangent", "tier": tier}]
    ortho = [{"part": "ortho", "spec": spec, "tier": tier} for spec in ortho_specs(tier)]
    gauge = [{"part": "gauge", "spec": spec, "tier": tier} for spec in gauge_specs(tier)]
    # one small shard of every part first (readable samples in the evidence), then the rest, simplest first
    return basis[:2] + gauge[:1] + ortho[:1] + tangent + basis[2:] + ortho[1:] + gauge[1:]


def _cases_of(shard):
    tier = shard["tier"]
    if shard["part"] == "basis":
        return basis_cases(tier, shard["dim"])
    if shard["part"] == "tangent":
        return tangent_cases(tier)
    if shard["part"] == "ortho":
        return ortho_cases(shard["spec"], tier)
    return gauge_cases(shard["spec"], tier)


def run_shard(shard):
    acc = Acc()
    for case in _cases_of(shard):
        res = run_case(case)
        if res.get("skipped"):
            acc.count("basis_outside_domain")
            continue
        acc.evaluation()
        acc.outcome(res["outcome"])
        if res["nontrivial"]:
            acc.nontriv(digest(case))
            if not acc.samples:  # one written-out case per shard
                acc.sample({"case": case, "outcome": res["outcome"]})
        for name, r in res.get("ratios", {}).items():
            # observed |difference| / tolerance: evidence of the margin (only the upper bins are itemised, per kind)
            if r > 0.1:
                b = "<=0.5" if r <= 0.5 else "<=1" if r <= 1 else ">1"
                kind = case["spec"]["kind"] if "spec" in case else "direct"
                acc.count(f"margin {shard['part']}.{kind}.{name} {b}")
            else:
                acc.count(f"margin {shard['part']} any <=0.1")
        for sig, msg, exp, obs in res["violations"]:
            acc.violation(sig, msg, case, exp, obs)
    return acc.to_dict()


def replay(case):
    res = run_case(case)
    return [{"signature": sig, "message": msg} for sig, msg, _e, _o in res["violations"]]

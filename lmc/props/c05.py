"""C05 -- sufficient statistics follow the stochastic-approximation schedule.

E-HIST over the iteration machine (k, n_burn_in, S_{k-1}) of the real TensorMcmcSaemAlgorithm:
 * probe model: `compute_sufficient_statistics` returns the known sequence s_k = (k^2, one-hot(k)), `update_parameters`
   records what it receives; `_maximization_step` is driven for k = 1..n_iter for every configuration of the grid;
 * binding: complete fits of real models on a tiny cohort with the two model methods wrapped (recorded, not altered).
Oracle: exact recursion in float64.
"""

from __future__ import annotations

import itertools
import warnings

import torch

import leaspy.models  # noqa: F401
from leaspy.algo import AlgorithmSettings
from leaspy.algo.base import algorithm_factory
from leaspy.exceptions import LeaspyAlgoInputError

from ..core import Acc

ID = "C05"
LEVEL = "model_checking"
RULE = (
    "every configuration (n_iter, burn-in fraction or count, step power) of the grid is one run of the real iteration "
    "machine, each _maximization_step a transition; a configuration is non-trivial when its (accepted?, n_burn_in, power) "
    "triple yields a distinct weight trace; real-model bindings count one state per iteration"
)
ASSUMPTIONS = [
    "n_burn_in = explicit count if given else int(fraction * n_iter) (the documented derivation)",
    "the probe model replaces only compute_sufficient_statistics / update_parameters (the only two model methods _maximization_step calls)",
    "float64 statistics, recursion compared at 1e-9 relative",
]

# fractions: whole percents and others (an eighth, a third, 0.995), exactly representable or not
FRACS = [0, 0.1, 0.25, 0.5, 0.9, 1, None, 0.125, 0.625, 1.0 / 3.0, 0.995]
POWERS = [-1, 0, 0.5, 0.5 + 2.0 ** -20, 0.6, 0.8, 1, 1 + 2.0 ** -20, 2, float("nan"), float("inf"), float("-inf")]


def bounds(tier):
    return {"n_iter": "1..20" if tier == "quick" else "1..80", "fractions": FRACS, "powers": POWERS,
            "counts": "None, 0, 1, n_iter-1, n_iter, n_iter+3", "real_models": "logistic, joint, linear: n_iter 4..8",
            "routes": "AlgorithmSettings(...) keywords | algo.load_parameters | options written into an existing settings object | one settings "
                      "object reused for a second algorithm after n_iter was changed | annealing on"}


def _val(v):
    """Plain float64 tensor of a statistic (weighted tensors: value with masked entries zeroed)."""
    from leaspy.utils.weighted_tensor import WeightedTensor

    if isinstance(v, WeightedTensor):
        v = v.weighted_value
    return torch.as_tensor(v).detach().clone().to(torch.float64)


class Probe:
    """Duck-typed model: known statistics sequence, records update calls."""

    def __init__(self, algo, width):
        self.algo = algo
        self.width = width
        self.calls = []

    def compute_sufficient_statistics(self, state):
        k = self.algo.current_iteration
        onehot = torch.zeros(self.width, dtype=torch.float64)
        onehot[k] = 1.0
        return {"sq": torch.tensor(float(k * k), dtype=torch.float64), "onehot": onehot}

    def update_parameters(self, state, sufficient_statistics, *, burn_in):
        self.calls.append(({k: v.clone() for k, v in sufficient_statistics.items()}, burn_in))


def make_algo(n_iter, frac, count, power, route="settings", annealing=False):
    """route 'settings': everything through AlgorithmSettings; route 'load_parameters': the explicit count is given
    afterwards through the documented `algo.load_parameters({...})`; annealing=True switches the (default) annealing on."""
    kw = {}
    if annealing:
        kw["annealing"] = dict(do_annealing=True, initial_temperature=3, n_plateau=3)
    with warnings.catch_warnings():
        warnings.simplefilter("ignore")
        if route == "settings":
            settings = AlgorithmSettings("mcmc_saem", n_iter=n_iter, progress_bar=False, seed=0,
                                         n_burn_in_iter_frac=frac, n_burn_in_iter=count, burn_in_step_power=power, **kw)
            return algorithm_factory(settings)
        if route == "set_after":
            # the options are written into a settings object that already exists (settings.parameters is the documented
            # place of the algorithm's parameters); the algorithm built from it must validate and resolve them all the same
            settings = AlgorithmSettings("mcmc_saem", n_iter=n_iter + 2, progress_bar=False, seed=0, **kw)
            settings.parameters.update({"n_iter": n_iter, "n_burn_in_iter_frac": frac, "n_burn_in_iter": count, "burn_in_step_power": power})
            return algorithm_factory(settings)
        if route == "load_n_iter":
            # an explicit count (the default ratio left in the settings), then only the number of iterations is changed through
            # load_parameters: the explicit count stays what was asked
            settings = AlgorithmSettings("mcmc_saem", n_iter=2 * n_iter + 5, progress_bar=False, seed=0,
                                         n_burn_in_iter=count, burn_in_step_power=power, **({} if frac is None else {"n_burn_in_iter_frac": frac}), **kw)
            algo = algorithm_factory(settings)
            algo.load_parameters({"n_iter": n_iter})
            return algo
        if route == "settings_reused":
            # one settings object serves two algorithms, the number of iterations being changed in between: the second
            # algorithm resolves its memory-less phase from what the settings say now
            settings = AlgorithmSettings("mcmc_saem", n_iter=2 * n_iter + 5, progress_bar=False, seed=0,
                                         n_burn_in_iter_frac=frac, n_burn_in_iter=count, burn_in_step_power=power, **kw)
            algorithm_factory(settings)
            settings.parameters["n_iter"] = n_iter
            return algorithm_factory(settings)
        settings = AlgorithmSettings("mcmc_saem", n_iter=n_iter, progress_bar=False, seed=0,
                                     n_burn_in_iter_frac=0.9 if frac is None else frac, burn_in_step_power=power, **kw)
        algo = algorithm_factory(settings)
        algo.load_parameters({"n_iter": n_iter, "n_burn_in_iter": count})
        return algo


ROUTE_LABEL = {"load_n_iter": ", n_iter changed afterwards through load_parameters", "settings": "", "load_parameters": ", through load_parameters", "set_after": ", options written into an existing settings object",
               "settings_reused": ", settings object reused after n_iter was changed"}


def reference_weights(n_iter, n_b, power):
    """weights[k][j] = weight of s_j in S_k (k, j 1-based), exact recursion in float64."""
    W = {}
    prev = None
    for k in range(1, n_iter + 1):
        cur = [0.0] * (n_iter + 1)
        if k <= n_b or k == n_b + 1:
            cur[k] = 1.0
        else:
            e = float(k - n_b) ** (-power)
            cur = [(1.0 - e) * w for w in prev]
            cur[k] += e
        W[k] = cur
        prev = cur
    return W


def run_config(cfg):
    n_iter, frac, count, power = cfg["n_iter"], cfg["frac"], cfg["count"], cfg["power"]
    route, annealing = cfg.get("route", "settings"), cfg.get("annealing", False)
    problems = []
    should_refuse_power = not (0.5 < power <= 1)
    should_refuse_burn = frac is None and count is None
    try:
        algo = make_algo(n_iter, frac, count, power, route, annealing)
    except LeaspyAlgoInputError:
        if not (should_refuse_power or should_refuse_burn):
            problems.append(("constructor|valid configuration refused|", f"{cfg}"))
        return "refused", None, problems
    except Exception as e:
        return "refused-other", None, [(f"constructor|{type(e).__name__} instead of LeaspyAlgoInputError|", f"{e}")]
    if should_refuse_power:
        problems.append(("constructor|step power outside (0.5, 1] accepted|" + ("power is NaN" if power != power else "power <= 0.5" if power <= 0.5 else "power > 1")
                         + ROUTE_LABEL[route], f"{cfg}"))
        return "accepted-bad-power", None, problems
    if should_refuse_burn:
        problems.append(("constructor|neither burn-in fraction nor count accepted|", f"{cfg}"))
        return "accepted-no-burn-in", None, problems
    n_b_ref = count if count is not None else int(frac * n_iter)
    n_b = algo.algo_parameters["n_burn_in_iter"]
    if n_b != n_b_ref:
        problems.append(("constructor|length of the memory-less phase|" + ("count given" if count is not None else "from fraction")
                         + (", annealing on" if annealing else "") + ROUTE_LABEL[route],
                         f"n_burn_in_iter={n_b} expected {n_b_ref} for {cfg}"))
        n_b_ref = n_b  # keep checking the recursion relative to what the algorithm holds
    probe = Probe(algo, n_iter + 1)
    W = reference_weights(n_iter, n_b_ref, power)
    trace = []
    for k in range(1, n_iter + 1):
        algo.current_iteration = k
        phase = "memory-less" if k <= n_b_ref else ("first iteration after the memory-less phase" if k == n_b_ref + 1 else "with memory")
        try:
            algo._maximization_step(probe, None)
        except Exception as e:
            problems.append((f"_maximization_step|raises {type(e).__name__}|{phase}", f"k={k} n_b={n_b_ref} p={power}: {e}"))
            return "raised", trace, problems
        S, burn = probe.calls[-1]
        held = algo.sufficient_statistics
        w_ref = torch.tensor(W[k][: n_iter + 1], dtype=torch.float64)
        sq_ref = sum(W[k][j] * j * j for j in range(1, n_iter + 1))
        phase = "memory-less" if k <= n_b_ref else ("first iteration after the memory-less phase" if k == n_b_ref + 1 else "with memory")
        if any((not isinstance(t_, torch.Tensor)) or t_.is_complex() or t_.shape != r_.shape
               for t_, r_ in ((S["onehot"], w_ref), (S["sq"], torch.tensor(0.0)))):
            problems.append((f"_maximization_step|statistics are not real tensors of the collected shape|{phase}",
                             f"k={k} n_b={n_b_ref} p={power}: {S['onehot']!r}"[:400]))
            return "ran", trace, problems
        if burn != (k <= n_b_ref):
            problems.append((f"_maximization_step|burn-in flag passed to the update|{phase}", f"k={k} n_b={n_b_ref} burn_in={burn}"))
        if not torch.allclose(S["onehot"], w_ref, rtol=1e-9, atol=1e-12):
            problems.append((f"_maximization_step|statistics are not the documented combination|{phase}",
                             f"k={k} n_b={n_b_ref} p={power}: weights {S['onehot'].tolist()} expected {w_ref.tolist()}"))
        elif abs(float(S["sq"]) - sq_ref) > 1e-9 * max(1.0, abs(sq_ref)):
            problems.append((f"_maximization_step|statistics are not the documented combination (scalar)|{phase}", f"k={k}"))
        if not (torch.equal(held["onehot"], S["onehot"]) and torch.equal(held["sq"], S["sq"])):
            problems.append((f"_maximization_step|statistics held by the algorithm differ from those given to the update|{phase}", f"k={k}"))
        trace.append(tuple(round(x, 12) for x in S["onehot"].tolist()))
    seen, out = set(), []
    for s, m in problems:
        if s not in seen:
            seen.add(s)
            out.append((s, m))
    return "ran", trace, out


def configs(tier):
    n_max = 20 if tier == "quick" else 80
    for n_iter in range(1, n_max + 1):
        counts = sorted({0, 1, max(n_iter - 1, 0), n_iter, n_iter + 3})
        for power in POWERS:
            for frac in FRACS:
                yield {"n_iter": n_iter, "frac": frac, "count": None, "power": power}
            for count in counts:
                for frac in (None, 0.5):
                    yield {"n_iter": n_iter, "frac": frac, "count": count, "power": power}
            # the same options written into an existing settings object (every power: the refusal must not depend on the route)
            yield {"n_iter": n_iter, "frac": 0.5, "count": None, "power": power, "route": "set_after"}
            if power in (0.8, 1):
                for frac in FRACS:
                    if frac is not None:
                        yield {"n_iter": n_iter, "frac": frac, "count": None, "power": power, "route": "settings_reused"}
                        if frac not in (0, 1):
                            yield {"n_iter": n_iter, "frac": frac, "count": None, "power": power, "route": "set_after"}
                yield {"n_iter": n_iter, "frac": None, "count": 1, "power": power, "route": "set_after"}
                yield {"n_iter": n_iter, "frac": 0.5, "count": 1, "power": power, "route": "settings_reused"}
                for count in (0, 1, n_iter):
                    yield {"n_iter": n_iter, "frac": 0.9, "count": count, "power": power, "route": "load_n_iter"}
            if power in (0.8, 1) and n_iter >= 2:
                # the same explicit counts given afterwards through load_parameters; and annealing switched on with a
                # memory-less phase shorter than the annealing phase (default: 50% of the iterations)
                for count in counts:
                    if count <= n_iter:
                        yield {"n_iter": n_iter, "frac": None, "count": count, "power": power, "route": "load_parameters"}
                for frac in (0, 0.1, 0.25):
                    yield {"n_iter": n_iter, "frac": frac, "count": None, "power": power, "annealing": True}
                yield {"n_iter": n_iter, "frac": 0.5, "count": 1, "power": power, "annealing": True}


# ------------------------------------------------------------------------------------------
# binding with real models

def run_real(acc, model_name, n_iter, frac, power, annealing=None):
    """Complete fits through `algo.run`; the SAME algorithm instance is then run a second time on a fresh model
    (an algorithm object may be reused: every run must follow the schedule from its own first iteration)."""
    from ..models import MODEL_SPECS, build_model, cohort_dataset

    spec = MODEL_SPECS[model_name]
    ds = cohort_dataset(["a", "b", "d"], spec)
    case = {"kind": "real", "model": model_name, "n_iter": n_iter, "frac": frac, "power": power}
    kw = {}
    if annealing:
        # simulated annealing that OUTLASTS the memory-less phase: the chain is still heated while statistics are averaged;
        # the schedule of the statistics is a function of the iteration number only
        kw["annealing"] = dict(do_annealing=True, initial_temperature=3.0, n_plateau=3, n_iter_frac=annealing)
        case["annealing"] = annealing
    with warnings.catch_warnings():
        warnings.simplefilter("ignore")
        settings = AlgorithmSettings("mcmc_saem", n_iter=n_iter, progress_bar=False, seed=0,
                                     n_burn_in_iter_frac=frac, burn_in_step_power=power, **kw)
        algo = algorithm_factory(settings)
    n_b = int(frac * n_iter)
    for run_index in (1, 2):
        model = build_model(spec)
        rec = {"s": [], "S": [], "burn": []}
        cls = type(model)
        orig_css, orig_up = cls.compute_sufficient_statistics, cls.update_parameters

        def css(state, _o=orig_css, rec=rec):
            out = _o.__func__(cls, state)
            rec["s"].append({k: _val(v) for k, v in out.items()})
            return out

        def up(state, sufficient_statistics, *, burn_in, _o=orig_up, rec=rec):
            rec["S"].append({k: _val(v) for k, v in sufficient_statistics.items()})
            rec["burn"].append(burn_in)
            return _o.__func__(cls, state, sufficient_statistics, burn_in=burn_in)

        model.compute_sufficient_statistics = css
        model.update_parameters = up
        which = "first run" if run_index == 1 else "second run of the same algorithm object"
        with warnings.catch_warnings():
            warnings.simplefilter("ignore")
            try:
                algo.run(model, ds)
            except Exception as e:
                acc.violation(f"fit|{type(e).__name__} during a real fit|{which}", f"{model_name}: {e}", dict(case, run=run_index))
                return
        acc.evaluation()
        acc.nontriv(repr((model_name, n_iter, frac, power, run_index)))
        if len(rec["s"]) != n_iter or len(rec["S"]) != n_iter:
            acc.violation(f"fit|not one maximisation per iteration|{which}", f"{len(rec['s'])} statistics for {n_iter} iterations", dict(case, run=run_index))
            return
        S_prev = None
        for k in range(1, n_iter + 1):
            acc.state()
            acc.transition()
            s_k, S_k = rec["s"][k - 1], rec["S"][k - 1]
            phase = "memory-less" if k <= n_b else ("first iteration after the memory-less phase" if k == n_b + 1 else "with memory")
            acc.outcome(f"real:{phase}")
            if rec["burn"][k - 1] != (k <= n_b):
                acc.violation(f"fit|burn-in flag passed to the update|{phase}, {which}", f"k={k}", dict(case, run=run_index))
            bad = False
            for name, v in s_k.items():
                v64 = v
                if k <= n_b + 1:
                    exp = v64
                else:
                    e = float(k - n_b) ** (-power)
                    exp = (1 - e) * S_prev[name] + e * v64
                got = S_k[name]
                if got.shape != exp.shape or not torch.allclose(got, exp, rtol=1e-5, atol=1e-6, equal_nan=True):
                    acc.violation(f"fit|statistics are not the documented combination|{phase}, {which}",
                                  f"k={k} '{name}': got {got.reshape(-1)[:4].tolist()} expected {exp.reshape(-1)[:4].tolist()}",
                                  dict(case, run=run_index))
                    bad = True
                    break
            if bad:
                break
            S_prev = dict(S_k)


# ------------------------------------------------------------------------------------------

def shards(tier, seed):
    n_max = 20 if tier == "quick" else 80
    out = [{"kind": "probe", "n_lo": lo, "n_hi": min(lo + 3, n_max), "tier": tier} for lo in range(1, n_max + 1, 4)]
    reals = [("logistic_d2_s1_diag", 6, 0.5, 0.8), ("joint_d2_s1_diag", 5, 0.4, 1), ("linear_d2_s0_scalar", 4, 0.25, 0.6)]
    if tier == "thorough":
        reals += [(m, n, f, p) for m in ("logistic_d2_s0_diag", "shared_d2_s1_diag", "logistic_d2_s1_bernoulli")
                  for n, f, p in ((8, 0.5, 0.8), (7, 0.0, 1), (5, 1, 0.75))]
    for r in reals:
        out.append({"kind": "real", "args": list(r), "tier": tier})
    out.append({"kind": "real", "args": ["logistic_d2_s1_diag", 8, 0.25, 0.8, 0.75], "tier": tier})
    if tier == "thorough":
        out.append({"kind": "real", "args": ["joint_d2_s1_diag", 9, 0.0, 1, 1.0], "tier": tier})
        out.append({"kind": "real", "args": ["linear_d2_s0_scalar", 8, 0.5, 0.6, 0.9], "tier": tier})
    return out


def run_shard(shard):
    acc = Acc()
    if shard["kind"] == "probe":
        for cfg in configs(shard["tier"]):
            if not (shard["n_lo"] <= cfg["n_iter"] <= shard["n_hi"]):
                continue
            label, trace, problems = run_config(cfg)
            acc.evaluation()
            acc.state()
            acc.transition(cfg["n_iter"] if label == "ran" else 1)
            acc.outcome(label)
            if trace is not None:
                acc.nontriv(repr(trace))
            if cfg["n_iter"] == 5 and cfg["frac"] == 0.5 and cfg["power"] == 0.8 and cfg["count"] is None:
                acc.sample({"config": cfg, "weights_of_s_j_in_S_k": [list(t) for t in trace]})
            for sig, msg in problems:
                acc.violation(sig, msg, dict(cfg, kind="probe"))
    else:
        run_real(acc, *shard["args"])
    return acc.to_dict()


def replay(case):
    if case.get("kind") == "real":
        acc = Acc()
        run_real(acc, case["model"], case["n_iter"], case["frac"], case["power"], case.get("annealing"))
        return [{"signature": v["signature"], "message": v["message"]} for v in acc.violations.values()]
    cfg = {k: case[k] for k in ("n_iter", "frac", "count", "power", "route", "annealing") if k in case}
    if isinstance(cfg["power"], str):  # NaN / inf are stored as text in JSON
        cfg["power"] = float(cfg["power"])
    _, trace, problems = run_config(cfg)
    return [{"signature": s, "message": m} for s, m in problems]

"""C20 -- benchmark models implement their documented estimators.

E-GRID.  Two parts, both run through the public entry points (``model.fit / personalize / estimate``):

*constant*  (the anchored mechanism is also called directly on the unsorted rows - all public ingestion routes sort visits
            by age, so 'last BY AGE' is otherwise unobservable)  every visit history over a tiny value alphabet (with missing values, features never observed,
            visits entirely missing) x every input row order x the 4 prediction types x both ingestion modes
            (``drop_full_nan``), alone and inside mixed cohorts (padding).  Reference: ten lines of plain Python.
*lme*       a catalogue of univariate cohorts given by a closed-form formula of an integer index (Weyl
            sequences of sqrt(2), sqrt(3), sqrt(5), sqrt(7): no RNG), x {random intercept, + random slope,
            + independent random effects}.  The call of ``MixedLM.fit`` made by leaspy is *recorded* (never
            altered).  Oracles: what leaspy handed to statsmodels is the observed data; what it stored is the
            fitted result; personalised random effects of the training individuals equal statsmodels'
            ``random_effects`` of that very fit; for all individuals (training and unseen) they solve the
            float64 normal equations ``(Z'Z + Psi^-1) b = Z' r``; trajectories are affine in age and equal
            ``X (beta + b)``.
"""

from __future__ import annotations

import contextlib
import io
import itertools
import math
import os

import numpy as np
import pandas as pd

import leaspy.models  # noqa: F401  (before any leaspy.variables import)
from leaspy.exceptions import LeaspyDataInputError
from leaspy.io.data import Data
from leaspy.models import ConstantModel, LMEModel

from ..core import Acc, CaseTimeout, time_limit

ID = "C20"
LEVEL = "exploration"
RULE = (
    "constant part: complete enumeration of (visit table over the value alphabet incl. missing, row order = "
    "assignment of distinct ages to rows, prediction type, drop_full_nan) - each executed alone and inside mixed "
    "cohorts, plus a direct call of the estimator on the rows as given; a history is distinct by (features, visits, alphabet, table, order) and NON-TRIVIAL when the four "
    "documented estimators do not all give the same answer on it (the same table on another age set is another history) (otherwise a wrong estimator cannot be seen). "
    "LME part: complete enumeration of (cohort index, random slope?, independent random effects?); a case is "
    "distinct by that triple and non-trivial when the fit is accepted and the estimated shrinkage is material "
    "(some individual's random effects differ by > 1e-3 from the unshrunk per-individual solution)"
)
ASSUMPTIONS = [
    "value alphabet {0.1, 0.5, 0.9, missing} (thorough, larger shapes: {0.1, 0.9, missing}); visit ages are distinct binary fractions "
    "(ties are refused by ingestion, C14); <= 3 visits x <= 2 features in the quick tier; age alphabets: every sorted sign pattern of the visit "
    "ages (all positive, all negative, ending at exactly 0, -0+, --+ through ingestion; additionally 0++, -++ and magnitudes 1e-30, 1e30, "
    "mixed-sign extremes in the direct call of the estimator); drop_full_nan=True is crossed with the positive age set only (the rule ignores ages)",
    "requested ages: before / between / at / after the visits, repeated and unsorted; request forms: list, numpy array, one-element list, scalar",
    "visits whose features are ALL missing are removed by the default ingestion (drop_full_nan=True, documented): the reference "
    "applies that rule; with drop_full_nan=False they count as visits",
    "LME cohorts: 4-6 individuals x 2-4 visits from a closed-form formula of the index, 3 noise levels, unsorted rows, ~1/7 missing values; "
    "fits refused as singular (LeaspyDataInputError, documented) are expected outcomes",
    "the age normalisation constants are taken as stored by the fit (any affine normalisation is admissible); consistency of their use in "
    "fit inputs, personalisation and estimation is what is checked",
    "the fitted variance components are taken as given (the property's wording): no second, independent optimiser run is compared - on "
    "cohorts this small two MixedLM runs on inputs differing by 1e-7 end in different local optima of the REML criterion; instead the "
    "data handed to the reference library are checked against the observed table",
    "float32 storage of ages/values by Dataset is taken as given: formula oracles are backward-error (normal equations) checks or "
    "use condition-number scaled tolerances",
    "PYTHONHASHSEED=0, single thread; statsmodels 0.15 MixedLM is the reference mixed-model library",
]

EPS32 = float(np.finfo(np.float32).eps)

# ------------------------------------------------------------------------------------------------
# constant model
# ------------------------------------------------------------------------------------------------

# "n3": negative values only (z-scores): a missing entry is not a 0
ALPHABETS = {"a4": [0.1, 0.5, 0.9, None], "a3": [0.1, 0.9, None], "n3": [-0.9, -0.1, None]}
# Age alphabets ("pools": a history with nv visits uses sorted(pool[:nv])).  Ages need not be positive (time axes relative to a
# diagnosis / baseline): every sorted sign pattern (-,0,+) is present, plus extreme magnitudes for the direct call.
# All values of the sets that go through ingestion are binary fractions (exact in float32, untouched by the 6-digit age rounding).
AGE_POOLS = {
    "pos": [70.25, 71.5, 73.0, 75.75],        # + + + +
    "neg": [-5.5, -3.0, -1.25, -0.5],         # - - - -
    "nonpos": [0.0, -1.5, -3.0, -4.5],        # - - - 0   (last visit at exactly 0)
    "straddle0": [0.0, -2.0, 1.5, 3.25],      # - 0 + +
    "straddle": [2.0, -1.0, -3.5, 4.5],       # - - + +
    "zero_first": [0.0, 1.5, 3.25, 5.0],      # 0 + + +
    "neg_first": [-1.0, 2.0, 4.5, 6.0],       # - + + +
    "tiny": [1e-30, 2e-30, 3e-30, 4e-30],
    "huge": [1e30, 2e30, 3e30, 3.25e30],
    "mixed": [1e-30, -1e30, 1e30, -1e-30],
}
ASETS_ALL = list(AGE_POOLS)
ASETS_INGESTED = ["pos", "neg", "nonpos", "straddle0", "straddle"]  # through Data.from_dataframe -> personalize -> estimate
VISIT_AGES = AGE_POOLS["pos"]
PTYPES = ["last", "last-known", "max", "mean"]
FEATS = ["A", "B", "C"]
REQUEST = [69.0, 70.875, 71.5, 80.0, 80.0, 69.0, 72.25]  # before, between, at a visit, after, repeated, unsorted
REQUEST_FORMS = ["list", "array", "single", "scalar"]


_PERMS = {}


def _perms(nv):
    if nv not in _PERMS:
        _PERMS[nv] = list(itertools.permutations(range(nv)))
    return _PERMS[nv]


def n_tables(nf, nv, alpha):
    return len(ALPHABETS[alpha]) ** (nf * nv)


def request_for(aset):
    """Requested ages relative to the age set: before, between, at a visit, after, repeated, unsorted."""
    S = sorted(AGE_POOLS[aset])
    return [S[0] - 1.25, (S[0] + S[1]) / 2, S[1], S[3] + 4.25, S[3] + 4.25, S[0] - 1.25, (S[1] + S[2]) / 2]


def make_history(nf, nv, alpha, table, perm_index, aset="pos"):
    """History number (table, perm_index) of the space (nf features, nv visits, alphabet), on the age set `aset`."""
    a = ALPHABETS[alpha]
    digits = []
    t = table
    for _ in range(nf * nv):
        digits.append(t % len(a))
        t //= len(a)
    rows = [[a[digits[v * nf + f]] for f in range(nf)] for v in range(nv)]
    perm = _perms(nv)[perm_index]
    sorted_ages = sorted(AGE_POOLS[aset][:nv])
    ages = [sorted_ages[perm[r]] for r in range(nv)]
    return {"ages": ages, "rows": rows, "aset": aset, "key": f"{nf}{nv}{perm_index:02d}{alpha}{ASETS_ALL.index(aset):x}{table:010d}"}


def ref_constant(hist, ptype, drop_full_nan):
    """The documented estimators, in plain Python.  None = missing; returns None when the individual has no visit left."""
    visits = [(a, r) for a, r in zip(hist["ages"], hist["rows"]) if not (drop_full_nan and all(v is None for v in r))]
    if not visits:
        return None
    visits.sort(key=lambda ar: ar[0])
    out = []
    for f in range(len(visits[0][1])):
        col = [r[f] for _, r in visits]
        known = [v for v in col if v is not None]
        if ptype == "last":
            out.append(col[-1])
        elif not known:
            out.append(None)
        elif ptype == "last-known":
            out.append(known[-1])
        elif ptype == "max":
            out.append(max(known))
        else:
            out.append(sum(float(np.float32(v)) for v in known) / len(known))
    return out


def _is_nontrivial(hist):
    refs = [[None if v is None else round(v, 5) for v in ref_constant(hist, p, False)] for p in PTYPES]
    return any(r != refs[0] for r in refs[1:])


def _value_ok(obs, exp, ptype):
    """obs: number; exp: None (missing) or float."""
    obs = float(obs)
    if exp is None:
        return math.isnan(obs)
    if math.isnan(obs):
        return False
    if ptype == "mean":
        # float32 mean of <= 4 terms in [0, 1]: (n-1) additions + 1 division, each 1/2 ulp of a value <= sum|v| <= 4
        return abs(obs - exp) <= 4 * EPS32 * 4
    return obs == float(np.float32(exp))  # a stored observation is returned: exact


def _pattern(exp):
    return "".join("n" if v is None else "v" for v in exp)


def _make_request(form, request):
    if form == "list":
        return list(request)
    if form == "array":
        return np.array(request)
    if form == "single":
        return [request[2]]
    if form == "scalar":
        return request[3]
    raise ValueError(form)


def ingest(nf, hists, drop_full_nan, interleave=True):
    """The cohort's table through the public ingestion; returns the Data object or the exception it raised.
    (A Data object is read-only for personalize, which builds its own Dataset: the explorer shares it between the 4 prediction types.)"""
    ids = [f"p{i:03d}" for i in range(len(hists))]
    recs = []
    if interleave:  # unsorted input also across individuals: visit r of everybody, then visit r+1 ...
        for r in range(max(len(h["ages"]) for h in hists)):
            for i, h in enumerate(hists):
                if r < len(h["ages"]):
                    recs.append([ids[i], h["ages"][r]] + [np.nan if v is None else v for v in h["rows"][r]])
    else:
        for i, h in enumerate(hists):
            for a, row in zip(h["ages"], h["rows"]):
                recs.append([ids[i], a] + [np.nan if v is None else v for v in row])
    df = pd.DataFrame(recs, columns=["ID", "TIME"] + FEATS[:nf])
    try:
        return Data.from_dataframe(df, drop_full_nan=drop_full_nan)
    except Exception as e:  # noqa: BLE001 - judged by check_constant
        return e


def reloaded_parameters(ip, ext):
    """The individual parameters written to a file of the given kind and read back (what a user keeps between two sessions)."""
    import tempfile

    from leaspy.io.outputs import IndividualParameters as _IP

    with tempfile.TemporaryDirectory(dir="/var/tmp") as tmp:
        path = os.path.join(tmp, "ip." + ext)
        ip.save(path)
        return _IP.load(path)


def check_constant(nf, hists, ptype, drop_full_nan, forms, interleave=True, request=None, data=None):
    """Run ONE cohort (list of histories) through ConstantModel.personalize / estimate.

    Returns (per_history_outcomes, problems) where problems = [(index or None, signature, message, expected, observed)]."""
    ids = [f"p{i:03d}" for i in range(len(hists))]
    if data is None:
        data = ingest(nf, hists, drop_full_nan, interleave)
    refs = [ref_constant(h, ptype, drop_full_nan) for h in hists]
    request = list(REQUEST) if request is None else list(request)
    outcomes = [None] * len(hists)
    problems = []
    site = "constant.personalize"
    try:
        model = ConstantModel("constant")
        if isinstance(data, Exception):
            raise data
        ip = model.personalize(data, "constant_prediction", prediction_type=ptype)
    except LeaspyDataInputError as e:
        if all(r is None for r in refs):  # nothing left after the documented removal of empty visits: refusal expected
            return [f"const:refused:{type(e).__name__}"] * len(hists), problems
        problems.append((None, f"{site}|{type(e).__name__}|{ptype}", f"refused a cohort with observed values: {e}", None, None))
        return outcomes, problems
    except Exception as e:  # noqa: BLE001 - implementation exception = violation
        problems.append((None, f"{site}|{type(e).__name__}|{ptype}", f"{type(e).__name__}: {e}", None, None))
        return outcomes, problems

    present = [i for i, r in enumerate(refs) if r is not None]
    got_ids = list(ip._indices)
    if sorted(got_ids) != sorted(ids[i] for i in present):
        problems.append((None, f"{site}|individuals mismatch|{ptype}", "set of personalised individuals differs from the individuals having visits",
                         [ids[i] for i in present], got_ids))
        return outcomes, problems
    bad = set()
    for i in present:
        params = ip[ids[i]]
        if list(params.keys()) != FEATS[:nf]:
            problems.append((i, f"{site}|parameter names|{ptype}", "individual parameters are not the features, in order", FEATS[:nf], list(params.keys())))
            bad.add(i)
            continue
        for f in range(nf):
            if not _value_ok(params[FEATS[f]], refs[i][f], ptype):
                problems.append((i, f"{site}|value mismatch|{ptype}", f"feature {FEATS[f]}: documented '{ptype}' estimator differs",
                                 refs[i], [float(params[k]) for k in FEATS[:nf]]))
                bad.add(i)
                break
    # ---- estimate: the value is repeated at every requested age
    for form in forms:
        req = {ids[i]: _make_request(form, request) for i in present}
        n_req = {"list": len(request), "array": len(request), "single": 1, "scalar": 1}[form]
        try:
            est = model.estimate(req, ip)
        except Exception as e:  # noqa: BLE001
            feature = "scalar time-point" if form == "scalar" else f"{form} request"
            problems.append((present[0] if present else None, f"constant.estimate|{type(e).__name__}|{feature}", f"{type(e).__name__}: {e}", None, None))
            continue
        for i in present:
            if i in bad:
                continue
            arr = est[ids[i]]
            if not (isinstance(arr, np.ndarray) and arr.shape == (n_req, nf)):
                problems.append((i, f"constant.estimate|shape|{form} request", "estimate is not (n_timepoints, n_features)", [n_req, nf], list(np.shape(arr))))
                continue
            okv = all(_value_ok(arr[t, f], refs[i][f], ptype) for t in range(n_req) for f in range(nf))
            if not okv:
                problems.append((i, f"constant.estimate|value mismatch|{ptype}", f"prediction is not the '{ptype}' value at every requested age ({form} request)",
                                 refs[i], arr.tolist()))
                bad.add(i)
    # ---- the same individual parameters after a trip through a file (JSON, CSV): same predictions, same layout
    if present and "list" in forms and len(hists) <= 2:
        req = {ids[i]: list(request) for i in present}
        try:
            base = model.estimate(req, ip)
        except Exception:  # noqa: BLE001 - already reported above
            base = None
        for ext in ("json", "csv") if base is not None else ():
            try:
                est2 = model.estimate(req, reloaded_parameters(ip, ext))
            except Exception as e:  # noqa: BLE001
                problems.append((present[0], f"constant.estimate|{type(e).__name__}|individual parameters read back from a {ext} file", f"{type(e).__name__}: {e}", None, None))
                continue
            for i in present:
                a, b = np.asarray(base[ids[i]]), np.asarray(est2[ids[i]])
                if a.shape != b.shape or not np.array_equal(a, b, equal_nan=True):
                    problems.append((i, f"constant.estimate|prediction differs|individual parameters read back from a {ext} file",
                                     f"shape {list(b.shape)} instead of {list(a.shape)}" if a.shape != b.shape else "values differ", a.tolist(), b.tolist()))
                    break
    for i, r in enumerate(refs):
        outcomes[i] = "const:absent(no visit kept)" if r is None else f"const:{ptype}:{_pattern(r)}"
    return outcomes, problems


_ALGOS = {}


def check_mechanism(nf, hist, ptype):
    """The anchored mechanism itself, on the rows AS GIVEN (every public ingestion route sorts visits by age before the
    algorithm sees them, so only a direct call - the form used by the library's own unit test - exercises 'last by age')."""
    import torch

    from leaspy.algo import AlgorithmSettings
    from leaspy.algo.personalize import ConstantPredictionAlgorithm

    if ptype not in _ALGOS:
        _ALGOS[ptype] = ConstantPredictionAlgorithm(AlgorithmSettings("constant_prediction", prediction_type=ptype))
    times = torch.tensor(hist["ages"], dtype=torch.float32)
    values = np.array([[np.nan if v is None else v for v in row] for row in hist["rows"]], dtype=np.float32)
    ref = ref_constant(hist, ptype, False)
    site = "constant._get_individual_last_values"
    try:
        got = _ALGOS[ptype]._get_individual_last_values(times, values, features=FEATS[:nf])
    except Exception as e:  # noqa: BLE001
        return [(0, f"{site}|{type(e).__name__}|{ptype}", f"{type(e).__name__}: {e}", ref, None)]
    if list(got.keys()) != FEATS[:nf] or not all(_value_ok(got[FEATS[f]], ref[f], ptype) for f in range(nf)):
        return [(0, f"{site}|value mismatch|{ptype}", f"documented '{ptype}' estimator differs on unsorted rows (ages {hist['ages']})", ref, {k: float(v) for k, v in got.items()})]
    return []


def _const_case(nf, hists, ptype, drop, forms, focus=None, request=None):
    return {"part": "constant", "n_features": nf, "ptype": ptype, "drop_full_nan": drop, "forms": list(forms), "focus": focus,
            "request": list(REQUEST) if request is None else list(request),
            "histories": [{"ages": h["ages"], "rows": h["rows"]} for h in hists]}


def _record_constant(acc, nf, hists, ptype, drop, forms, request, outcomes, problems):
    for i, o in enumerate(outcomes):
        if o is not None:
            acc.outcome(o)
    for idx, sig, msg, exp, obs in problems:
        case = _const_case(nf, hists, ptype, drop, forms, focus=idx, request=request)
        if sig in acc.violations:  # already stored with a minimal (single-history) case: count only
            pass
        elif idx is not None and len(hists) > 1:
            # try to store the history alone (same code path); keep the cohort when it only fails in company
            _, p1 = check_constant(nf, [hists[idx]], ptype, drop, forms, request=request)
            if any(s == sig for _, s, *_ in p1):
                case = _const_case(nf, [hists[idx]], ptype, drop, forms, focus=0, request=request)
            else:
                sig = sig + "|only inside a cohort"
        acc.violation(sig, msg, case, expected=exp, observed=obs)


def _direct_all_agesets(acc, nf, nv, alpha, table, p):
    """The anchored estimator called directly, on every age set (sign patterns and magnitudes)."""
    for aset in ASETS_ALL:
        h = make_history(nf, nv, alpha, table, p, aset)
        if _is_nontrivial(h):
            acc.nontriv(h["key"])
        for ptype in PTYPES:
            acc.evaluation()
            for idx, sig, msg, exp, obs in check_mechanism(nf, h, ptype):
                acc.violation(sig, msg, dict(_const_case(nf, [h], ptype, False, [], focus=0), direct=True), expected=exp, observed=obs)


def _ingested_configs():
    """(age set, drop_full_nan): the removal of empty visits by ingestion does not look at ages, so it is crossed with 'pos' only."""
    return [(aset, drop) for aset in ASETS_INGESTED for drop in ((False, True) if aset == "pos" else (False,))]


def run_constant_singles(shard, acc):
    nf, nv, alpha = shard["nf"], shard["nv"], shard["alpha"]
    n_perm = math.factorial(nv)
    for table in range(shard["lo"], shard["hi"]):
        for p in range(n_perm):
            _direct_all_agesets(acc, nf, nv, alpha, table, p)
            for aset, drop in _ingested_configs():
                h = make_history(nf, nv, alpha, table, p, aset)
                request = request_for(aset)
                forms = REQUEST_FORMS if aset == "pos" else ["list"]
                data = ingest(nf, [h], drop)
                for ptype in PTYPES:
                    acc.evaluation()
                    outcomes, problems = check_constant(nf, [h], ptype, drop, forms, request=request, data=data)
                    _record_constant(acc, nf, [h], ptype, drop, forms, request, outcomes, problems)
                    if table % 16 == 6 and table < 32 and p == n_perm - 1 and ptype == "last-known" and aset in ("pos", "straddle0") and not drop:
                        acc.sample({"part": "constant", "alone": True, "ages": h["ages"], "rows": h["rows"], "ptype": ptype,
                                    "drop_full_nan": drop, "expected": ref_constant(h, ptype, drop)})


BATCH = 40


def run_constant_batches(shard, acc):
    """Histories of the main space in chunks of BATCH, accompanied by shorter histories (padding)."""
    nf, nv, alpha = shard["nf"], shard["nv"], shard["alpha"]
    n_perm = math.factorial(nv)
    total = n_tables(nf, nv, alpha) * n_perm
    for b in range(shard["lo"], shard["hi"]):
        main = list(range(b * BATCH, min(total, (b + 1) * BATCH)))
        for g in main:
            _direct_all_agesets(acc, nf, nv, alpha, g // n_perm, g % n_perm)
        for aset, drop in _ingested_configs():
            hists = [make_history(nf, nv, alpha, g // n_perm, g % n_perm, aset) for g in main]
            # companions with fewer visits, cycling through their complete spaces
            for c in range(6):
                cv = 1 + (c % (nv - 1)) if nv > 1 else 1
                tot_c = n_tables(nf, cv, alpha) * math.factorial(cv)
                g = (b * 6 + c) % tot_c
                hists.append(make_history(nf, cv, alpha, g // math.factorial(cv), g % math.factorial(cv), aset))
            request = request_for(aset)
            data = ingest(nf, hists, drop)
            for ptype in PTYPES:
                acc.evaluation(len(hists))
                outcomes, problems = check_constant(nf, hists, ptype, drop, ["list"], request=request, data=data)
                _record_constant(acc, nf, hists, ptype, drop, ["list"], request, outcomes, problems)
            if b % 50 == 1 and aset == "nonpos":
                h = hists[7]
                acc.sample({"part": "constant", "alone": False, "cohort_size": len(hists), "ages": h["ages"], "rows": h["rows"],
                            "expected": {p: ref_constant(h, p, False) for p in PTYPES}})



# ------------------------------------------------------------------------------------------------
# constant model: ONE model object personalised several times (E-HIST over the call history of the object)
# ------------------------------------------------------------------------------------------------

REUSE_HISTS = {  # 3 individuals whose features carry clearly different values (a mislabelled column always shows)
    2: [{"ages": [70.0, 72.5], "rows": [[0.1, 0.9], [0.5, None]]},
        {"ages": [71.0], "rows": [[None, 0.5]]},
        {"ages": [74.0, 69.0, 71.5], "rows": [[0.9, 0.1], [0.1, 0.5], [None, 0.9]]}],
    3: [{"ages": [70.0, 72.5], "rows": [[0.1, 0.9, 0.5], [0.5, None, 0.1]]},
        {"ages": [71.0], "rows": [[None, 0.5, 0.9]]},
        {"ages": [74.0, 69.0, 71.5], "rows": [[0.9, 0.1, None], [0.1, 0.5, 0.9], [None, 0.9, 0.5]]}],
}


def reuse_tables(nf):
    """Tables a ConstantModel object may see one after the other: every column order of the nf features and every
    non-empty strict subset (in catalogue order)."""
    out = [list(p) for p in itertools.permutations(range(nf))]
    for k in range(1, nf):
        out += [list(c) for c in itertools.combinations(range(nf), k)]
    return out


def reuse_sequences(nf, depth):
    tabs = reuse_tables(nf)
    for d in range(2, depth + 1):
        for seq in itertools.product(range(len(tabs)), repeat=d):
            yield [tabs[i] for i in seq]


def _reuse_frame(nf, cols):
    ids = [f"p{i:03d}" for i in range(len(REUSE_HISTS[nf]))]
    recs = []
    for i, h in enumerate(REUSE_HISTS[nf]):
        for a, row in zip(h["ages"], h["rows"]):
            recs.append([ids[i], a] + [np.nan if row[j] is None else row[j] for j in cols])
    return ids, pd.DataFrame(recs, columns=["ID", "TIME"] + [FEATS[j] for j in cols])


def check_constant_reuse(nf, seq, ptype):
    """The same ConstantModel object personalises the tables of `seq` one after the other; after EVERY call the individual
    parameters and the estimates must be the documented estimator of the table just given, feature by feature (what a new
    model object returns).  Returns (outcome label, problems=[(signature, message, expected, observed)])."""
    problems = []
    model = ConstantModel("constant")
    request = [69.0, 71.5, 80.0]
    for step, cols in enumerate(seq):
        names = [FEATS[j] for j in cols]
        ids, df = _reuse_frame(nf, cols)
        later = "first use of the object" if step == 0 else ("same features in another order" if sorted(cols) == sorted(seq[step - 1]) and cols != seq[step - 1]
                                                             else "same table again" if cols == seq[step - 1] else "other set of features")
        site = "constant.personalize[object already used]" if step else "constant.personalize"
        try:
            data = Data.from_dataframe(df, drop_full_nan=False)
            ip = model.personalize(data, "constant_prediction", prediction_type=ptype)
            est = model.estimate({i: list(request) for i in ids}, ip)
        except Exception as e:  # noqa: BLE001
            problems.append((f"{site}|{type(e).__name__}|{later}", f"{type(e).__name__}: {e} (tables so far {seq[:step + 1]})", None, None))
            return "reuse:exception", problems
        if list(model.features) != names:
            problems.append((f"{site}|model features are not the features of the table just personalised|{later}",
                             f"after tables {seq[:step + 1]}", names, list(model.features)))
        for k, i in enumerate(ids):
            h = REUSE_HISTS[nf][k]
            ref_all = ref_constant(h, ptype, False)
            ref = {FEATS[j]: ref_all[j] for j in cols}
            params = ip[i]
            if sorted(params.keys()) != sorted(names):
                problems.append((f"{site}|parameter names|{later}", f"individual {i} after tables {seq[:step + 1]}", names, list(params.keys())))
                break
            if not all(_value_ok(params[n], ref[n], ptype) for n in names):
                problems.append((f"{site}|value of a feature is not its documented '{ptype}' estimator|{later}",
                                 f"individual {i} after tables {seq[:step + 1]}", ref, {n: float(params[n]) for n in names}))
                break
            arr = est[i]
            if not (isinstance(arr, np.ndarray) and arr.shape == (len(request), len(names))):
                problems.append((f"constant.estimate[object already used]|shape|{later}", f"individual {i}", [len(request), len(names)], list(np.shape(arr))))
                break
            # columns of the estimate follow the features of the model (= of the table just given)
            if not all(_value_ok(arr[t, c], ref[n], ptype) for t in range(len(request)) for c, n in enumerate(names)):
                problems.append((f"constant.estimate[object already used]|column of a feature holds another feature's value|{later}" if step else
                                 f"constant.estimate|value mismatch|{ptype}", f"individual {i} after tables {seq[:step + 1]}", [ref[n] for n in names], arr.tolist()))
                break
        # the same constants handed over in ANOTHER key order (an IndividualParameters object built by hand, or obtained from a
        # table whose columns were ordered differently): a constant belongs to the feature it is named after
        if len(names) >= 2 and not problems:
            from leaspy.io.outputs import IndividualParameters as _IP

            ip_rev = _IP()
            for i in ids:
                ip_rev.add_individual_parameters(i, {n: ip[i][n] for n in reversed(names)})
            try:
                est_rev = model.estimate({i: list(request) for i in ids}, ip_rev)
            except Exception as e:  # noqa: BLE001
                problems.append((f"constant.estimate|{type(e).__name__}|individual parameters listed in another order than the model's features", f"{type(e).__name__}: {e}", None, None))
                return "reuse:exception", problems
            for i in ids:
                if not (np.asarray(est_rev[i]).shape == np.asarray(est[i]).shape and np.array_equal(np.asarray(est_rev[i]), np.asarray(est[i]), equal_nan=True)):
                    problems.append(("constant.estimate|column of a feature holds another feature's value|individual parameters listed in another order than the model's features",
                                     f"individual {i} after tables {seq[:step + 1]}", np.asarray(est[i]).tolist(), np.asarray(est_rev[i]).tolist()))
                    break
    return "reuse:" + ">".join("".join(FEATS[j] for j in cols) for cols in seq[-2:]), problems


def run_constant_reuse(shard, acc):
    nf, depth = shard["nf"], shard["depth"]
    for seq in reuse_sequences(nf, depth):
        for ptype in PTYPES:
            acc.evaluation()
            acc.nontriv(f"reuse{nf}{ptype}{seq}")
            outcome, problems = check_constant_reuse(nf, seq, ptype)
            acc.outcome(outcome)
            for sig, msg, exp, obs in problems:
                acc.violation(sig, msg, {"part": "constant-reuse", "n_features": nf, "sequence": seq, "ptype": ptype}, expected=exp, observed=obs)
            if not acc.samples and len(seq) == 2 and sorted(seq[0]) == sorted(seq[1]) and seq[0] != seq[1]:
                acc.sample({"part": "constant-reuse", "n_features": nf, "sequence": seq, "ptype": ptype, "outcome": outcome})


# ------------------------------------------------------------------------------------------------
# LME
# ------------------------------------------------------------------------------------------------

_IRR = (math.sqrt(2.0), math.sqrt(3.0), math.sqrt(5.0), math.sqrt(7.0))


def weyl(k, i, j):
    """Closed-form equidistributed value in [0, 1) of the integer triple (no generator state)."""
    x = (k + 1) * _IRR[0] + (i + 1) * _IRR[1] + (j + 1) * _IRR[2] + (i + 1) * (j + 1) * _IRR[3]
    return x - math.floor(x)


NOISE = [0.02, 0.08, 0.2]


def lme_cohort(k):
    """Cohort number k: (training rows, unseen rows); rows = (ID, age, value-or-NaN), unsorted.

    Ages are multiples of 1/8 and values multiples of 1/1024 (exact in float32)."""
    n_ind = 4 + k % 3
    amp = NOISE[(k // 3) % 3]

    def individual(label, i, n_vis, allow_missing=True):
        b0 = 0.5 + 0.3 * (2 * weyl(k, i, 0) - 1)
        b1 = 0.05 + 0.04 * (2 * weyl(k, i, 1) - 1)
        age = 60 + 10 * weyl(k, i, 2)
        rows = []
        for j in range(n_vis):
            if j:
                age += 0.8 + 0.7 * weyl(k, i, 3 + j)
            y = b0 + b1 * (age - 65) + amp * (2 * weyl(k, i, 10 + j) - 1)
            a_r, y_r = round(age * 8) / 8, round(y * 1024) / 1024
            if allow_missing and j > 0 and (k + 2 * i + 3 * j) % 7 == 0:
                y_r = float("nan")
            rows.append((label, a_r, y_r))
        return rows

    train = []
    for i in range(n_ind):
        train += individual(f"s{i}", i, 2 + (k + i) % 3)
    unseen = individual("u0", 20, 1, False) + individual("u1", 21, 2 + k % 3) + individual("u2", 22, 4)
    # one unseen individual is given a missing value in the middle
    unseen = [(s, a, float("nan")) if (s == "u2" and n == len(unseen) - 2) else (s, a, y) for n, (s, a, y) in enumerate(unseen)]
    # two more unseen individuals on the very same visit schedule as u2 (a trial-like protocol), with other values and other
    # missing-value patterns: the conditional mean of each one is computed from ITS observed visits
    ages_u2 = [a for (s, a, _) in unseen if s == "u2"]
    for label, seed_i, missing_at in (("u3", 23, ()), ("u4", 24, (0, 2))):
        rows = individual(label, seed_i, 4, False)
        unseen += [(label, a, float("nan") if j in missing_at else y) for j, (a, (_, _, y)) in enumerate(zip(ages_u2, rows))]
    order = sorted(range(len(train)), key=lambda r: weyl(k, r, 30))
    train = [train[r] for r in order]
    both = train + unseen
    order = sorted(range(len(both)), key=lambda r: weyl(k, r, 31))
    return train, [both[r] for r in order]


LME_CONFIGS = [
    {"slope": False, "indep": False},
    {"slope": True, "indep": False},
    {"slope": True, "indep": True},
]
# other optimisers of the reference library (keyword arguments forwarded to MixedLM.fit).  'powell' / 'nm' are documented
# (warning) as not honouring force_independent_random_effects: the fitted covariance may then be full, and the personalised
# random effects must still be the conditional means given THAT fitted covariance.  Run on the first cohorts only (slower).
LME_CONFIGS_METHOD = [
    # the fitted model saved and loaded back before it personalises / estimates (every option must come back with it)
    {"slope": False, "indep": False, "reload": True},
    {"slope": True, "indep": False, "reload": True},
    {"slope": True, "indep": True, "method": ["powell"]},
    {"slope": True, "indep": False, "method": ["powell"]},
    {"slope": False, "indep": False, "method": ["nm"]},
    # ONE model object: calibrated on another cohort, used (personalize + estimate), then calibrated on this cohort
    {"slope": False, "indep": False, "used_before": True},
    {"slope": True, "indep": False, "used_before": True},
]
N_METHOD_COHORTS = {"quick": 6, "thorough": 40}

RECORD = []


@contextlib.contextmanager
def recording_mixedlm():
    """Record the model leaspy builds and the result statsmodels returns; alter nothing."""
    import leaspy.algo.fit.lme_fit as lf

    base = lf.MixedLM

    class RecordingMixedLM(base):
        def fit(self, *a, **kw):
            try:
                res = super().fit(*a, **kw)
            except BaseException as e:
                RECORD.append((self, e))
                raise
            RECORD.append((self, res))
            return res

    del RECORD[:]
    lf.MixedLM = RecordingMixedLM
    try:
        yield RECORD
    finally:
        lf.MixedLM = base


def _frame(rows):
    return pd.DataFrame(rows, columns=["ID", "TIME", "Y"])


def _sm_re_vector(series, slope):
    v = np.asarray(series.values, dtype=float)
    return v if slope else v[:1]


def check_lme(k, cfg):
    """Returns (outcome, nontrivial, problems, info); problems = [(signature, message, expected, observed)]."""

    slope, indep = cfg["slope"], cfg["indep"]
    method = cfg.get("method")
    tag = "slope" if slope else "intercept-only"
    if indep:
        tag += "+independent"
    if method:
        tag += "+method=" + ",".join(method)
    if cfg.get("reload"):
        tag += ", model saved and loaded back"
    fit_kw = {"method": list(method)} if method else {}
    train, everyone = lme_cohort(k)
    problems = []
    info = {"k": k, "n_train_rows": len(train)}

    # ---------------- fit (real entry point), recorded
    model = LMEModel("lme", with_random_slope_age=slope)
    if cfg.get("used_before"):
        tag += ", object calibrated and used before on another cohort"
        other_train, _ = lme_cohort(k + 7)
        try:
            other = Data.from_dataframe(_frame(other_train), drop_full_nan=False)
            with contextlib.redirect_stdout(io.StringIO()):
                model.fit(other, "lme_fit", force_independent_random_effects=indep)
                ip0 = model.personalize(other, "lme_personalize")
                first = ip0._indices[0]
                model.estimate({first: [61.5, 70.25, 78.0]}, ip0)
        except Exception:  # noqa: BLE001 - the history itself is judged where cohort k + 7 is the subject
            return f"lme:{tag}:history not available", False, problems, info
    with recording_mixedlm() as rec:
        try:
            model.fit(Data.from_dataframe(_frame(train), drop_full_nan=False), "lme_fit", force_independent_random_effects=indep, **fit_kw)
        except LeaspyDataInputError as e:
            if "singular" in str(e):
                return f"lme:{tag}:refused singular covariance", False, problems, info
            problems.append((f"lme.fit|{type(e).__name__}|{tag}", str(e), None, None))
            return None, False, problems, info
        except Exception as e:  # noqa: BLE001
            if rec and rec[-1][1] is e:  # raised inside the reference library's own optimiser: not leaspy's estimator
                return f"lme:{tag}:reference library failed to fit ({type(e).__name__})", False, problems, info
            problems.append((f"lme.fit|{type(e).__name__}|{tag}", f"{type(e).__name__}: {e}", None, None))
            return None, False, problems, info
        if len(rec) != 1:
            raise RuntimeError(f"recording seam saw {len(rec)} MixedLM.fit calls (expected exactly 1)")
        sm_model, res = rec[0]
    if cfg.get("reload"):
        import tempfile

        from leaspy.models import BaseModel

        with tempfile.TemporaryDirectory(dir="/var/tmp") as tmp:
            path = os.path.join(tmp, "lme.json")
            try:
                model.save(path)
                model = BaseModel.load(path)
            except Exception as e:  # noqa: BLE001
                problems.append((f"lme.save+load|{type(e).__name__}|{tag}", f"{type(e).__name__}: {e}", None, None))
                return None, False, problems, info
    P = model.parameters
    mu, sd = float(P["ages_mean"]), float(P["ages_std"])
    beta = np.asarray(res.fe_params, dtype=float)
    scale = float(res.scale)
    cov_re = np.atleast_2d(np.asarray(res.cov_re, dtype=float))
    psi = cov_re / scale
    cond_psi = float(np.linalg.cond(psi))
    info.update(cond_cov_re=cond_psi, scale=scale, converged=bool(res.converged))

    # ---------------- (A) what was handed to the reference library is the observed data
    obs = [(s, a, y) for (s, a, y) in train if not math.isnan(y)]
    if not (math.isfinite(mu) and math.isfinite(sd) and sd > 0 and min(a for _, a, _ in obs) <= mu <= max(a for _, a, _ in obs)):
        problems.append((f"lme.fit|age normalisation unusable|{tag}", "ages_mean / ages_std are not a location inside the age range and a positive scale",
                         None, [mu, sd]))
        return None, False, problems, info
    want = sorted((s, (a - mu) / sd, y) for s, a, y in obs)
    got = sorted(zip([str(g) for g in np.asarray(sm_model.groups)], np.asarray(sm_model.exog)[:, 1].astype(float), np.asarray(sm_model.endog).astype(float)))
    # float32 normalisation of ages ~70 with std ~3: |error| <= eps32 * 70 / sd * 2 ~ 1e-5 ; values are exact
    same = len(want) == len(got) and all(w[0] == g[0] and abs(w[1] - g[1]) <= 2e-5 and abs(w[2] - g[2]) <= 1e-7 for w, g in zip(want, got))
    if not same or not np.all(np.asarray(sm_model.exog)[:, 0] == 1):
        problems.append((f"lme.fit|data handed to MixedLM differ from the observed table|{tag}",
                         "(subject, normalised age, value) triples given to statsmodels are not the non-missing observations", want[:6], got[:6]))
    k_re = 2 if slope else 1
    if sm_model.k_re != k_re or psi.shape != (k_re, k_re):
        problems.append((f"lme.fit|random-effects structure|{tag}", "number of random effects differs from the model's setting", k_re, sm_model.k_re))
        return None, False, problems, info
    if slope and not np.allclose(np.asarray(sm_model.exog_re), np.asarray(sm_model.exog)):
        problems.append((f"lme.fit|random-effects design is not [1, age]|{tag}", "exog_re differs from exog", None, None))
    honoured = not (method and {"powell", "nm"} & set(method))  # documented: these optimisers ignore the constraint
    if indep and honoured and abs(cov_re[0, 1]) > 1e-12 * max(1.0, abs(cov_re).max()):
        problems.append((f"lme.fit|random effects not independent although forced|{tag}", "off-diagonal covariance is not 0", 0.0, float(cov_re[0, 1])))

    # ---------------- (B) what is stored is the fitted result
    def close(a, b, rtol):
        a, b = np.asarray(a, dtype=float), np.asarray(b, dtype=float)
        return a.shape == b.shape and bool(np.all(np.abs(a - b) <= rtol * (np.abs(b).max() + 1e-300)))

    for name, value in (("fe_params", beta), ("cov_re", cov_re), ("noise_std", math.sqrt(scale))):
        if not close(np.atleast_1d(P[name]) if name != "cov_re" else np.atleast_2d(P[name]), np.atleast_1d(value) if name != "cov_re" else value, 1e-12):
            problems.append((f"lme.fit|stored parameter differs from the fitted result|{name}", f"model.parameters['{name}'] is not statsmodels' estimate",
                             np.asarray(value).tolist(), np.asarray(P[name]).tolist()))
    psi_inv_stored = np.atleast_2d(np.asarray(P["cov_re_unscaled_inv"], dtype=float))
    # inverse of a matrix with condition number c in float64: relative error <= ~ c * eps64 * small constant
    if psi_inv_stored.shape != psi.shape or not np.all(np.abs(psi_inv_stored @ psi - np.eye(k_re)) <= 1e-13 * cond_psi * 100 + 1e-12):
        problems.append((f"lme.fit|stored parameter differs from the fitted result|cov_re_unscaled_inv",
                         "cov_re_unscaled_inv @ (cov_re / scale) is not the identity", np.linalg.inv(psi).tolist(), psi_inv_stored.tolist()))
    psi_inv = np.linalg.inv(psi)

    # ---------------- personalise everybody (training + unseen individuals, other row order)
    try:
        ip = model.personalize(Data.from_dataframe(_frame(everyone), drop_full_nan=False), "lme_personalize")
    except Exception as e:  # noqa: BLE001
        problems.append((f"lme.personalize|{type(e).__name__}|{tag}", f"{type(e).__name__}: {e}", None, None))
        return None, False, problems, info
    subjects = sorted({s for s, _, _ in everyone})
    if sorted(ip._indices) != subjects:
        problems.append((f"lme.personalize|individuals mismatch|{tag}", "personalised individuals differ from the table's", subjects, list(ip._indices)))
        return None, False, problems, info
    names = ["random_intercept"] + (["random_slope_age"] if slope else [])
    sm_re = res.random_effects
    b_of = {}
    material = False
    for s in subjects:
        params = ip[s]
        if sorted(params.keys()) != sorted(names):
            problems.append((f"lme.personalize|parameter names|{tag}", "unexpected individual parameter names", names, list(params.keys())))
            continue
        b = np.array([float(params[n]) for n in names])
        b_of[s] = b
        o = [(a, y) for (ss, a, y) in everyone if ss == s and not math.isnan(y)]
        Z = np.array([[1.0, (a - mu) / sd] for a, _ in o])
        r = np.array([y for _, y in o]) - Z @ beta
        Zr = Z[:, :k_re]
        M = Zr.T @ Zr + psi_inv
        c = Zr.T @ r
        kind = "training individual" if s.startswith("s") else "unseen individual"
        # (C) backward-error check of the documented formula (conditioning-independent).  leaspy normalises float32 ages: relative
        #     perturbation of Z below delta = 1e-5 (observed ~1e-7).  First order, with |dZ| <= delta |Z|:
        #     |d(Z'Z b - Z'(y - Z beta))| <= delta (2 |Z'||Z||b| + |Z'||r| + |Z'||Z||beta|); the Psi^-1 b term carries the float64
        #     error of inverting Psi (relative cond * eps64).  A forward bound follows from it (|b - b_ref| <= |M^-1| |M b - c|).
        delta = 1e-5
        aZ = np.abs(Zr)
        lhs = M @ b
        tol = delta * (2 * aZ.T @ (aZ @ np.abs(b)) + aZ.T @ np.abs(r) + aZ.T @ (np.abs(Z) @ np.abs(beta))) \
            + 1e-13 * cond_psi * (np.abs(psi_inv) @ np.abs(b)) + 1e-13
        cond_m = float(np.linalg.cond(M))
        b_ref = np.linalg.solve(M, c)
        if not np.all(np.abs(lhs - c) <= tol):
            problems.append((f"lme.personalize|random effects do not solve (Z'Z + Psi^-1) b = Z' r|{kind}, {tag}",
                             f"{s}: normal-equation residual {np.abs(lhs - c).tolist()} above {tol.tolist()}", b_ref.tolist(), b.tolist()))
        # (D) statsmodels' conditional means of that very fit (same float64 inputs; both invert cov_re and a k_re x k_re system)
        if s in sm_re:
            b_sm = _sm_re_vector(sm_re[s], True)[:k_re]
            tol_sm = 1e-6 * np.abs(b_sm).max() + 1e-13 * cond_m * cond_psi * (np.abs(b_sm).max() + 1e-3)
            info["sm_tight" if tol_sm <= 1e-5 * (np.abs(b_sm).max() + 1e-3) else "sm_loose"] = info.get("sm_tight" if tol_sm <= 1e-5 * (np.abs(b_sm).max() + 1e-3) else "sm_loose", 0) + 1
            if not np.all(np.abs(b - b_sm) <= tol_sm):
                problems.append((f"lme.personalize|differs from statsmodels random_effects of the same fit|{tag}", f"{s}", b_sm.tolist(), b.tolist()))
        elif s.startswith("s"):
            problems.append((f"lme.fit|training individual unknown to the reference fit|{tag}", s, None, sorted(map(str, sm_re))))
        # shrinkage is material for this individual?
        if len(o) >= k_re:
            b_free = np.linalg.lstsq(Zr, r, rcond=None)[0]
            material = material or bool(np.abs(b_free - b_ref).max() > 1e-3)
        else:
            material = True

    # ---------------- (E) trajectories: affine in age and equal to X (beta + b)
    grid = [58.0, 61.5, 65.0, 68.5, 72.0]  # equally spaced: second differences must vanish
    extra = [90.0, 61.5, 40.0]  # outside the observed range, repeated, unsorted
    req = {}
    for n, s in enumerate(subjects):
        ages = grid + extra
        req[s] = ages if n % 3 == 0 else (np.array(ages) if n % 3 == 1 else tuple(ages))
    # one float64 array of ages shared by two subjects of the request (a common grid): it is the caller's, it stays as it is
    shared_grid = np.array(grid + extra, dtype=np.float64)
    if len(subjects) >= 2:
        req[subjects[-1]] = shared_grid
        req[subjects[-2]] = shared_grid
    try:
        est = model.estimate(req, ip)
        est_scalar = model.estimate({subjects[0]: 66.25}, ip)
    except Exception as e:  # noqa: BLE001
        problems.append((f"lme.estimate|{type(e).__name__}|{tag}", f"{type(e).__name__}: {e}", None, None))
        return None, False, problems, info
    if not np.array_equal(shared_grid, np.array(grid + extra, dtype=np.float64)):
        problems.append((f"lme.estimate|modifies the caller's array of ages|{tag}", "a float64 array shared by two subjects of the request", (grid + extra), shared_grid.tolist()))
        for s_ in subjects[-2:]:
            req[s_] = list(grid + extra)
    # the same individual parameters after a trip through a file (JSON, CSV): same trajectories
    for ext in ("json", "csv"):
        try:
            est2 = model.estimate(req, reloaded_parameters(ip, ext))
        except Exception as e:  # noqa: BLE001
            problems.append((f"lme.estimate|{type(e).__name__}|individual parameters read back from a {ext} file", f"{type(e).__name__}: {e}", None, None))
            continue
        for s in subjects:
            a, b = np.asarray(est[s], dtype=float), np.asarray(est2[s], dtype=float)
            if a.shape != b.shape or not np.all(np.abs(a - b) <= 1e-6 * (1 + np.abs(a))):
                problems.append((f"lme.estimate|trajectory differs|individual parameters read back from a {ext} file", s, a.tolist(), b.tolist()))
                break
    for s in subjects:
        if s not in b_of:
            continue
        ages = np.array(grid + extra)
        arr = np.asarray(est[s])
        if arr.shape != (len(ages), 1):
            problems.append((f"lme.estimate|shape|{tag}", "estimate is not (n_timepoints, 1)", [len(ages), 1], list(arr.shape)))
            continue
        y = arr[:, 0].astype(float)
        full_b = np.array([b_of[s][0], b_of[s][1] if slope else 0.0])
        X = np.stack([np.ones_like(ages), (ages - mu) / sd], axis=1)
        y_ref = X @ (beta + full_b)
        # float32 output + float64 arithmetic on O(1)..O(10) normalised ages
        if not np.all(np.abs(y - y_ref) <= 1e-5 * (1 + np.abs(X) @ np.abs(beta + full_b))):
            problems.append((f"lme.estimate|trajectory differs from X (beta + b)|{tag}", s, y_ref.tolist(), y.tolist()))
        d2 = y[:3] - 2 * y[1:4] + y[2:5]
        if not np.all(np.abs(d2) <= 4 * EPS32 * np.abs(y[:5]).max() + 1e-9):
            problems.append((f"lme.estimate|trajectory not affine in age|{tag}", f"{s}: second differences {d2.tolist()}", 0.0, d2.tolist()))
        if not (y[1] == y[6]):
            problems.append((f"lme.estimate|repeated age gives another value|{tag}", s, float(y[1]), float(y[6])))
        if not slope:
            # intercept-only: everybody shares the fixed slope
            sl = (y[4] - y[0]) / (grid[4] - grid[0])
            if abs(sl - beta[1] / sd) > 1e-5 * (abs(beta[1] / sd) + 1e-2):
                problems.append((f"lme.estimate|individual slope differs from the fixed slope|{tag}", s, beta[1] / sd, sl))
    s0 = subjects[0]
    if s0 in b_of:
        ysc = np.asarray(est_scalar[s0], dtype=float).reshape(-1)
        full_b = np.array([b_of[s0][0], b_of[s0][1] if slope else 0.0])
        ref = float(np.array([1.0, (66.25 - mu) / sd]) @ (beta + full_b))
        if ysc.shape != (1,) or abs(ysc[0] - ref) > 1e-5 * (1 + abs(ref)):
            problems.append((f"lme.estimate|scalar time-point|{tag}", s0, ref, ysc.tolist()))

    # ---------------- (F) an individual without any observed value: conditional mean = prior mean = 0
    lone = [("v0", 66.0, float("nan")), ("v0", 67.5, float("nan"))] + [(s, a, y) for (s, a, y) in everyone if s == "u1"]
    try:
        ip2 = model.personalize(Data.from_dataframe(_frame(lone), drop_full_nan=False), "lme_personalize")
        b0 = np.array([float(ip2["v0"][n]) for n in names])
        if not np.all(np.abs(b0) <= 1e-12):
            problems.append((f"lme.personalize|non-zero random effects without data|{tag}", "v0 has no observed value", [0.0] * k_re, b0.tolist()))
        b1 = np.array([float(ip2["u1"][n]) for n in names])
        if "u1" in b_of and not np.array_equal(b1, b_of["u1"]):
            problems.append((f"lme.personalize|result depends on the other individuals|{tag}", "u1 personalised in two cohorts", b_of["u1"].tolist(), b1.tolist()))
    except Exception as e:  # noqa: BLE001
        problems.append((f"lme.personalize|{type(e).__name__}|individual without any observed value", f"{type(e).__name__}: {e}", [0.0] * k_re, None))

    outcome = f"lme:{tag}:noise{NOISE[(k // 3) % 3]}:" + ("converged" if res.converged else "not-converged") + (":near-boundary" if cond_psi >= 1e3 else "")
    return outcome, material, problems, info


def run_lme(shard, acc):
    for k in shard["ks"]:
        for c_i, cfg in enumerate(LME_CONFIGS + (LME_CONFIGS_METHOD if k in shard.get("method_ks", []) else [])):
            acc.evaluation()
            try:
                with time_limit(180):
                    outcome, material, problems, info = check_lme(k, cfg)
            except CaseTimeout:
                acc.cap(f"LME cohort {k} {cfg}: no answer within 180 s (optimiser of the reference library)")
                continue
            if outcome is not None:
                acc.outcome(outcome)
                acc.count("lme fits accepted" if "refused" not in outcome and "failed" not in outcome else "lme fits refused")
            acc.count("lme training individuals compared with statsmodels random_effects at <= 1e-5 relative", info.get("sm_tight", 0))
            acc.count("lme training individuals compared with a conditioning-widened tolerance", info.get("sm_loose", 0))
            if material:
                acc.nontriv(f"L{k:011d}{int(cfg['slope'])}{int(cfg['indep'])}xx" + ("".join(cfg["method"]) if cfg.get("method") else "") + ("r" if cfg.get("reload") else ""))
            for sig, msg, exp, obs in problems:
                acc.violation(sig, msg, {"part": "lme", "k": k, "slope": cfg["slope"], "indep": cfg["indep"], "method": cfg.get("method"), "reload": cfg.get("reload", False),
                                         "training_rows_info": lme_cohort(k)[0]}, expected=exp, observed=obs)
            if k % 10 == 1 and c_i == 1:
                acc.sample({"part": "lme", "k": k, "config": cfg, "training_rows": lme_cohort(k)[0][:6], "info": info, "outcome": outcome})


# ------------------------------------------------------------------------------------------------
# contract
# ------------------------------------------------------------------------------------------------

def _spaces(tier):
    singles = [(1, 1, "a4"), (1, 2, "a4"), (2, 1, "a4"), (2, 2, "a4"), (1, 2, "n3"), (2, 2, "n3")]
    batches = [(2, 3, "a4"), (1, 3, "a4")]
    if tier == "thorough":
        singles += [(1, 3, "a4"), (3, 1, "a4"), (2, 3, "a3")]
        batches += [(3, 3, "a3"), (2, 4, "a3"), (3, 2, "a4")]
    return singles, batches


def _lme_indices(tier, seed):
    n = 40 if tier == "quick" else 400
    ks = list(range(n))
    extra = 100000 + int(seed)
    if extra not in ks:
        ks.append(extra)
    return ks


def bounds(tier):
    singles, batches = _spaces(tier)
    return {
        "constant_alone": [f"{nf} feature(s) x {nv} visit(s), alphabet {ALPHABETS[a]}, all tables x all row orders x 4 types x (age set, drop_full_nan) in {_ingested_configs()} x request forms (4 on 'pos', list elsewhere)"
                           for nf, nv, a in singles],
        "constant_in_cohorts": [f"{nf} feature(s) x {nv} visits, alphabet {ALPHABETS[a]}, all tables x all row orders x 4 types x (age set, drop_full_nan) in {_ingested_configs()}, cohorts of {BATCH}+6"
                                for nf, nv, a in batches],
        "constant_direct_call": f"every history above x age sets {ASETS_ALL} x 4 types through _get_individual_last_values on the rows as given",
        "constant_object_reuse": "one ConstantModel object personalised 2..3 times in a row (2 features: every sequence of the 4 tables = 2 column orders + "
                                 "2 single-feature subsets; 3 features: every sequence of the 12 tables = 6 orders + 6 subsets, length 2"
                                 + (" and 3" if tier == "thorough" else "") + ") x 4 types; parameters and estimates checked after every call",
        "lme": f"cohort indices 0..{(40 if tier == 'quick' else 400) - 1} and 100000+seed x {LME_CONFIGS}; cohorts 0..{N_METHOD_COHORTS[tier] - 1} also x {LME_CONFIGS_METHOD}",
    }


def shards(tier, seed):
    out = []
    singles, batches = _spaces(tier)
    for nf, nv, alpha in singles:
        nt = n_tables(nf, nv, alpha)
        step = max(1, 400 // (8 * math.factorial(nv)))  # ~400 personalize calls (a few seconds) per shard
        for lo in range(0, nt, step):
            out.append({"kind": "const_single", "nf": nf, "nv": nv, "alpha": alpha, "lo": lo, "hi": min(nt, lo + step)})
    # one ConstantModel object personalised 2..depth times in a row with every column order / subset of the features
    out.append({"kind": "const_reuse", "nf": 2, "depth": 3})
    out.append({"kind": "const_reuse", "nf": 3, "depth": 2 if tier == "quick" else 3})
    ks = _lme_indices(tier, seed)
    for lo in range(0, len(ks), 10):
        out.append({"kind": "lme", "ks": ks[lo:lo + 10], "method_ks": [k for k in ks[lo:lo + 10] if k < N_METHOD_COHORTS[tier]]})
    for nf, nv, alpha in batches:
        nb = -(-n_tables(nf, nv, alpha) * math.factorial(nv) // BATCH)
        step = 20
        for lo in range(0, nb, step):
            out.append({"kind": "const_batch", "nf": nf, "nv": nv, "alpha": alpha, "lo": lo, "hi": min(nb, lo + step)})
    return out


def run_shard(shard):
    import warnings

    warnings.filterwarnings("ignore")
    acc = Acc()
    if shard["kind"] == "const_single":
        run_constant_singles(shard, acc)
    elif shard["kind"] == "const_batch":
        run_constant_batches(shard, acc)
    elif shard["kind"] == "const_reuse":
        run_constant_reuse(shard, acc)
    elif shard["kind"] == "lme":
        run_lme(shard, acc)
    else:
        raise ValueError(shard)
    return acc.to_dict()


def self_check():
    """The recording seam must see leaspy's own MixedLM.fit call and must be removed afterwards."""
    import warnings

    import leaspy.algo.fit.lme_fit as lf

    before = lf.MixedLM
    with warnings.catch_warnings():
        warnings.simplefilter("ignore")
        with recording_mixedlm() as rec:
            LMEModel("lme", with_random_slope_age=False).fit(Data.from_dataframe(_frame(lme_cohort(1)[0]), drop_full_nan=False), "lme_fit")
            if len(rec) != 1:
                raise RuntimeError("C20 recording seam inactive")
    if lf.MixedLM is not before:
        raise RuntimeError("C20 recording seam not removed")
    # the reference itself on the example of the library's documentation/test
    h = {"ages": [31, 32, 34, 33], "rows": [[1.0, 0.5], [2.0, 0.5], [None, 2.0], [3.0, None]]}
    exp = {"last": [None, 2.0], "last-known": [3.0, 2.0], "max": [3.0, 2.0], "mean": [2.0, 1.0]}
    for p in PTYPES:
        if ref_constant(h, p, False) != exp[p]:
            raise RuntimeError(f"C20 reference estimator wrong for {p}")


def replay(case):
    import warnings

    warnings.filterwarnings("ignore")
    out = []
    if case["part"] == "constant" and case.get("direct"):
        for idx, sig, msg, exp, obs in check_mechanism(case["n_features"], case["histories"][0], case["ptype"]):
            out.append({"signature": sig, "message": f"{msg} expected={exp} observed={obs}"})
    elif case["part"] == "constant":
        hists = [{"ages": h["ages"], "rows": h["rows"]} for h in case["histories"]]
        _, problems = check_constant(case["n_features"], hists, case["ptype"], case["drop_full_nan"], case["forms"], request=case.get("request"))
        for idx, sig, msg, exp, obs in problems:
            if idx is not None and len(hists) > 1 and case.get("focus") is not None:
                if idx != case["focus"]:
                    continue
                sig += "|only inside a cohort"
            out.append({"signature": sig, "message": f"{msg} (individual {idx}) expected={exp} observed={obs}"})
    elif case["part"] == "constant-reuse":
        _, problems = check_constant_reuse(case["n_features"], case["sequence"], case["ptype"])
        for sig, msg, exp, obs in problems:
            out.append({"signature": sig, "message": f"{msg} expected={exp} observed={obs}"})
    elif case["part"] == "lme":
        _, _, problems, _ = check_lme(case["k"], {"slope": case["slope"], "indep": case["indep"], **({"method": case["method"]} if case.get("method") else {}), **({"reload": True} if case.get("reload") else {})})
        for sig, msg, exp, obs in problems:
            out.append({"signature": sig, "message": f"{msg} expected={exp} observed={obs}"})
    else:
        raise ValueError(case)
    return out

"""C12 -- a fitted model is self-consistent and survives save/load unchanged.

E-GRID: the Cartesian product  model kind x dimension x number of sources (given / left to the default) x noise
structure x how the dimension is told to the constructor x feature naming x instance name x parameter source
(a tiny seeded fit, or hand-written parameter vectors) is enumerated; every element is built through the public
constructors (``model_factory``), fitted or given its parameters, saved, re-loaded and saved again.

Oracles (each compares the implementation with something it did not compute itself):

* after a fit every population variable is bit-equal to the mode of its prior (the ``<name>_mean`` parameter);
* the derived values held by the model (``g``, ``v0``, ``metric``, ``orthonormal_basis``, ``mixing_matrix``) and the
  trajectories it produces agree with a float64 numpy evaluation of the documented formulas on the numbers written in
  the *file* (``lmc/c09_ref.py``);
* the file holds exactly the numbers of the object (parameters, hyperparameters, structure) and is strict JSON;
* ``BaseModel.load(file)`` gives an object of the same class, with the same structure and hyperparameters, the same
  parameters once rounded to float32 (shape-insensitive), the same trajectories on a 5-age grid x 3 individuals
  (tolerance derived from the formula, >= 1e-6), and saving it reproduces the file byte for byte.
"""

from __future__ import annotations

import contextlib
import copy
import io
import json
import os
import shutil
import tempfile
import warnings

import numpy as np
import torch

import leaspy.models  # noqa: F401
from leaspy.io.data import Data
from leaspy.models import BaseModel, model_factory

from .. import c09_ref as R
from ..core import Acc, CaseTimeout, digest, time_limit
from ..models import MIXTURE_FILE, cohort_frame, model_dict

ID = "C12"
LEVEL = "exploration"
RULE = (
    "complete enumeration of the product (kind, dimension, sources given/defaulted, noise structure, how the dimension "
    "is given to the constructor, feature naming, instance name, parameter source = seeded 5-iteration fit | hand-written "
    "vector); a case is distinct when this tuple is new and non-trivial when a model was obtained, a file was written "
    "by save() and the full object/file/reloaded-object/re-saved-file comparison was executed on it"
)
ASSUMPTIONS = [
    "models are built through model_factory(kind, instance_name=..., **hyperparameters); hand-written parameters are "
    "given through load_parameters() followed by the same initialisation flag BaseModel.load sets",
    "fits are tiny (5 individuals, n_iter=5 of which 2 burn-in, seeded); nothing is claimed about other data or longer runs",
    "gaussian-diagonal noise without a dimension/feature list at construction is documented as not implemented and is "
    "outside the grid; bernoulli fits may be refused by the data-driven initialisation (LeaspyInputError) on the tiny "
    "binary cohort, which is an accepted outcome",
    "mixture_logistic is covered by round-trip oracles only (no independent closed form in the harness)",
    "trajectory equality is to a tolerance derived from the float32 formula (>= 1e-6), not bit-level; "
    "PYTHONHASHSEED=0, one torch thread",
]

KINDS = ("logistic", "linear", "shared_speed_logistic", "joint")
ALL_KINDS = KINDS + ("mixture_logistic",)  # + the benchmark kinds "lme" and "constant", see bench_cases
IDS = ["a", "b", "c", "d", "e"]
FEATSETS = {
    "plain": ["Y0", "Y1", "Y2", "Y3"],
    "odd": ["memory score", "vol_left-hipp.", "été Δ₂", "a_b c"],  # spaces, underscore, dot, unicode
    "numeric": ["1", "2.5", "-3e1", "007"],  # numeric-looking strings
    "int": [0, 1, 2, 3],  # integer column labels (accepted by fit / personalize / estimate / save / load)
    "mixed": [10, "b", 2.5, "c d"],  # int, str and float labels in one table
}
NEW_FEATSETS = ("int", "mixed")  # quick tier: only with the default instance name
HAND_SCALE = 1.000000123456789  # variant 3: values that need more than single precision
# 2 memoryless iterations, then 3 averaged ones: with the default burn-in (90 %) every iteration of so short a run is
# memoryless, the parameters are then *assigned* the current realisations and "population variable == mode of its
# prior" would hold without the final reset (the oracle would be vacuous; see self_check)
FIT_KW = dict(n_iter=5, n_burn_in_iter=2, progress_bar=False)


# ------------------------------------------------------------------------------------------------------------
# the enumerated space

UPDATES = ("full", "partial")  # model.load_parameters(other values) on a model that already has parameters


def update_parameters(case, model):
    """The values given to load_parameters() in the 'updated in place' family: another catalogue vector for the
    configuration the model actually has; 'partial' = every second parameter (sorted by name)."""
    noise = model.observation_model_names[0]
    variant = (case["variant"] + 1) % 3 if case["src"] == "hand" else 1
    spec = dict(kind=case["kind"], dim=model.dimension, ns=model.source_dimension or 0, noise=noise, variant=variant)
    new = copy.deepcopy(model_dict(spec)["parameters"])
    if case["update"] == "partial":
        new = {k: new[k] for i, k in enumerate(sorted(new)) if i % 2 == 0}
    return new


def name_alphabet(kind, full):
    """Instance names: the kind itself, a free name, the kind with another case, other kinds' names."""
    others = [k for k in KINDS if k != kind]
    out = [kind, "my-model", kind.capitalize()]
    out += others if full else [others[(KINDS.index(kind) if kind in KINDS else 0) % len(others)]]
    return out


def name_class(name, kind):
    if name == kind:
        return None
    if name.lower() == kind:
        return "instance name differs from the model kind by case"
    if name.lower() in ALL_KINDS + ("lme", "constant"):
        return "instance name is another model kind"
    return "instance name is not a model kind"


def ns_options(dim, with_default):
    return ([None] if with_default else []) + list(range(dim))


def config_ok(kind, dim, ns, noise, dimgiven):
    if noise == "gaussian-diagonal" and dimgiven == "none":
        return False  # documented NotImplementedError at construction
    if noise == "bernoulli" and kind in ("linear", "joint", "mixture_logistic"):
        return False
    if kind == "mixture_logistic" and (dim < 2 or ns in (None, 0) or dimgiven == "none"):
        return False
    return True


def fit_cases(tier, seed):
    cases = []
    thorough = tier != "quick"
    kinds = ALL_KINDS
    for kind in kinds:
        for dim in (1, 2, 3):
            for ns in ns_options(dim, True):
                for noise in (None, "gaussian-scalar", "gaussian-diagonal", "bernoulli"):
                    for dimgiven in ("none", "dimension", "features"):
                        if not config_ok(kind, dim, ns, noise, dimgiven):
                            continue
                        base = dict(src="fit", kind=kind, dim=dim, ns=ns, noise=noise, dimgiven=dimgiven, seed=0)
                        combos = [(kind, "plain")]
                        reduced = noise in (None,) and dimgiven in ("none", "features")
                        if thorough or reduced:
                            for nm in name_alphabet(kind, thorough):
                                for ft in FEATSETS:
                                    if thorough or (nm == kind and (ft not in NEW_FEATSETS or ns in (None, dim - 1))) or ft == "plain":
                                        combos.append((nm, ft))
                        seen = set()
                        for nm, ft in combos:
                            if (nm, ft) in seen:
                                continue
                            seen.add((nm, ft))
                            cases.append(dict(base, name=nm, feat=ft))
                        if kind == "joint" and dimgiven == "dimension" and noise in (None, "gaussian-scalar"):
                            cases.append(dict(base, name=kind, feat="plain", ne=2))
                        if seed != 0 and noise is None and dimgiven == "dimension":
                            cases.append(dict(base, name=kind, feat="plain", seed=int(seed)))
                        # the same object calibrated, used (trajectories computed), then calibrated again
                        if kind != "mixture_logistic" and (thorough or (dimgiven == "dimension" and noise in (None, "gaussian-scalar"))):
                            cases.append(dict(base, name=kind, feat="plain", pre="used"))
                        # parameters updated in place after the fit (full vector / some parameters only)
                        if kind != "mixture_logistic" and (thorough or (dimgiven == "dimension" and noise in (None, "gaussian-scalar"))):
                            for update in UPDATES:
                                cases.append(dict(base, name=kind, feat="plain", update=update))
    return cases


def hand_cases(tier, seed):
    cases = []
    thorough = tier != "quick"
    for kind in KINDS:
        for dim in (1, 2, 3):
            for ns in ns_options(dim, False):
                for noise in ("gaussian-scalar", "gaussian-diagonal", "bernoulli"):
                    if noise == "bernoulli" and kind in ("linear", "joint"):
                        continue
                    for variant in (0, 1, 2, 3):
                        for nm in name_alphabet(kind, True):
                            for ft in FEATSETS:
                                if not thorough and variant in (1, 2) and (nm != kind and ft != "plain"):
                                    continue
                                if not thorough and ft in NEW_FEATSETS and (nm != kind or variant != 0):
                                    continue
                                for via in ("factory", "dict"):
                                    if via == "dict" and nm != kind:
                                        continue  # a dictionary can only name the kind
                                    cases.append(dict(src="hand", kind=kind, dim=dim, ns=ns, noise=noise, variant=variant,
                                                      name=nm, feat=ft, via=via))
                                    if variant == 0 and ft == "plain" and nm == kind:
                                        cases.append(dict(src="hand", kind=kind, dim=dim, ns=ns, noise=noise, variant=4,
                                                          name=nm, feat=ft, via=via))
                                    if variant == 0 and ft == "plain" and nm == kind and ns:
                                        # a file edited by hand: its (informative) mixing_matrix entry belongs to other values
                                        cases.append(dict(src="hand", kind=kind, dim=dim, ns=ns, noise=noise, variant=5,
                                                          name=nm, feat=ft, via=via))
                                    if kind == "joint" and variant == 0 and ft == "plain" and nm in (kind, "my-model"):
                                        cases.append(dict(src="hand", kind=kind, dim=dim, ns=ns, noise=noise, variant=variant,
                                                          name=nm, feat=ft, via=via, ne=2))
                                    if nm == kind and ft == "plain" and (thorough or variant in (0, 3)):
                                        for update in UPDATES:
                                            cases.append(dict(src="hand", kind=kind, dim=dim, ns=ns, noise=noise,
                                                              variant=variant, name=nm, feat=ft, via=via, update=update))
    cases.append(dict(src="hand", kind="mixture_logistic", dim=4, ns=2, noise="gaussian-diagonal", variant=0,
                      name="mixture_logistic", feat="file", via="dict"))
    return cases


BENCH_NAMES = {"lme": ["lme", "my-model", "Lme"], "constant": ["constant", "my-model", "Constant"]}
PREDICTION_TYPES = ("last", "last-known", "max", "mean")


def bench_cases(tier, seed):
    """The two benchmark kinds: `lme` (fitted with lme_fit) and `constant` (no fit; personalised or not)."""
    thorough = tier != "quick"
    cases = []

    def combos(kind, full):
        out = []
        for nm in BENCH_NAMES[kind]:
            for ft in FEATSETS:
                if full or nm == kind or ft == "plain":
                    out.append((nm, ft))
        return out

    for ptype in (None,) + PREDICTION_TYPES:  # None: never personalised (no features yet)
        for dim in (1, 2, 3):
            if ptype is None and dim > 1:
                continue
            for nm, ft in combos("constant", True):
                if ptype is None and ft != "plain":
                    continue
                cases.append(dict(src="bench", kind="constant", ptype=ptype, dim=dim, name=nm, feat=ft))
    for cohort in ("regular", "catalogue"):
        for slope in (False, True):
            for indep in (False, True):
                for nm, ft in combos("lme", thorough) if (thorough or cohort == "regular") else [("lme", "plain")]:
                    cases.append(dict(src="bench", kind="lme", slope=slope, indep=indep, cohort=cohort, dim=1, name=nm, feat=ft))
    return cases


def chunk(cases, size):
    return [cases[i: i + size] for i in range(0, len(cases), size)]


def bounds(tier):
    return {
        "kinds": list(ALL_KINDS) + ["lme", "constant"],
        "benchmark_kinds": "lme: with_random_slope_age x force_independent_random_effects (algorithm option) x 2 cohorts "
                           "(24 regular visits; the 5-individual catalogue cohort with undefined standard errors) x names x "
                           "feature namings; constant: never personalised, or personalised with every prediction_type x "
                           "dimension 1..3 x names x feature namings",
        "dimension": [1, 2, 3],
        "source_dimension": "not given (default) and every value 0..dimension-1",
        "noise": [None, "gaussian-scalar", "gaussian-diagonal", "bernoulli (logistic kinds)"],
        "dimension_given_as": ["none", "dimension=", "features="],
        "feature_namings": {k: v[:3] for k, v in FEATSETS.items()},
        "updates_in_place": "model (hand-written or fitted) -> load_parameters(another catalogue vector: full / every second "
                            "parameter) -> all oracles with the new values as the reference",
        "instance_names": "kind, 'my-model', Kind (capitalised), other kinds' names",
        "parameter_sources": "fit(mcmc_saem, n_iter=5, n_burn_in_iter=2, seed 0 [+VERIF_SEED on the default sub-grid]) on the 5-individual "
                             "cohort; 4 hand-written vectors (3 catalogue variants + one needing double precision)",
        "save_options": ["default", "with_mixing_matrix=False"],
        "product": "full product" if tier != "quick" else
                   "fits: full (kind,dim,sources,noise,dimension_given) grid with default name/features, plus all names "
                   "and all feature namings (one at a time) where noise is defaulted; hand-written: full product except "
                   "(name x feature naming) pairs for catalogue variants 1-2",
    }


def shards(tier, seed):
    fc = fit_cases(tier, seed)
    hc = hand_cases(tier, seed)
    bc = bench_cases(tier, seed)
    out = [{"cases": c} for c in chunk(hc, 160)]
    out += [{"cases": c} for c in chunk([c for c in bc if c["kind"] == "constant"], 120)]
    out += [{"cases": c} for c in chunk([c for c in bc if c["kind"] == "lme"], 6)]
    out += [{"cases": c} for c in chunk(fc, 24)]
    # simplest first: hand-written before fits (already), small dimension first inside (enumeration order)
    return out


# ------------------------------------------------------------------------------------------------------------
# helpers

class Judge:
    def __init__(self):
        self.viol = []  # (signature, message, expected, observed)
        self.sigs = set()

    def add(self, site, kind, feature, message, expected=None, observed=None):
        sig = f"{site}|{kind}|{feature}"
        if sig not in self.sigs:
            self.sigs.add(sig)
            self.viol.append((sig, str(message)[:1500], expected, observed))


def features_of(case):
    if case["feat"] == "file":
        return None
    return FEATSETS[case["feat"]][: case["dim"]]


def config_feature(case):
    """Minimal input feature used in signatures that are not about names."""
    if case["src"] == "bench":
        if case["kind"] == "lme":
            return f"lme, with_random_slope_age={case['slope']}"
        return "constant"
    kind, dim, ns = case["kind"], case["dim"], case["ns"]
    parts = [kind]
    if case["src"] == "fit" and dim == 1 and ns is None and case["dimgiven"] == "none":
        return f"{'joint, ' if kind == 'joint' else ''}one feature, neither dimension nor source_dimension given"
    if kind == "joint" and dim >= 2 and ns == 0 and (
        case["noise"] == "gaussian-diagonal" or (case["noise"] is None and case.get("dimgiven") in ("dimension", "features"))
    ):
        return "joint, dimension >= 2, no sources, gaussian-diagonal noise"
    if ns:
        parts.append("sources")
    return ", ".join(parts)


def hyper_kwargs(case):
    kind, dim = case["kind"], case["dim"]
    kw = {}
    if case["ns"] is not None:
        kw["source_dimension"] = case["ns"]
    if case["noise"] is not None:
        kw["obs_models"] = case["noise"]
    dg = case.get("dimgiven", "features")
    if dg == "dimension":
        kw["dimension"] = dim
    elif dg == "features":
        kw["features"] = list(features_of(case))
    if kind == "joint":
        kw["nb_events"] = int(case.get("ne", 1))
    if kind == "mixture_logistic":
        kw["n_clusters"] = 2
    return kw


def hand_parameters(case):
    spec = dict(kind=case["kind"], dim=case["dim"], ns=case["ns"], noise=case["noise"], variant=case["variant"] % 3)
    if case["variant"] in (3, 4):
        spec["variant"] = 1
    if case["variant"] == 5:
        spec["variant"] = 2
    d = copy.deepcopy(model_dict(spec))
    if case["variant"] == 3:
        def scale(x):
            if isinstance(x, list):
                return [scale(v) for v in x]
            return x * HAND_SCALE
        d["parameters"] = {k: scale(v) for k, v in d["parameters"].items()}
    if case["variant"] == 4:
        # very small dispersions (nearly noise-free data, tight priors): what the file says is what the model holds
        for k in d["parameters"]:
            if k.endswith("_std"):
                v0 = d["parameters"][k]
                d["parameters"][k] = [0.001 * (1 + 0.5 * i) for i in range(len(v0))] if isinstance(v0, list) else 0.001
    if case["variant"] == 5:
        # the stored mixing matrix is documented as informative only (recomputed from betas at load): a stale one must not matter
        d["parameters"]["mixing_matrix"] = [[round(0.3 + 0.1 * j - 0.2 * k, 3) for k in range(case["dim"])] for j in range(case["ns"])]
    d["features"] = features_of(case)
    ne = int(case.get("ne", 1))
    if case["kind"] == "joint" and ne != 1:
        # competing events: a NON-default value of the hyperparameter nb_events (a value equal to the default cannot show
        # whether it survives a save / load), one Weibull shape / scale per event and one column of zeta per event
        p = d["parameters"]
        d["nb_events"] = ne
        p["log_rho_mean"] = [round(p["log_rho_mean"][0] - 0.3 * e, 6) for e in range(ne)]
        p["n_log_nu_mean"] = [round(p["n_log_nu_mean"][0] - 0.2 * e, 6) for e in range(ne)]
        if case["ns"]:
            p["zeta_mean"] = [[round(0.05 * (j + 1) * (-1) ** (j + e), 6) for e in range(ne)] for j in range(case["ns"])]
    return d


def fit_frame(case):
    dim = case["dim"]
    df = cohort_frame(IDS, dim, joint=case["kind"] == "joint", binary=case["noise"] == "bernoulli")
    if case["kind"] == "joint" and int(case.get("ne", 1)) == 2:
        df["EVENT_BOOL"] = [{"a": 0, "b": 1, "c": 2, "d": 0, "e": 2}[i] for i in df["ID"]]  # two competing events
    feats = features_of(case)
    return df.rename(columns={f"Y{i}": feats[i] for i in range(dim)})


def flat(x):
    if isinstance(x, torch.Tensor):
        return x.detach().cpu().reshape(-1)
    return torch.as_tensor(np.asarray(x, dtype=np.float64)).reshape(-1)


def flat_list(x):
    out = []

    def rec(v):
        if isinstance(v, (list, tuple)):
            for w in v:
                rec(w)
        else:
            out.append(v)

    rec(x)
    return out


def as_f32(t):
    return flat(t).to(torch.float32)


def same_f32(a, b):
    a, b = as_f32(a), as_f32(b)
    return a.shape == b.shape and bool(torch.equal(a, b))


def strict_json(text):
    def bad(c):
        raise ValueError(f"non-standard JSON constant {c}")

    return json.loads(text, parse_constant=bad)


def doc_diff(a, b, path=""):
    """List of (path, class) where two parsed JSON documents differ; class 'precision' = equal once rounded to float32."""
    out = []
    if isinstance(a, dict) and isinstance(b, dict):
        if list(a) != list(b):
            if sorted(a) == sorted(b):
                out.append((path or "<top>", "key order"))
            else:
                for k in sorted(set(a) ^ set(b)):
                    out.append((f"{path}/{k}".lstrip("/"), "missing key"))
        for k in a:
            if k in b:
                out += doc_diff(a[k], b[k], f"{path}/{k}".lstrip("/"))
        return out
    if isinstance(a, list) and isinstance(b, list) and len(a) == len(b):
        for i, (x, y) in enumerate(zip(a, b)):
            out += doc_diff(x, y, path)
        return out
    num = lambda v: isinstance(v, (int, float)) and not isinstance(v, bool)  # noqa: E731
    if (num(a) and isinstance(b, list) and len(b) == 1 and num(b[0])) or (
        num(b) and isinstance(a, list) and len(a) == 1 and num(a[0])
    ):
        x, y = (a, b[0]) if num(a) else (a[0], b)
        out.append((path, "scalar vs one-element list"))
        return out + doc_diff(x, y, path)
    if isinstance(a, (int, float)) and isinstance(b, (int, float)) and not isinstance(a, bool) and not isinstance(b, bool):
        if a != a and b != b:
            return out  # NaN on both sides (non-strict JSON written for undefined standard errors)
        if a != b or type(a) is not type(b):
            cls = "precision" if np.float32(a) == np.float32(b) else "value"
            if a == b:
                cls = "number type"
            out.append((path, cls))
        return out
    if a != b or type(a) is not type(b):
        out.append((path, "value"))
    return out


def individuals(t_ref, ns):
    """3 individuals x 5 ages around the reference time (all float32-exact numbers)."""
    t0 = round(float(t_ref) * 2.0) / 2.0
    inds = [
        (0.0, t0, [0.0, 0.0, 0.0]),
        (0.25, t0 - 4.0, [0.5, -0.75, 1.25]),
        (-0.5, t0 + 6.5, [-1.0, 0.25, -0.5]),
    ]
    ages = [t0 - 10.0, t0 - 3.0, t0, t0 + 4.5, t0 + 12.0]
    out = []
    for xi, tau, src in inds:
        ip = {"xi": xi, "tau": tau}
        if ns:
            ip["sources"] = src[:ns]
        out.append(ip)
    return out, ages


def trajectories(model, ips, ages):
    out = []
    for ip in ips:
        v = model.compute_individual_trajectory(list(ages), dict(ip))
        out.append(v.detach().cpu().to(torch.float64).numpy().reshape(len(ages), -1))
    return out


def quiet():
    return contextlib.redirect_stdout(io.StringIO())


def exc_text(e):
    return f"{type(e).__name__}: {str(e)[:300]}"


# ------------------------------------------------------------------------------------------------------------
# oracles

def check_prior_mode(model, judge, feat, site="fit"):
    st = model.state
    for name in model.population_variables_names:
        mean = name + "_mean"
        if mean not in model.parameters_names:
            continue
        a, b = st[name], st[mean]
        if a is None or not (tuple(a.shape) == tuple(b.shape) and bool(torch.equal(a, b))):
            judge.add(site, "population variable differs from the mode of its prior", feat,
                      f"after {site} state[{name!r}] != state[{mean!r}]",
                      expected=None if b is None else b.tolist(), observed=None if a is None else a.tolist())


def close(a, b, rtol, atol):
    a = np.asarray(a, dtype=np.float64).reshape(-1)
    b = np.asarray(b, dtype=np.float64).reshape(-1)
    return a.shape == b.shape and bool(np.all(np.abs(a - b) <= atol + rtol * np.abs(b)))


def check_against_file(model, doc, case, judge, site, ips, ages, trajs):
    """The object's derived values and trajectories vs a float64 evaluation of the numbers written in the file."""
    kind = case["kind"]
    if kind == "mixture_logistic":
        return
    feat = config_feature(case)
    dim = doc.get("dimension")
    ns = doc.get("source_dimension") or 0
    try:
        pop = R.population(kind, dim, ns if dim > 1 else 0, doc["parameters"])
    except Exception as e:  # the file does not describe a model of this kind
        judge.add(site, "file parameters do not describe the model", feat, exc_text(e))
        return
    st = model.state
    # float32 evaluation of exp / products / a Householder reflection: a few eps32 (1.2e-7) relative; 1e-5 leaves two
    # orders of magnitude, any dropped term or stale value is >= 1e-3 on these alphabets.
    wanted = {}
    if kind in ("logistic", "joint"):
        wanted = {"g": pop["g"], "v0": pop["v0"], "metric": pop["metric"]}
    elif kind == "linear":
        wanted = {"v0": pop["v0"]}
    elif kind == "shared_speed_logistic":
        wanted = {"g": [pop["g"]], "metric": pop["metric"]}
    if ns and dim > 1:
        wanted["orthonormal_basis"] = pop["basis"]
        wanted["mixing_matrix"] = pop["mixing"]
    for name, ref in wanted.items():
        try:
            val = st[name]
        except Exception as e:
            judge.add(site, f"derived value not computable: {type(e).__name__}", feat, f"state[{name!r}]: {exc_text(e)}")
            continue
        scale = float(np.abs(pop["betas"]).sum()) if name == "mixing_matrix" else 1.0
        atol = 1e-5 * scale + (1e-7 if name == "mixing_matrix" else 1e-6 if name == "orthonormal_basis" else 0.0)
        if not close(val.detach().numpy(), ref, 1e-5, atol):
            judge.add(site, f"derived value {name} disagrees with the saved parameters", feat,
                      f"state[{name!r}] vs closed form on the file's numbers",
                      expected=np.asarray(ref).tolist(), observed=val.tolist())
    if ns and dim > 1 and "mixing_matrix" in doc["parameters"]:
        mm = np.asarray(doc["parameters"]["mixing_matrix"], dtype=np.float64)
        if not close(mm, pop["mixing"], 1e-5, 1e-5 * float(np.abs(pop["betas"]).sum()) + 1e-7):
            judge.add(site, "mixing_matrix written in the file disagrees with the saved parameters", feat,
                      "file['parameters']['mixing_matrix'] vs (basis @ betas_mean).T", expected=pop["mixing"].tolist(),
                      observed=mm.tolist())
    if trajs is None:
        return
    for ip, tr in zip(ips, trajs):
        ref, tol = R.trajectory(pop, ip["xi"], ip["tau"], ip.get("sources", []), ages)
        got = tr[:, :dim]
        if got.shape != ref.shape or not np.all(np.abs(got - ref) <= 2.0 * tol + 1e-6):
            judge.add(site, "trajectory disagrees with the saved parameters", feat,
                      f"compute_individual_trajectory({ages}, {ip}) vs closed form on the file's numbers",
                      expected=ref.tolist(), observed=got.tolist())
            break


def typed(features):
    """Feature names by value AND type (JSON keeps int / float / str apart; so must a reloaded model)."""
    return None if features is None else [[type(f).__name__, f] for f in features]


def structure(model):
    s = {
        "class": type(model).__name__,
        "dimension": model.dimension,
        "features": typed(model.features),
        "source_dimension": getattr(model, "source_dimension", None),
        "obs_models": list(getattr(model, "observation_model_names", [])),
    }
    for extra in ("nb_events", "n_clusters"):
        if hasattr(model, extra):
            s[extra] = getattr(model, extra)
    return s


def check_file_vs_object(model, doc, case, judge, site):
    feat = config_feature(case)
    s = structure(model)
    for key in ("dimension", "features", "source_dimension"):
        got = typed(doc[key]) if key == "features" and key in doc else doc.get(key)
        if key in doc and got != s[key]:
            judge.add(site, f"file field {key} differs from the object", feat, f"{key}", expected=s[key], observed=got)
    if list(doc.get("obs_models", {}).values()) != s["obs_models"]:
        judge.add(site, "file field obs_models differs from the object", feat, "obs_models", expected=s["obs_models"],
                  observed=doc.get("obs_models"))
    for section, values in (("parameters", model.parameters), ("hyperparameters", model.hyperparameters)):
        got = doc.get(section, {})
        keys = [k for k in got if not (section == "parameters" and k == "mixing_matrix")]
        if keys != list(values):
            judge.add(site, f"file {section} keys differ from the object", feat, section, expected=list(values), observed=keys)
            continue
        for k, v in values.items():
            a = [float(x) for x in flat_list(got[k])]
            b = [float(x) for x in flat(v).tolist()]
            if a != b:
                judge.add(site, f"file {section} values differ from the object", feat, k, expected=b, observed=a)
                break


def compare_models(m1, m2, case, judge, site, ips, ages, trajs1):
    """Reloaded object vs original: class, structure, hyperparameters, parameters (float32), trajectories."""
    feat = config_feature(case)
    s1 = structure(m1)
    try:
        s2 = structure(m2)
        sections = (("parameters", m1.parameters, m2.parameters), ("hyperparameters", m1.hyperparameters, m2.hyperparameters))
    except Exception as e:
        judge.add(site, f"reloaded model cannot be read: {type(e).__name__}", feat, exc_text(e))
        return None
    if s1["class"] != s2["class"]:
        judge.add(site, "loaded as another class", feat, "class", expected=s1["class"], observed=s2["class"])
        return None
    for key in s1:
        if s1[key] != s2[key]:
            judge.add(site, f"{key} differs after reload", feat, key, expected=s1[key], observed=s2[key])
    for section, v1, v2 in sections:
        if list(v1) != list(v2):
            judge.add(site, f"{section} names differ after reload", feat, section, expected=list(v1), observed=list(v2))
            continue
        for k in v1:
            if not same_f32(v1[k], v2[k]):
                judge.add(site, f"{section} differ after reload (float32, shape-insensitive)", feat, k,
                          expected=as_f32(v1[k]).tolist(), observed=as_f32(v2[k]).tolist())
                break
    if m1.fit_metrics != m2.fit_metrics:
        judge.add(site, "fit_metrics differ after reload", feat, "fit_metrics", expected=m1.fit_metrics,
                  observed=m2.fit_metrics)
    # "survives save/load unchanged ... whatever its instance name": the reloaded object is the same model, name included
    # (the file layout is not prescribed: only the object read back is compared)
    if getattr(m1, "name", None) != getattr(m2, "name", None):
        judge.add(site, "instance name differs after reload", name_class(case["name"], case["kind"]) or feat, "name",
                  expected=getattr(m1, "name", None), observed=getattr(m2, "name", None))
    if trajs1 is None:
        return None
    try:
        with quiet():
            trajs2 = trajectories(m2, ips, ages)
    except Exception as e:
        judge.add(site, f"trajectory of the reloaded model raises {type(e).__name__}", feat, exc_text(e))
        return None
    for ip, a, b in zip(ips, trajs1, trajs2):
        # same parameters up to one float32 rounding, same formula: differences are a few eps32 of the logit terms
        # (see c09_ref.trajectory); 1e-6 absolute + 4e-6 relative covers 32 eps32, a lost hyperparameter gives >= 1e-3.
        if a.shape != b.shape or not np.all(np.abs(a - b) <= 1e-6 + 4e-6 * np.abs(a)):
            judge.add(site, "trajectories differ after reload", feat,
                      f"compute_individual_trajectory({ages}, {ip})", expected=a.tolist(), observed=b.tolist())
            break
    return trajs2


# ------------------------------------------------------------------------------------------------------------
# one case

def build(case, judge):
    """Return (model, status); status is None when a model was obtained.  Any exception raised by a valid
    configuration while the model is constructed / given its parameters / fitted is a violation (site 'build')."""
    model, status = build_first(case, judge)
    if model is None or not case.get("update"):
        return model, status
    try:
        with quiet():
            before = {k: v.clone() for k, v in model.parameters.items()}
            new = update_parameters(case, model)
            model.load_parameters(copy.deepcopy(new))
            after = model.parameters
    except CaseTimeout:
        raise
    except Exception as e:
        judge.add("build", type(e).__name__, config_feature(case), f"load_parameters({case['update']} update): {exc_text(e)}")
        return None, f"build-raise:{type(e).__name__}"
    feat = config_feature(case)
    for k in before:
        want = torch.tensor(flat_list(new[k]), dtype=torch.float64) if k in new else before[k]
        if not same_f32(after[k], want):
            kind_ = "updated parameter differs from the float32 rounding of the given number" if k in new else \
                "parameter that was not given changed"
            judge.add(f"load_parameters({case['update']} update)", kind_, feat, k, expected=as_f32(want).tolist(),
                      observed=flat(after[k]).tolist())
    return model, None


def build_first(case, judge):
    kind, name = case["kind"], case["name"]
    feat = config_feature(case)
    stage = "model_factory"
    try:
        with quiet():
            if case["src"] == "hand" and case.get("via") == "dict":
                stage = "BaseModel.load(dict)"
                if kind == "mixture_logistic":
                    d = json.load(open(MIXTURE_FILE))
                    d.pop("fit_metrics", None)
                else:
                    d = hand_parameters(case)
                return BaseModel.load(d), None
            model = model_factory(kind, instance_name=name, **hyper_kwargs(case))
            if case["src"] == "hand":
                stage = "load_parameters"
                model.load_parameters(copy.deepcopy(hand_parameters(case)["parameters"]))
                model._is_initialized = True  # what BaseModel.load does after load_parameters
                return model, None
            stage = "fit"
            df = fit_frame(case)
            data = Data.from_dataframe(df, "joint") if kind == "joint" else Data.from_dataframe(df)
            if case.get("pre") == "used":
                # the object already has a history: a first short calibration, then it is *used* (trajectories of
                # individuals and of the average are computed, as estimate / the plots do), then the calibration goes on
                stage = "first fit"
                model.fit(data, "mcmc_saem", seed=case["seed"] + 1, **dict(FIT_KW, n_iter=3, n_burn_in_iter=1))
                stage = "use between two fits"
                ns_obj = getattr(model, "source_dimension", 0) or 0
                ips, ages = individuals(float(flat(model.parameters["tau_mean"])[0]), ns_obj)
                trajectories(model, ips, ages)
                if hasattr(model, "compute_mean_traj"):
                    model.compute_mean_traj(torch.tensor([ages], dtype=torch.float32))
                stage = "second fit"
            model.fit(data, "mcmc_saem", seed=case["seed"], **FIT_KW)
            return model, None
    except CaseTimeout:
        raise
    except Exception as e:
        from leaspy.exceptions import LeaspyInputError

        if stage in ("fit", "first fit", "second fit") and case["noise"] == "bernoulli" and isinstance(e, LeaspyInputError):
            return None, "fit-refused:bernoulli-initialisation"
        judge.add("build", type(e).__name__, feat, f"{stage}: {exc_text(e)}")
        return None, f"build-raise:{type(e).__name__}"


TOLERATED = ("precision", "scalar vs one-element list")


def load_file(path, model, judge, case, site_s, tmpdir, tag):
    """BaseModel.load of a file written by save(); returns (reloaded model or None, name_repaired)."""
    kind, name = case["kind"], case["name"]
    feat, ncls = config_feature(case), name_class(name, kind)
    site = "BaseModel.load"
    m2, problem = None, None
    try:
        with quiet():
            m2 = BaseModel.load(path)
    except Exception as e:
        problem = ("exception", type(e).__name__, exc_text(e))
    if m2 is not None and type(m2) is not type(model):
        problem = ("class", "loaded as another class", f"{type(model).__name__} named {name!r} reloaded as {type(m2).__name__}")
        m2 = None
    if problem is None:
        return m2, False
    if ncls is None:
        judge.add(site, problem[1], feat, f"load of the file written by {site_s}: {problem[2]}")
        return None, False
    # the file names the instance, not the kind: put the kind back (the only work-around) to find out whether the
    # name alone is responsible, and to still compare everything else
    doc_r = dict(json.load(open(path)), name=kind)
    p_r = os.path.join(tmpdir, f"{tag}_renamed.json")
    with open(p_r, "w") as fp:
        json.dump(doc_r, fp, indent=2)
    try:
        with quiet():
            m2 = BaseModel.load(p_r)
    except Exception as e:
        judge.add(site, type(e).__name__, feat, f"load of the file written by {site_s} (name replaced by the kind): {exc_text(e)}")
        return None, True
    what = "file written by save() cannot be loaded back" if problem[0] == "exception" else problem[1]
    judge.add(site, what, ncls, f"{type(model).__name__} named {name!r}: {problem[2]}")
    return m2, True


def compare_documents(ref_doc, ref_text, doc2, text2, judge, case, counts, generation, tolerate=True):
    feat, ncls = config_feature(case), name_class(case["name"], case["kind"])
    site = "save(load(file))" if generation == 2 else "save(load(save(load(file))))"
    if ref_text is not None and text2 == ref_text:
        return
    diffs = doc_diff(ref_doc, doc2)
    if generation == 2 and tolerate:
        # a fit may leave double precision values and 0-d tensors in the object; the reloaded object holds their
        # float32 / declared-shape versions.  "To single precision" is what the property asks of the values, so these
        # two differences are counted, not reported; the next generation must then be reproduced byte for byte.
        for _, c in diffs:
            if c in TOLERATED:
                counts["resaved: " + c] = counts.get("resaved: " + c, 0) + 1
        diffs = [(p, c) for p, c in diffs if c not in TOLERATED]
        if not diffs:
            return
    if not diffs:
        if ref_text is not None:
            judge.add(site, "same JSON value but different text", feat, "formatting / escaping differs")
        return
    tops = sorted({p.split("/")[0] for p, _ in diffs})
    classes = sorted({c for _, c in diffs})
    f2 = (ncls or feat) if tops == ["name"] else feat
    judge.add(site, "document differs: " + ",".join(tops) + " (" + ",".join(classes) + ")", f2,
              f"first differences: {diffs[:6]}")


def run_case(case, tmpdir):
    """Returns dict(violations, outcome, nontrivial, counts)."""
    if case["src"] == "bench":
        with warnings.catch_warnings():
            warnings.simplefilter("ignore")
            return run_bench_case(case, tmpdir)
    judge = Judge()
    counts = {}
    kind, name = case["kind"], case["name"]
    feat = config_feature(case)
    with warnings.catch_warnings():
        warnings.simplefilter("ignore")
        model, status = build(case, judge)
        if model is None:
            return dict(violations=judge.viol, outcome=status, nontrivial=False, counts=counts)
        try:
            structure(model), model.parameters, model.hyperparameters
        except Exception as e:
            judge.add("build", f"model cannot be read: {type(e).__name__}", feat, exc_text(e))
            return dict(violations=judge.viol, outcome="build-unreadable", nontrivial=False, counts=counts)
        if case["src"] == "fit":
            counts["fits"] = 1
        if case["src"] == "fit" or case.get("update"):
            check_prior_mode(model, judge, feat, f"load_parameters({case['update']} update)" if case.get("update") else "fit")
        if case.get("update"):
            counts["updates in place"] = 1
        elif case["src"] == "hand" and kind != "mixture_logistic":
            hand = hand_parameters(case)["parameters"]
            for k, v in model.parameters.items():
                if k in hand and not same_f32(v, torch.tensor(flat_list(hand[k]), dtype=torch.float64)):
                    judge.add("load_parameters", "parameter differs from the float32 rounding of the given number", feat, k,
                              expected=np.asarray(flat_list(hand[k]), dtype=np.float32).tolist(), observed=flat(v).tolist())
        ns_obj = getattr(model, "source_dimension", 0) or 0
        t_ref = float(flat(model.parameters["tau_mean"])[0])
        ips, ages = individuals(t_ref, ns_obj)
        trajs1 = None
        try:
            with quiet():
                trajs1 = trajectories(model, ips, ages)
        except Exception as e:
            judge.add("compute_individual_trajectory", type(e).__name__, feat, exc_text(e))
        ok_all = True
        for opt in ("default", "no_mixing", "sort_keys"):
            # "sort_keys": a keyword forwarded to json.dump (documented pass-through): the same document, keys in another order
            kw = {} if opt == "default" else {"with_mixing_matrix": False} if opt == "no_mixing" else {"sort_keys": True}
            site_s = "save" if opt == "default" else "save(with_mixing_matrix=False)" if opt == "no_mixing" else "save(sort_keys=True)"
            p1 = os.path.join(tmpdir, f"m1_{opt}.json")
            try:
                model.save(p1, **kw)
                text1 = open(p1).read()
                doc1 = strict_json(text1)
            except Exception as e:
                judge.add(site_s, type(e).__name__, feat, exc_text(e))
                ok_all = False
                continue
            counts["files"] = counts.get("files", 0) + 1
            if opt == "default":
                check_file_vs_object(model, doc1, case, judge, site_s)
                check_against_file(model, doc1, case, judge, "updated model" if case.get("update") else
                                   ("fitted model (used between two fits)" if case.get("pre") else "fitted model")
                                   if case["src"] == "fit" else "loaded model", ips, ages, trajs1)
            elif opt == "no_mixing" and "mixing_matrix" in doc1.get("parameters", {}):
                judge.add(site_s, "mixing_matrix written although not asked", feat, "parameters/mixing_matrix present")
            # ---- reload
            m2, repaired = load_file(p1, model, judge, case, site_s, tmpdir, f"m1_{opt}")
            if m2 is None:
                ok_all = False
                continue
            counts["reloads"] = counts.get("reloads", 0) + 1
            trajs2 = compare_models(model, m2, case, judge, "BaseModel.load", ips, ages, trajs1 if opt == "default" else None)
            if opt == "default" and trajs2 is not None:
                check_against_file(m2, doc1, case, judge, "reloaded model", ips, ages, trajs2)
            if opt == "default":
                # ---- the same content given as a dictionary (documented input of BaseModel.load), the SAME dictionary object read
                # twice: both readings give the model the file gives
                d = copy.deepcopy(doc1)
                which = "first"
                try:
                    with quiet():
                        md1 = BaseModel.load(d)
                        which = "second"
                        md2 = BaseModel.load(d)
                    t_file, t1, t2 = (json.dumps(m.to_dict(), sort_keys=True, default=str) for m in (m2, md1, md2))
                    if t1 != t_file:
                        judge.add("BaseModel.load(dict)", "model differs from the model read from the file with the same content", feat,
                                  str(doc_diff(json.loads(t_file), json.loads(t1)))[:300])
                    elif t2 != t1:
                        judge.add("BaseModel.load(dict)", "second reading of the same dictionary gives another model", feat,
                                  str(doc_diff(json.loads(t1), json.loads(t2)))[:300])
                    counts["dict_reloads"] = counts.get("dict_reloads", 0) + 2
                except CaseTimeout:
                    raise
                except Exception as e:
                    judge.add("BaseModel.load(dict)", f"{type(e).__name__} at the {which} reading of a dictionary holding the content of the file", feat, exc_text(e))
            # ---- save again, and once more
            p2 = os.path.join(tmpdir, f"m2_{opt}.json")
            try:
                m2.save(p2, **kw)
                text2 = open(p2).read()
                doc2 = strict_json(text2)
            except Exception as e:
                judge.add(f"{site_s} of the reloaded model", type(e).__name__, feat, exc_text(e))
                ok_all = False
                continue
            if repaired:
                compare_documents(dict(doc1, name=kind), None, doc2, text2, judge, case, counts, 2)
            else:
                compare_documents(doc1, text1, doc2, text2, judge, case, counts, 2)
            try:
                with quiet():
                    m3 = BaseModel.load(p2)
                p3 = os.path.join(tmpdir, f"m3_{opt}.json")
                m3.save(p3, **kw)
                text3 = open(p3).read()
                doc3 = strict_json(text3)
            except Exception as e:
                judge.add("BaseModel.load", type(e).__name__, feat, f"second generation (file written by the reloaded model): {exc_text(e)}")
                ok_all = False
                continue
            compare_documents(doc2, text2, doc3, text3, judge, case, counts, 3)
    status = "roundtrip-ok" if not judge.viol else "roundtrip-violations"
    dt = "f64" if any(v.dtype == torch.float64 for v in model.parameters.values()) else "f32"
    src = case["src"] + ("+update" if case.get("update") else "")
    return dict(violations=judge.viol, outcome=f"{src}:{kind}:{status}:{dt}", nontrivial=ok_all, counts=counts)


# ------------------------------------------------------------------------------------------------------------
# benchmark kinds (lme, constant): round trip only, behaviour compared through personalize + estimate

def bench_frame(case):
    import pandas as pd

    feats = FEATSETS[case["feat"]][: case["dim"]]
    if case["kind"] == "lme" and case["cohort"] == "regular":
        rows = []
        for i in range(6):
            for j in range(4):
                rows.append((f"s{i}", float(60 + 3 * j + i), 0.1 * i + 0.02 * j * (1 + 0.3 * i) + 0.01 * ((i * j) % 3)))
        return pd.DataFrame(rows, columns=["ID", "TIME", feats[0]])
    df = cohort_frame(IDS, case["dim"])
    return df.rename(columns={f"Y{i}": feats[i] for i in range(case["dim"])})


def bench_config(model):
    c = {"class": type(model).__name__, "features": typed(model.features),
         "dimension": model.dimension, "hyperparameters": {k: np.asarray(v).tolist() for k, v in (model.hyperparameters or {}).items()}}
    if hasattr(model, "with_random_slope_age"):
        c["with_random_slope_age"] = model.with_random_slope_age
    return c


def same_exact(a, b):
    """Equality of two parameter values / result arrays as float64 numbers, NaN == NaN, shape-insensitive."""
    a = np.asarray(a, dtype=np.float64).reshape(-1)
    b = np.asarray(b, dtype=np.float64).reshape(-1)
    return a.shape == b.shape and bool(np.array_equal(a, b, equal_nan=True))


def ip_table(ip):
    df = ip.to_dataframe()
    return {"index": [str(i) for i in df.index], "columns": [str(c) for c in df.columns], "values": df.to_numpy(dtype=np.float64)}


def bench_behaviour(model, case, data, ip_given=None):
    """(individual parameters table, estimates on an age grid) -- what a user gets out of the model."""
    with quiet():
        if case["kind"] == "lme":
            ip = model.personalize(data, "lme_personalize")
        elif ip_given is None:
            ip = model.personalize(data, "constant_prediction", prediction_type=case["ptype"])
        else:
            ip = ip_given
        ages = {i: [55.0, 70.0, 71.5, 90.0] for i in ip_table(ip)["index"]}
        est = model.estimate(ages, ip)
    return ip, {i: np.asarray(v, dtype=np.float64) for i, v in est.items()}


def run_bench_case(case, tmpdir):
    judge, counts = Judge(), {}
    kind, name = case["kind"], case["name"]
    feat = config_feature(case)
    data, stage = None, "model_factory"
    try:
        with quiet():
            if kind == "lme":
                model = model_factory("lme", instance_name=name, with_random_slope_age=case["slope"])
                stage = "fit"
                data = Data.from_dataframe(bench_frame(case))
                model.fit(data, "lme_fit", force_independent_random_effects=case["indep"])
                counts["lme_fits"] = 1
            else:
                model = model_factory("constant", instance_name=name)
                if case["ptype"] is not None:
                    data = Data.from_dataframe(bench_frame(case))
        stage = "personalize/estimate"
        ip1, est1 = (None, None) if data is None else bench_behaviour(model, case, data)
    except CaseTimeout:
        raise
    except Exception as e:
        judge.add("build", type(e).__name__, feat, f"{stage}: {exc_text(e)}")
        return dict(violations=judge.viol, outcome=f"build-raise:{type(e).__name__}", nontrivial=False, counts=counts)
    conf1, params1 = bench_config(model), dict(model.parameters or {})
    ok_all = True
    p1 = os.path.join(tmpdir, "b1.json")
    try:
        model.save(p1)
        text1 = open(p1).read()
        doc1 = json.loads(text1)  # standard errors may be NaN: python's json dialect, as the library itself reads it
    except Exception as e:
        judge.add("save", type(e).__name__, feat, exc_text(e))
        return dict(violations=judge.viol, outcome="save-raise", nontrivial=False, counts=counts)
    counts["files"] = 1
    if "NaN" in text1:
        counts["files with NaN tokens"] = 1
    m2, repaired = load_file(p1, model, judge, case, "save", tmpdir, "b1")
    if m2 is None:
        return dict(violations=judge.viol, outcome=f"bench:{kind}:not-reloaded", nontrivial=False, counts=counts)
    counts["reloads"] = 1
    same_conf = True
    try:
        conf2, params2 = bench_config(m2), dict(m2.parameters or {})
    except Exception as e:
        judge.add("BaseModel.load", f"reloaded model cannot be read: {type(e).__name__}", feat, exc_text(e))
        return dict(violations=judge.viol, outcome=f"bench:{kind}:unreadable", nontrivial=False, counts=counts)
    for key in conf1:
        if conf1[key] != conf2.get(key):
            same_conf = False
            judge.add("BaseModel.load", f"{key} differs after reload", feat, key, expected=conf1[key], observed=conf2.get(key))
    if list(params1) != list(params2):
        judge.add("BaseModel.load", "parameters names differ after reload", feat, "parameters", expected=list(params1),
                  observed=list(params2))
    else:
        for k in params1:
            if not same_exact(params1[k], params2[k]):
                judge.add("BaseModel.load", "parameters differ after reload (double precision)", feat, k,
                          expected=np.asarray(params1[k]).tolist(), observed=np.asarray(params2[k]).tolist())
                break
    if same_conf and data is not None:
        # the configuration came back: then what the user computes with the reloaded object must be the same numbers
        # (same double precision parameters through the same closed-form code; 1e-12 relative for the linear algebra)
        try:
            ip2, est2 = bench_behaviour(m2, case, data)
            _, est2_given = bench_behaviour(m2, case, data, ip_given=ip1) if kind == "constant" else (None, est2)
        except Exception as e:
            judge.add("BaseModel.load", f"personalize/estimate of the reloaded model raises {type(e).__name__}", feat, exc_text(e))
        else:
            t1, t2 = ip_table(ip1), ip_table(ip2)
            if (t1["index"], t1["columns"]) != (t2["index"], t2["columns"]) or not np.allclose(
                    t1["values"], t2["values"], rtol=1e-12, atol=1e-14, equal_nan=True):
                judge.add("BaseModel.load", "personalised individual parameters differ after reload", feat, "personalize",
                          expected=t1["values"].tolist(), observed=t2["values"].tolist())
            for e2 in (est2, est2_given):
                bad = [i for i in est1 if i not in e2 or est1[i].shape != e2[i].shape
                       or not np.allclose(est1[i], e2[i], rtol=1e-12, atol=1e-14, equal_nan=True)]
                if bad or list(est1) != list(e2):
                    judge.add("BaseModel.load", "estimates differ after reload", feat, f"estimate for {bad[:3]}",
                              expected={i: est1[i].tolist() for i in bad[:2]}, observed={i: e2[i].tolist() for i in bad[:2] if i in e2})
                    break
    # ---- save again, and once more: byte for byte (parameters are doubles, written with all their digits)
    try:
        p2, p3 = os.path.join(tmpdir, "b2.json"), os.path.join(tmpdir, "b3.json")
        m2.save(p2)
        text2 = open(p2).read()
        doc2 = json.loads(text2)
        with quiet():
            m3 = BaseModel.load(p2)
        m3.save(p3)
        text3 = open(p3).read()
        doc3 = json.loads(text3)
    except Exception as e:
        judge.add("save of the reloaded model", type(e).__name__, feat, exc_text(e))
        ok_all = False
    else:
        if repaired:
            compare_documents(dict(doc1, name=kind), None, doc2, text2, judge, case, counts, 2, tolerate=False)
        else:
            compare_documents(doc1, text1, doc2, text2, judge, case, counts, 2, tolerate=False)
        compare_documents(doc2, text2, doc3, text3, judge, case, counts, 3)
    status = "roundtrip-ok" if not judge.viol else "roundtrip-violations"
    return dict(violations=judge.viol, outcome=f"bench:{kind}:{status}", nontrivial=ok_all, counts=counts)


def run_shard(shard):
    acc = Acc()
    tmpdir = tempfile.mkdtemp(prefix="c12_", dir="/var/tmp")
    try:
        for case in shard["cases"]:
            acc.evaluation()
            try:
                with time_limit(600):
                    res = run_case(case, tmpdir)
            except CaseTimeout:
                acc.violation(f"case|timeout|{config_feature(case)}", "case exceeded 600 s of CPU time", case)
                acc.outcome("timeout")
                continue
            if res["nontrivial"]:
                acc.nontriv(digest(case))
            acc.outcome(res["outcome"])
            for k, v in res["counts"].items():
                acc.count(k, v)
            if not res["violations"]:
                acc.sample({"case": case, "outcome": res["outcome"]})
            for sig, msg, exp, obs in res["violations"]:
                acc.violation(sig, msg, case, exp, obs)
    finally:
        shutil.rmtree(tmpdir, ignore_errors=True)
    return acc.to_dict()


def replay(case):
    tmpdir = tempfile.mkdtemp(prefix="c12_", dir="/var/tmp")
    try:
        res = run_case(case, tmpdir)
    finally:
        shutil.rmtree(tmpdir, ignore_errors=True)
    return [{"signature": s, "message": m} for s, m, _, _ in res["violations"]]


def self_check():
    """Sensitivity of the 'population variables at the mode of their prior' oracle: with FIT_KW the realisations of
    the last MCMC iteration must differ from the final parameters (otherwise the oracle could not see a missing reset)."""
    from leaspy.algo import AlgorithmSettings, algorithm_factory
    from leaspy.io.data import Dataset

    case = dict(src="fit", kind="logistic", dim=2, ns=1, noise=None, dimgiven="dimension", name="logistic", feat="plain", seed=0)
    with warnings.catch_warnings(), quiet():
        warnings.simplefilter("ignore")
        model = model_factory("logistic", **hyper_kwargs(case))
        dataset = Dataset(Data.from_dataframe(fit_frame(case)))
        model.initialize(dataset)
        out = algorithm_factory(AlgorithmSettings("mcmc_saem", seed=0, **FIT_KW)).run(model, dataset)
    state = out[0] if isinstance(out, tuple) else out
    moved = [n for n in model.population_variables_names if not torch.equal(state[n], state[n + "_mean"])]
    if not moved:
        raise RuntimeError("C12 self-check: the sampling state equals the prior mode after the fit; the oracle is vacuous")

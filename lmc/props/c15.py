"""C15 -- dependency-graph construction is exact.

E-GRID over programs (= sets of variable definitions): every labelled digraph on n nodes (every subset of the n(n-1)
ordered pairs), plus self-reference / unknown-reference / key-mismatch variants, name alphabets, relabellings, dict and
set insertion orders, three constructors, the graphs of every catalogue model, and re-runs of the same definitions in
child processes started with other hash seeds.  Every element is built by the REAL ``VariablesDAG`` and compared with
networkx (acyclicity, isolates, descendants, ancestors) and plain Python.
"""

from __future__ import annotations

import itertools
import json
import os
import subprocess
import sys

import networkx as nx

from .. import c15_lib as L
from ..core import VERIF, Acc

ID = "C15"
LEVEL = "model_checking"
RULE = (
    "every labelled digraph of variable definitions up to the bound is enumerated (all subsets of ordered pairs x "
    "self-reference subsets x unknown-reference subsets x key variants x name alphabets) and built by the real "
    "constructors (VariablesDAG(...), from_dict with generated keyword-only functions, from_dict with "
    "NamedInputFunction); a case is distinct when its definitions (names, edge set, self/unknown references, key "
    "variant, relabelling) are new and non-trivial when they contain at least 2 variables and 1 reference; a state is "
    "one distinct set of definitions handed to a constructor, a transition is one executed construction (also the "
    "re-constructions under other insertion orders / labels / hash seeds)"
)
ASSUMPTIONS = [
    "variable names are strings (six alphabets incl. empty / non-ASCII / non-identifier names and names equal up to case, surrounding whitespace, casefold or NFKC); ancestors are given as frozensets",
    "graphs larger than the bound (4 nodes quick, 5 nodes thorough) are only covered through the model graphs of lmc.models.MODEL_SPECS (36-71 nodes)",
    "a refusal must be a ValueError (LeaspyInputError is one); its reason is only compared when the message is one of the five known ones",
    "key order of the plain mappings direct_children / sorted_children / sorted_variables_by_type is not part of the property",
    "cross-process determinism is checked under hash seeds {1, 2, 3+VERIF_SEED} against the runner's PYTHONHASHSEED=0",
]

N_GRID5_SHARDS = 64
N_VAR4_SHARDS = 32


def bounds(tier):
    b = {
        "digraphs": "all labelled digraphs on n<=4 nodes x 6 name alphabets (0,1,2,4,5,6) x applicable constructors (each built twice)",
        "variants": "n<=3: every self-reference subset x unknown-reference subset; key variants (extra/missing key, extra variable) for the direct constructor",
        "insertion_orders": "n<=3: every order of the variables dict x every order of the ancestors dict/sets; n<=3: alphabets 0,1,4,5,6; n=4: all 24 common orders, alphabets 1,4,5",
        "relabellings": "n<=4: all n! relabellings, alphabets 0 and 4, direct + from_dict",
        "families": "15 named families (chain, complete, stars, diamond ladder, bipartite, tree, late root, rings, back edges, rootless cycle, isolated) for every size 5..%d x 4 namings x 3 constructors" % (10 if tier == "quick" else 16),
        "model_graphs": "every lmc.models.MODEL_SPECS entry: model.dag, fresh from_dict, reversed/sorted plain dicts, implicit nodes",
        "hash_seeds": "{1, 2, 3+seed} vs 0: all n<=4 digraphs x alphabets x constructors, all model graphs",
    }
    if tier == "thorough":
        b["digraphs"] += "; all 2^20 digraphs on 5 nodes x alphabets 0,1,4 x 2 constructors"
        b["variants"] += "; n=4: every self-reference subset x unknown-reference subset x every digraph (direct + from_dict)"
        b["insertion_orders"] += "; n=5: every accepted DAG x 6 orders"
        b["hash_seeds"] += "; every accepted 5-node DAG (alphabets 1 and 4, direct + from_dict)"
    return b


def hash_seeds(seed):
    return sorted({1, 2, 3 + int(seed)})


def shards(tier, seed):
    from ..models import MODEL_SPECS

    out = []
    for a in L.GRID_ALPHABETS:
        out.append({"kind": "small", "names": a})
    for a in L.GRID_ALPHABETS:
        for lo, hi in ((0, 2048), (2048, 4096)):
            out.append({"kind": "grid", "n": 4, "names": a, "lo": lo, "hi": hi, "path_matrix": True})
    out.append({"kind": "families", "ks": list(range(5, 11 if tier == "quick" else 17))})
    for name in MODEL_SPECS:
        out.append({"kind": "model", "name": name})
    for a in (0, 1, 4, 5, 6):
        out.append({"kind": "order_small", "names": a})
    for a in (1, 4, 5):
        for lo in range(0, 4096, 512):
            out.append({"kind": "order", "n": 4, "names": a, "lo": lo, "hi": lo + 512})
    for a in (0, 4):
        out.append({"kind": "relabel", "ns": [2, 3], "names": a, "lo": 0, "hi": 4096})
        for lo in range(0, 4096, 512):
            out.append({"kind": "relabel", "ns": [4], "names": a, "lo": lo, "hi": lo + 512})
    for hs in hash_seeds(seed):
        out.append({"kind": "hashseed", "hashseed": hs, "desc": {"what": "models", "models": list(MODEL_SPECS)}})
        for a in L.GRID_ALPHABETS:
            out.append({"kind": "hashseed", "hashseed": hs, "desc": {"what": "grid", "ns": [2, 3, 4], "names": a}})
        out.append({"kind": "hashseed", "hashseed": hs, "desc": {"what": "families", "ks": list(range(5, 11 if tier == "quick" else 17))}})
    if tier == "thorough":
        step = (1 << 20) // N_GRID5_SHARDS
        for a, ctors in ((0, ["direct", "from_dict"]), (1, ["direct", "from_dict_nif"]), (4, ["direct", "from_dict"])):
            for lo in range(0, 1 << 20, step):
                out.append({"kind": "grid", "n": 5, "names": a, "lo": lo, "hi": lo + step, "ctors": ctors, "path_matrix": False})
        step = 4096 // N_VAR4_SHARDS
        for lo in range(0, 4096, step):
            out.append({"kind": "variants", "n": 4, "names": 0, "lo": lo, "hi": lo + step, "ctors": ["direct", "from_dict"]})
        step = (1 << 20) // 16
        for a in (1, 4):
            for lo in range(0, 1 << 20, step):
                out.append({"kind": "order5", "names": a, "lo": lo, "hi": lo + step})
        step = (1 << 20) // 4
        for hs in hash_seeds(seed):
            for a in (1, 4):
                for lo in range(0, 1 << 20, step):
                    out.append({"kind": "hashseed", "hashseed": hs,
                                "desc": {"what": "grid", "ns": [5], "names": a, "lo": lo, "hi": lo + step, "dags_only": True,
                                         "ctors": ["direct", "from_dict"]}})
    return out


# ------------------------------------------------------------------------------------------

class _TooManyTimeouts(Exception):
    pass


class _Run:
    def __init__(self, acc):
        self.acc = acc
        self.seen_defs = set()
        self.timeouts = 0

    def grid_case(self, case, *, twice=True, path_matrix=False, kind="grid", sample=True):
        """One definition case through the full networkx oracle. Returns (kind, observation, valid)."""
        acc = self.acc
        stored = {"kind": kind, "case": case}

        def emit(sig, msg, expected=None, observed=None):
            acc.violation(sig, f"{msg} | case={json.dumps(case)}", stored, expected, observed)

        if self.timeouts >= L.MAX_TIMEOUTS:
            raise _TooManyTimeouts()
        label, k, obs, n_tr, valid = L.check_case(case, emit, twice=twice, path_matrix=path_matrix)
        if k == "refused" and obs.startswith("refused:CaseTimeout"):
            self.timeouts += 1
        acc.evaluation(n_tr)
        acc.transition(n_tr)
        key = L.case_key(case)
        if key not in self.seen_defs:
            self.seen_defs.add(key)
            acc.state()
        n_refs = bin(case["bits"]).count("1") + bin(case.get("loops", 0)).count("1") + bin(case.get("unknown", 0)).count("1")
        if case["n"] >= 2 and n_refs >= 1:
            acc.nontriv(key)
        acc.outcome(label)
        if (sample and valid and k == "accepted" and case["n"] >= 3 and n_refs >= 3 and case["bits"] % 7 == 3
                and case["ctor"] == ("direct", "from_dict", "from_dict_nif", "direct")[(case["bits"] // 7) % 4]):
            names, parents = L.definitions(case)
            acc.sample({"definitions": dict(zip(names, parents)), "ctor": case["ctor"], "observed_order": obs["order"],
                        "observed_children": obs["children"]})
        return k, obs, valid


def _run_small(shard, acc):
    r = _Run(acc)
    a = shard["names"]
    for n in (0, 1, 2, 3):
        for bits in range(1 << len(L.PAIRS(n))):
            for loops in range(1 << n):
                for unknown in range(1 << n):
                    for ctor in L.CTORS_FOR_ALPHABET[a]:
                        r.grid_case(L.make_case(n, bits, a, ctor, loops, unknown), path_matrix=(ctor == "direct"))
            for extra in ("extra_key", "missing_key", "extra_var"):
                if n == 0 and extra == "missing_key":
                    continue
                for unknown in (0, 1) if n else (0,):
                    r.grid_case(L.make_case(n, bits, a, "direct", 0, unknown, extra))


def _run_grid(shard, acc):
    r = _Run(acc)
    n, a = shard["n"], shard["names"]
    for bits in range(shard["lo"], shard["hi"]):
        for ctor in shard.get("ctors") or L.CTORS_FOR_ALPHABET[a]:
            r.grid_case(L.make_case(n, bits, a, ctor), path_matrix=shard.get("path_matrix", False) and ctor == "direct")


def _run_families(shard, acc):
    r = _Run(acc)
    for fam, case in L.family_cases(shard["ks"]):
        r.grid_case(case, path_matrix=(case["ctor"] == "direct"), sample=False)
        acc.count(f"family:{fam}")


def _run_variants(shard, acc):
    r = _Run(acc)
    n, a = shard["n"], shard["names"]
    for bits in range(shard["lo"], shard["hi"]):
        for loops in range(1 << n):
            for unknown in range(1 << n):
                if not loops and not unknown:
                    continue
                for ctor in shard["ctors"]:
                    r.grid_case(L.make_case(n, bits, a, ctor, loops, unknown), twice=False)


def _compare_with_base(acc, base_case, base, case, got, how, kind):
    if (base[0], base[1]) != (got[0], got[1]):
        site = L.SITE[case["ctor"]]
        acc.violation(
            f"{site}|nondeterministic|{how}",
            f"equal definitions give another result when built with another {how}: base={json.dumps(base_case)} other={json.dumps(case)}",
            {"kind": kind, "base": base_case, "case": case},
            base[1], got[1],
        )


def _order_pair(r, base_case, perm_vars, perm_anc, base):
    case = dict(base_case, perm_vars=list(perm_vars), perm_anc=list(perm_anc))
    got = r.grid_case(case, twice=False, kind="grid", sample=False)
    _compare_with_base(r.acc, base_case, base, case, got, "insertion_order", "order")
    r.acc.count("insertion_orders_compared")


def _run_order_small(shard, acc):
    r = _Run(acc)
    a = shard["names"]
    for n in (2, 3):
        perms = list(itertools.permutations(range(n)))
        for bits in range(1 << len(L.PAIRS(n))):
            for loops, unknown in ((0, 0), (1, 0), (0, 1 << (n - 1))):
                for ctor in L.CTORS_FOR_ALPHABET[a]:
                    base_case = L.make_case(n, bits, a, ctor, loops, unknown)
                    base = r.grid_case(base_case, twice=False, sample=False)
                    for pv in perms:
                        for pa in perms:
                            if pv == pa == tuple(range(n)):
                                continue
                            _order_pair(r, base_case, pv, pa, base)


def _run_order(shard, acc):
    r = _Run(acc)
    n, a = shard["n"], shard["names"]
    perms = list(itertools.permutations(range(n)))[1:]
    for bits in range(shard["lo"], shard["hi"]):
        for ctor in L.CTORS_FOR_ALPHABET[a]:
            base_case = L.make_case(n, bits, a, ctor)
            base = r.grid_case(base_case, twice=False, sample=False)
            for p in perms:
                _order_pair(r, base_case, p, p, base)


ORDERS5 = [[4, 3, 2, 1, 0], [1, 2, 3, 4, 0], [2, 3, 4, 0, 1], [3, 4, 0, 1, 2], [4, 0, 1, 2, 3], [2, 0, 4, 1, 3]]


def _run_order5(shard, acc):
    r = _Run(acc)
    a = shard["names"]
    for bits in range(shard["lo"], shard["hi"]):
        if not L.is_plain_dag(5, bits):
            continue
        for ctor in ("direct", "from_dict"):
            base_case = L.make_case(5, bits, a, ctor)
            base = r.grid_case(base_case, twice=False, sample=False)
            for p in ORDERS5:
                _order_pair(r, base_case, p, p[::-1], base)


def _relabel_pair(r, base_case, p, base):
    """Node i of the base case is called alpha[i]; in the relabelled case it is called alpha[p[i]]."""
    acc = r.acc
    case = dict(base_case, relabel=list(p))
    got = r.grid_case(case, twice=False, sample=False)
    acc.count("relabellings_compared")
    site = L.SITE[case["ctor"]]
    stored = {"kind": "relabel", "base": base_case, "case": case}
    if got[0] != base[0]:
        acc.violation(f"{site}|relabel|acceptance", f"renaming the variables changes acceptance: {json.dumps(base_case)} -> {base[0]}, relabel {list(p)} -> {got[0]}",
                      stored, base[0], got[0])
        return
    if got[0] != "accepted":
        if got[1] != base[1]:
            acc.violation(f"{site}|relabel|refusal", "renaming the variables changes the kind of refusal", stored, base[1], got[1])
        return
    alpha = L.ALPHABETS[case["names"]]
    ren = {alpha[i]: alpha[p[i]] for i in range(case["n"])}
    for attr in ("children", "ancestors"):
        exp = {ren[k]: sorted(ren[x] for x in v) for k, v in base[1][attr].items()}
        obs = {k: sorted(v) for k, v in got[1][attr].items()}
        if exp != obs:
            acc.violation(f"{site}|relabel|{attr}", f"transitive {attr} are not carried along by a renaming of the variables", stored, exp, obs)
            return


def _run_relabel(shard, acc):
    r = _Run(acc)
    a = shard["names"]
    for n in shard["ns"]:
        perms = list(itertools.permutations(range(n)))[1:]
        hi = min(shard["hi"], 1 << len(L.PAIRS(n)))
        for bits in range(shard["lo"], hi):
            for ctor in ("direct", "from_dict"):
                base_case = L.make_case(n, bits, a, ctor)
                base = r.grid_case(base_case, twice=False, sample=False)
                for p in perms:
                    _relabel_pair(r, base_case, p, base)


# ------------------------------------------------------------------------------------------
# model graphs

def _check_model(name, emit, acc=None):
    from leaspy.variables.specs import IndividualLatentVariable, LatentVariable, ModelParameter, PopulationLatentVariable

    site = "from_dict(model specs)"

    def out(kind, feature, message, expected=None, observed=None):
        emit(f"{site}|{kind}|{feature}", f"{name}: {message}", expected, observed)

    try:
        model, specs = L.model_definitions(name)
        names = list(specs)
    except Exception as e:  # the model builds its own graph with VariablesDAG.from_dict(get_variables_specs())
        out("model_build_failed", type(e).__name__, f"building the model / its definitions raised {type(e).__name__}: {str(e)[:300]}", "a model", type(e).__name__)
        return f"model_graph:build_failed:{type(e).__name__}", 1, 0
    plain = {k: specs[k] for k in names}
    anc_map = {k: sorted(L.independent_ancestors(plain[k])) for k in names}
    # implicit nodes (specs.py: NamedVariables.__setitem__ / _auto_vars)
    expected_implicit = set()
    ind_latent = []
    for k, v in plain.items():
        if isinstance(v, ModelParameter):
            expected_implicit |= set(v.suff_stats.dedicated_variables or {})
        if isinstance(v, PopulationLatentVariable):
            expected_implicit.add(f"nll_regul_{k}")
        if isinstance(v, IndividualLatentVariable):
            expected_implicit |= {f"nll_regul_{k}_ind", f"nll_regul_{k}"}
            ind_latent.append(k)
    expected_implicit |= {"nll_regul_ind_sum_ind", "nll_regul_ind_sum"}
    missing = sorted(expected_implicit - set(names))
    if missing:
        out("implicit_nodes", "missing", f"implicit variables missing from the definitions: {missing}", sorted(expected_implicit), names)
    if len(names) != len(set(names)) or len(specs) != len(names):
        out("implicit_nodes", "len", "len() / iteration of the definitions disagree or list a name twice", len(names), len(specs))
    exp_sum = sorted(f"nll_regul_{k}_ind" for k in ind_latent)
    if "nll_regul_ind_sum_ind" in anc_map and anc_map["nll_regul_ind_sum_ind"] != exp_sum:
        out("implicit_nodes", "nll_regul_ind_sum_ind", "summary node does not depend on exactly the regularity terms of the individual latent variables", exp_sum, anc_map["nll_regul_ind_sum_ind"])
    if anc_map.get("nll_regul_ind_sum") != ["nll_regul_ind_sum_ind"]:
        out("implicit_nodes", "nll_regul_ind_sum", "nll_regul_ind_sum must depend on nll_regul_ind_sum_ind only", ["nll_regul_ind_sum_ind"], anc_map.get("nll_regul_ind_sum"))

    ref = L.reference(names, anc_map)
    n_tr = 0
    kind, dag, obs = L.run_once(specs, None)
    n_tr += 1
    label = obs if kind == "refused" else f"model_graph:accepted:depth={L.depth_of(ref['graph']) if ref['valid'] else '?'}"
    if kind == "refused":
        if ref["valid"]:
            out("refused_valid", type(dag).__name__, f"model definitions refused: {type(dag).__name__}: {str(dag)[:300]}", "a graph", obs)
        return label, n_tr, len(names)
    if not ref["valid"]:
        out("accepted_invalid", "+".join(sorted(ref["reasons"])), "invalid model definitions accepted", "refusal", obs["order"])
        return label, n_tr, len(names)
    got_anc = {k: sorted(v) for k, v in dag.direct_ancestors.items()}
    if got_anc != anc_map:
        bad = sorted(k for k in anc_map if got_anc.get(k) != anc_map[k])
        out("direct_ancestors_mismatch", "from_dict", f"direct ancestors differ from the keyword names of the linked functions for {bad[:5]}",
            {k: anc_map[k] for k in bad[:5]}, {k: got_anc.get(k) for k in bad[:5]})
    # same oracle as the toy graphs (identity of the looked-up objects is not demanded: automatic variables are re-created on access)
    obs_for_check = dict(obs)
    variables_types = {k: plain[k] for k in names}

    L.check_accepted(site, _IdentityFree(dag, variables_types), obs_for_check, variables_types, ref["graph"], out, path_matrix=True)
    # the graph held by the model itself, and other insertion orders of the same definitions
    others = {
        "model.dag": lambda: ("accepted", model.dag, L.observe(model.dag)),
        "second from_dict": lambda: L.run_once(model.get_variables_specs(), None),
        "plain dict": lambda: L.run_once(dict(plain), None),
        "reversed dict": lambda: L.run_once({k: plain[k] for k in reversed(names)}, None),
        "name-sorted dict": lambda: L.run_once({k: plain[k] for k in sorted(names)}, None),
        "direct constructor, reversed": lambda: L.run_once({k: plain[k] for k in reversed(names)},
                                                          {k: frozenset(reversed(anc_map[k])) for k in reversed(names)}),
    }
    for how, fn in others.items():
        k2, _, obs2 = fn()
        n_tr += 0 if how == "model.dag" else 1
        if (k2, obs2) != (kind, obs):
            out("nondeterministic", "model.dag" if how == "model.dag" else "insertion_order",
                f"{how} gives another graph than from_dict(get_variables_specs())", obs["order"], obs2["order"] if k2 == "accepted" else obs2)
    return label, n_tr, len(names)


class _IdentityFree:
    """View of a DAG whose item lookup returns the object of the reference dict (identity is not part of the model check)."""

    def __init__(self, dag, variables):
        self._dag = dag
        self._variables = variables

    def __getattr__(self, k):
        return getattr(self._dag, k)

    def __getitem__(self, k):
        v = self._dag[k]
        ref = self._variables[k]
        return ref if type(v) is type(ref) else v


def _run_model(shard, acc):
    name = shard["name"]
    stored = {"kind": "model", "name": name}

    def emit(sig, msg, expected=None, observed=None):
        acc.violation(sig, msg, stored, expected, observed)

    label, n_tr, n_nodes = _check_model(name, emit)
    acc.evaluation(n_tr)
    acc.transition(n_tr)
    acc.state()
    acc.nontriv({"model": name})
    acc.outcome(label)
    acc.count("model_graph_nodes", n_nodes)


# ------------------------------------------------------------------------------------------
# other hash seeds (child processes)

def spawn_child(hashseed, desc):
    env = dict(os.environ, PYTHONHASHSEED=str(hashseed))
    p = subprocess.run([sys.executable, "-W", "ignore", "-m", "lmc.c15_lib"], input=json.dumps(desc), text=True,
                       capture_output=True, env=env, cwd=str(VERIF), timeout=1200)
    lines = [l for l in p.stdout.splitlines() if l.startswith("C15-CHILD-RESULT ")]
    if p.returncode != 0 or not lines:
        raise RuntimeError(f"hash-seed child failed (rc={p.returncode}): {p.stderr[-2000:]}")
    res = json.loads(lines[-1][len("C15-CHILD-RESULT "):])
    import leaspy

    if res["leaspy"] != leaspy.__file__:
        raise RuntimeError(f"child imported leaspy from {res['leaspy']}, parent from {leaspy.__file__}")
    if res["hashseed"] != str(hashseed):
        raise RuntimeError("child did not run under the requested hash seed")
    return res


def _hashseed_violations(hashseed, desc, emit, acc=None):
    items = L.expand(desc)
    mine = L.digests(desc)
    res = spawn_child(hashseed, desc)
    theirs = res["digests"]
    if len(theirs) != len(mine):
        raise RuntimeError("child enumerated another number of cases")
    differs = res["probe"] != L.hash_probe()
    if acc is not None and any(str(d).startswith("skipped") for d in mine + theirs):
        acc.cap(f"{L.MAX_TIMEOUTS} constructions did not terminate within {L.CASE_TIME_LIMIT_S} s; the rest of the hash-seed comparison was skipped")
    for item, d0, d1 in zip(items, mine, theirs):
        if str(d0).startswith("skipped") and str(d1).startswith("skipped"):
            continue
        if acc is not None:
            acc.evaluation(2)
            acc.transition(2)
            acc.state()
            acc.outcome("hashseed:same" if d0 == d1 else "hashseed:differs")
            acc.outcome(d0 if str(d0).startswith("refused") else "accepted")
            acc.nontriv({"model": item} if desc["what"] == "models" else L.case_key(item))
        if d0 != d1:
            if desc["what"] == "models":
                emit("from_dict(model specs)|nondeterministic|hashseed",
                     f"{item}: graph digest under PYTHONHASHSEED={hashseed} differs from PYTHONHASHSEED={os.environ.get('PYTHONHASHSEED')}",
                     {"kind": "hashseed", "hashseed": hashseed, "desc": {"what": "models", "models": [item]}}, d0, d1)
            else:
                emit(f"{L.SITE[item['ctor']]}|nondeterministic|hashseed",
                     f"equal definitions give another result in a process started with PYTHONHASHSEED={hashseed}: {json.dumps(item)}",
                     {"kind": "hashseed", "hashseed": hashseed, "desc": {"what": "cases", "cases": [item]}}, d0, d1)
    return differs, len(items)


def _run_hashseed(shard, acc):
    def emit(sig, msg, case, expected=None, observed=None):
        acc.violation(sig, msg, case, expected, observed)

    differs, n = _hashseed_violations(shard["hashseed"], shard["desc"], emit, acc)
    acc.count("hashseed_children")
    if differs:
        acc.count("hashseed_children_with_other_set_order")
    else:
        raise RuntimeError(f"the child started with PYTHONHASHSEED={shard['hashseed']} iterates sets of names in the same order as the parent: nothing is tested")


# ------------------------------------------------------------------------------------------

_RUNNERS = {
    "small": _run_small,
    "grid": _run_grid,
    "variants": _run_variants,
    "families": _run_families,
    "order_small": _run_order_small,
    "order": _run_order,
    "order5": _run_order5,
    "relabel": _run_relabel,
    "model": _run_model,
    "hashseed": _run_hashseed,
}


def run_shard(shard):
    acc = Acc()
    try:
        _RUNNERS[shard["kind"]](shard, acc)
    except _TooManyTimeouts:
        acc.cap(f"{L.MAX_TIMEOUTS} constructions did not terminate within {L.CASE_TIME_LIMIT_S} s (reported as violations); shard stopped early")
    return acc.to_dict()


def self_check():
    """The reference itself on hand-written graphs (harness error if it is wrong)."""
    ok = L.reference(["a", "b", "c"], {"a": [], "b": ["a"], "c": ["a", "b"]})
    assert ok["valid"] and nx.descendants(ok["graph"], "a") == {"b", "c"}
    assert L.reference(["a", "b"], {"a": ["b"], "b": ["a"]})["reasons"] == {"cycle"}
    assert L.reference(["a", "b", "c"], {"a": [], "b": ["a"], "c": []})["reasons"] == {"isolated"}
    assert L.reference(["a", "b"], {"a": ["a"], "b": ["a"]})["reasons"] == {"self"}
    assert L.reference(["a", "b"], {"a": [], "b": ["a", "zz"]})["reasons"] == {"unknown"}
    assert L.reference(["a", "b"], {"a": [], "b": ["a"], "zz": []})["reasons"] >= {"inconsistent"}
    assert L.reference([], {})["valid"]
    assert sum(L.is_plain_dag(3, b) for b in range(64)) == 18
    # the cheap filter agrees with the reference on every 4-node digraph
    for bits in range(4096):
        names, parents = L.definitions(L.make_case(4, bits))
        assert L.reference(names, dict(zip(names, parents)))["valid"] == L.is_plain_dag(4, bits)


def replay(case):
    out = []

    def emit(sig, msg, expected=None, observed=None):
        out.append({"signature": sig, "message": msg})

    kind = case["kind"]
    if kind == "grid":
        c = case["case"]
        L.check_case(c, emit, twice=True, path_matrix=(c["ctor"] == "direct"))
    elif kind in ("order", "relabel"):
        acc = Acc()
        r = _Run(acc)
        base = r.grid_case(case["base"], twice=False, sample=False)
        if kind == "order":
            _order_pair(r, case["base"], case["case"]["perm_vars"], case["case"]["perm_anc"], base)
        else:
            _relabel_pair(r, case["base"], case["case"]["relabel"], base)
        out.extend({"signature": v["signature"], "message": v["message"]} for v in acc.violations.values())
    elif kind == "model":
        _check_model(case["name"], emit)
    elif kind == "hashseed":
        _hashseed_violations(case["hashseed"], case["desc"], lambda sig, msg, c, e=None, o=None: emit(sig, msg, e, o))
    else:
        raise ValueError(kind)
    return out

"""C16 -- individual-parameter containers convert losslessly.

E-GRID over (identifier list x parameter naming x shape per parameter x value type x value placement) and,
from every such container, E-HIST: breadth-first search over conversion chains
    {dict (re-add), JSON file, DataFrame, CSV file, tensors}
on the real `IndividualParameters` object (states = distinct container contents; every transition = one
"to form" call + one "from form" call of the implementation).  After every transition BOTH the
intermediate form (table / tensors / file text, read with csv / json from the standard library) and the
container that comes back are compared with a plain-Python reference (lists of floats).

Second grid: malformed additions (duplicate / non-string identifier, unsupported value type, mixed list,
shape inconsistent with earlier entries) must raise LeaspyIndividualParamsInputError, leave the container
untouched and not poison later valid additions -- whatever route built the container (additions only, load(json) with
each save option, load(csv), from_dataframe, from_pytorch, re-adding, subset).

Third grid: containers that start from a hand-built table (`from_dataframe`) or from tensors
(`from_pytorch`) instead of `add_individual_parameters`.
"""

from __future__ import annotations

import csv
import itertools
import json
import math
import os
import shutil
import tempfile
import traceback

import numpy as np
import pandas as pd
import torch

from leaspy.exceptions import LeaspyIndividualParamsInputError
from leaspy.io.outputs.individual_parameters import IndividualParameters

from ..core import Acc, digest

ID = "C16"
LEVEL = "exploration"
RULE = (
    "every container of the grid (identifier list x parameter naming x shape per parameter in {(),(1,),(2,),(3,)} "
    "x scalar/vector value type x value placement) is built on the real class and every conversion chain over "
    "{re-add dict, JSON file (default / sort_keys=True / compact), DataFrame, CSV file, tensors} up to the stated length is walked breadth-first "
    "(container contents reached twice are expanded once); a case is distinct and non-trivial when the pair "
    "(container contents incl. python types, conversion step) is new, respectively when the triple "
    "(container before, malformed addition, position) is new; every case executes the implementation and is "
    "compared with a list-of-floats reference, intermediate table/tensor/file forms included; every distinct "
    "container reached is moreover read through ALL its accessors (table, tensors, items, subset in three orders, "
    "mean/std/identity aggregates) and each is compared with the reference"
)
ASSUMPTIONS = [
    "non-empty containers only (conversions of an empty container are outside the property)",
    "a size-1 parameter may come back as () or (1,) from a table / CSV / tensor form (these forms cannot tell them apart); "
    "JSON and dict forms must keep the exact shape",
    "values typed numpy.float32 are compared at single precision from the start (their CSV text is the float32 repr); "
    "every value is compared at single precision once a tensor was on the path; bit-exact (==, NaN-aware) otherwise",
    "int values must come back numerically equal (70 == 70.0); integer alphabet stays below 2**24+2",
    "order of parameter names is not part of the property (identifier order is)",
    "items() and get_aggregate() are treated as order-free views (mapping / multiset): the internal dict may "
    "legitimately be ordered differently from the identifier list (e.g. after loading a JSON file written with sort_keys=True); "
    "to_dataframe, to_pytorch, subset and save must follow the identifier list",
    "parameter names do not end in _<digits> (inherently ambiguous in the table form)",
    "value placement: every slot takes every value of the alphabet (cyclic offsets), not the full product of slots x values",
    "quick tier pairs scalar and vector value types diagonally; thorough takes their full product",
]

IP = IndividualParameters
IP_FILE = "individual_parameters.py"
CONVERSION_FRAMES = {
    "to_dataframe", "from_dataframe", "to_pytorch", "from_pytorch", "save", "load",
    "_save_json", "_load_json", "_save_csv", "_load_csv", "_check_and_get_extension",
}

# ------------------------------------------------------------------------------------------ alphabets

F32X = 0.10000000149011612  # float(np.float32(0.1)): the kind of double a personalisation hands over
VALUES = {
    "quick": [0.1, -3.5, 1e-8, 1e6, F32X],
    "thorough": [0.1, -3.5, 1e-8, 1e6, F32X, 1 / 3, 16777217.0, -0.0, float("inf"), float("nan")],
}
INTS = [70, -3, 0, 1000000, 16777217]

ID_LISTS = {
    # several lists whose lexicographic order differs from their insertion order (JSON written with sort_keys=True
    # then stores the individuals in another order than the identifier list)
    "quick": [["a"], ["1", "02"], ["z", "y", "x"], ["NA", "b"], ["10", "9", "100", "2"]],
    "thorough": [["a"], ["1", "02"], ["x", "y", "z"], ["z", "y", "x"], ["NA", "b"], ["10", "9", "100", "2"],
                 ["10", "9", "1.0", " a"], ["null"], ["nan", "None", "c"], ["a,b", 'q"r', "é"]],
}
NAMINGS = {
    "quick": [["xi", "tau"], ["xi", "tau", "sources"], ["my_p", "tau"], ["sources"], ["xi"]],
    "thorough": [["xi", "tau"], ["xi", "tau", "sources"], ["my_p", "tau"], ["sources"], ["xi"],
                 ["a_x", "a_y"], ["w_sources"], ["tau", "xi_source_k"]],
}
SHAPES = [[], [1], [2], [3]]
SCALAR_TYPES = ["float", "int", "np.float32", "np.float64", "np.int64", "np.int32", "ndarray0d"]
VECTOR_TYPES = ["list_float", "list_int", "list_np.float32", "list_np.float64", "ndarray_i64",
                "list_int_float", "ndarray_f64", "ndarray_f32"]
DIAGONAL = list(zip(SCALAR_TYPES + ["float"], VECTOR_TYPES))
STEPS = ["dict", "json", "json_sorted", "json_compact", "df", "csv", "torch"]
# keyword arguments forwarded by save(path, **kwargs) to json.dump (documented: `ip.save("params.json", indent=4)`)
JSON_KWARGS = {
    "json": {},
    "json_sorted": {"sort_keys": True, "indent": 4},
    "json_compact": {"indent": None, "separators": (",", ":")},
}
PANDAS_NA_STRINGS = {"", "NA", "N/A", "n/a", "nan", "NaN", "-nan", "-NaN", "null", "NULL", "None", "<NA>", "#N/A",
                     "#NA", "#N/A N/A", "-1.#IND", "-1.#QNAN", "1.#IND", "1.#QNAN"}
# column orders tried for hand-built tables (drop "reversed" to stop asking that `_i` suffixes be honoured)
TABLE_START_COLUMN_ORDERS = ("canonical", "reversed")


def _scalar(styp, vf, vi):
    """-> (object handed to the implementation, reference float, precision)"""
    if styp == "float":
        return float(vf), float(vf), "exact"
    if styp == "int":
        return int(vi), float(vi), "exact"
    if styp == "np.float32":
        return np.float32(vf), float(np.float32(vf)), "f32"
    if styp == "np.float64":
        return np.float64(vf), float(vf), "exact"
    if styp == "np.int64":
        return np.int64(vi), float(vi), "exact"
    if styp == "np.int32":
        return np.int32(vi), float(vi), "exact"
    if styp == "ndarray0d":
        return np.array(float(vf)), float(vf), "exact"
    raise ValueError(styp)


def _vector(vtyp, pairs):
    vf = [p[0] for p in pairs]
    vi = [p[1] for p in pairs]
    if vtyp == "list_float":
        return [float(v) for v in vf], [float(v) for v in vf], "exact"
    if vtyp == "list_int":
        return [int(v) for v in vi], [float(v) for v in vi], "exact"
    if vtyp == "list_np.float32":
        return [np.float32(v) for v in vf], [float(np.float32(v)) for v in vf], "f32"
    if vtyp == "list_np.float64":
        return [np.float64(v) for v in vf], [float(v) for v in vf], "exact"
    if vtyp == "list_int_float":
        return [int(vi[0])] + [float(v) for v in vf[1:]], [float(vi[0])] + [float(v) for v in vf[1:]], "exact"
    if vtyp == "ndarray_f64":
        return np.array(vf, dtype=np.float64), [float(v) for v in vf], "exact"
    if vtyp == "ndarray_f32":
        return np.array(vf, dtype=np.float32), [float(np.float32(v)) for v in vf], "exact"
    if vtyp == "ndarray_i64":
        return np.array(vi, dtype=np.int64), [float(v) for v in vi], "exact"
    raise ValueError(vtyp)


def _slot(spec, j):
    vals = VALUES[spec["vset"]]
    k = spec["offset"] + j
    return vals[k % len(vals)], INTS[k % len(INTS)]


# ------------------------------------------------------------------------------------------ reference

def _size(shape):
    return 1 if len(shape) == 0 else shape[0]


def new_ref(ids, names, shapes):
    return {"ids": list(ids), "names": list(names), "shape": {n: tuple(s) for n, s in zip(names, shapes)},
            "prec": {n: "exact" for n in names}, "vals": {i: {} for i in ids}}


def ref_after(ref, step):
    """Reference after one conversion step: identity, except single-precision rounding through tensors."""
    out = {"ids": list(ref["ids"]), "names": list(ref["names"]), "shape": dict(ref["shape"]),
           "prec": dict(ref["prec"]), "vals": {i: {n: list(v) for n, v in d.items()} for i, d in ref["vals"].items()}}
    if step == "torch":
        for d in out["vals"].values():
            for n in d:
                d[n] = [float(np.float32(x)) for x in d[n]]
    return out


def num_eq(a, b, prec):
    a, b = float(a), float(b)
    if a != a or b != b:
        return a != a and b != b
    if prec == "f32":
        return bool(np.float32(a) == np.float32(b))
    return a == b


def _is_number(x):
    return isinstance(x, (int, float, np.integer, np.floating)) and not isinstance(x, (bool, np.bool_))


def _within_ulps(a, b, n=4):
    a, b = float(a), float(b)
    if not (math.isfinite(a) and math.isfinite(b)):
        return False
    return abs(a - b) <= n * math.ulp(max(abs(a), abs(b)))


# ------------------------------------------------------------------------------------------ observation

def _tag(v):
    if isinstance(v, list):
        return [_tag(x) for x in v]
    return f"{type(v).__name__}:{v!r}"


def state_key(ip):
    return repr((
        list(ip._indices),
        None if ip._parameters_shape is None else list(ip._parameters_shape.items()),
        [(i, [(k, _tag(v)) for k, v in p.items()]) for i, p in ip._individual_parameters.items()],
    ))


def features(ip):
    f = set()
    shapes = ip._parameters_shape or {}
    if any(tuple(s) == () for s in shapes.values()):
        f.add("scalar_shape")
    if any("_" in n for n in shapes):
        f.add("underscore_name")
    if any(isinstance(i, str) and i in PANDAS_NA_STRINGS for i in ip._indices):
        f.add("na_like_id")
    for p in ip._individual_parameters.values():
        for v in p.values():
            for x in (v if isinstance(v, list) else [v]):
                if isinstance(x, np.generic) and not isinstance(x, (float, int)):
                    f.add("numpy_scalar")
    if list(ip._individual_parameters) != list(ip._indices):
        f.add("dict_order_differs")
    if any(len(tuple(s)) == 1 and tuple(s)[0] > 10 for s in shapes.values()):
        f.add("long_vector")
    return f


def coarse(ip_or_ref_shapes, n_ids):
    """Fallback input feature of a signature (no narrower known cause): deliberately coarse, so that one defect
    does not fan out into one signature per shape combination."""
    return "one individual" if n_ids == 1 else "several individuals"


def compare_container(ip, ref, amb):
    """-> list of (kind, message, expected, observed), most basic disagreement first; [] = same content.
    `amb`: a size-1 parameter may be () or (1,) (table / tensor forms cannot tell)."""
    out = []
    ids = list(ip._indices)
    if ids != ref["ids"] or not all(isinstance(i, str) for i in ids):
        return [("identifiers changed", "identifiers (strings, in order) differ", ref["ids"], [repr(i) for i in ids])]
    item_ids = [i for i, _ in ip.items()]
    if sorted(map(repr, item_ids)) != sorted(map(repr, ids)):  # a mapping view: same keys, order free
        return [("identifiers changed", "items() and the index list hold different identifiers", ids, [repr(i) for i in item_ids])]
    shapes = {k: tuple(v) for k, v in (ip._parameters_shape or {}).items()}
    if set(shapes) != set(ref["names"]):
        return [("parameter names changed", "parameter names differ", sorted(ref["names"]), sorted(shapes))]
    for n in ref["names"]:
        exp, got = ref["shape"][n], shapes[n]
        ok = got == exp or (amb and _size(exp) == 1 and got in ((), (1,)))
        if not ok:
            out.append(("shape changed", f"shape of {n!r}", list(exp), list(got)))
    if out:
        return out[:1]
    for i in ids:
        p = ip[i]
        if not isinstance(p, dict) or set(p) != set(ref["names"]):
            return [("parameter names changed", f"entries of individual {i!r}", sorted(ref["names"]),
                     sorted(p) if isinstance(p, dict) else repr(p))]
        for n in ref["names"]:
            v, shp = p[n], shapes[n]
            flat = v if isinstance(v, list) else [v]
            if (shp == ()) != (not isinstance(v, list)) or (shp != () and len(v) != shp[0]) or not all(_is_number(x) for x in flat):
                return [("stored value inconsistent with recorded shape", f"{i!r}.{n}: value {v!r} vs shape {shp}", list(shp), repr(v))]
            exp = ref["vals"][i][n]
            if len(flat) != len(exp):
                return [("shape changed", f"{i!r}.{n}", exp, [float(x) for x in flat])]
            bad = [(a, b) for a, b in zip(flat, exp) if not num_eq(a, b, ref["prec"][n])]
            if bad:
                kind = "value differs in the last float64 digits" if all(_within_ulps(a, b) for a, b in bad) else "value changed"
                return [(kind, f"{i!r}.{n}", exp, [float(x) for x in flat])]
    return []


def adopt_shapes(ip, ref):
    for n in ref["names"]:
        ref["shape"][n] = tuple(ip._parameters_shape[n])


# ---- intermediate forms

def _expected_columns(ref, cols):
    """Map every (parameter, component) to a column position; None if the header is not an admissible naming.
    size 1: `p` or `p_0`; size n>=2: `p_0` ... `p_{n-1}` exactly."""
    if len(set(cols)) != len(cols):
        return None
    where, used = {}, set()
    for n in ref["names"]:
        s = _size(ref["shape"][n])
        cands = [[f"{n}_{k}" for k in range(s)]]
        if s == 1:
            cands.insert(0, [n])
        for c in cands:
            if all(x in cols for x in c):
                where[n] = [cols.index(x) for x in c]
                used.update(c)
                break
        else:
            return None
    return where if used == set(cols) else None


def check_table(ids, cols, rows, index_name, ref, what):
    if index_name != "ID":
        return [("index column is not named ID", what, "ID", repr(index_name))]
    if ids != ref["ids"] or not all(isinstance(i, str) for i in ids):
        return [("identifiers changed", what, ref["ids"], [repr(i) for i in ids])]
    where = _expected_columns(ref, cols)
    if where is None:
        exp = [n if _size(ref["shape"][n]) == 1 else [f"{n}_{k}" for k in range(_size(ref["shape"][n]))] for n in ref["names"]]
        return [("column names are not <name> / <name>_0..<name>_{n-1}", what, exp, cols)]
    for r, i in zip(rows, ids):
        for n in ref["names"]:
            got = [r[c] for c in where[n]]
            exp = ref["vals"][i][n]
            if not all(_is_number(x) for x in got) or not all(num_eq(a, b, ref["prec"][n]) for a, b in zip(got, exp)):
                return [("value changed", f"{what}: row {i!r} parameter {n}", exp, [repr(x) for x in got])]
    return []


def check_dataframe(df, ref):
    if not isinstance(df, pd.DataFrame):
        return [("not a DataFrame", "to_dataframe", "DataFrame", type(df).__name__)]
    rows = [[df.iloc[r, c] for c in range(df.shape[1])] for r in range(df.shape[0])]
    return check_table(list(df.index), [str(c) for c in df.columns], rows, df.index.name, ref, "DataFrame")


def check_csv_file(path, ref):
    with open(path, newline="", encoding="utf-8") as f:
        table = list(csv.reader(f))
    header, body = table[0], table[1:]
    try:
        rows = [[float(x) if x != "" else float("nan") for x in r[1:]] for r in body]
    except ValueError:
        return [("non-numeric cell", "CSV file", None, body)]
    return check_table([r[0] for r in body], header[1:], rows, header[0], ref, "CSV file")


def check_tensors(res, ref):
    if not (isinstance(res, tuple) and len(res) == 2):
        return [("not an (ids, dict) pair", "to_pytorch", None, repr(res)[:200])]
    ids, d = res
    ids = list(ids)
    if ids != ref["ids"] or not all(isinstance(i, str) for i in ids):
        return [("identifiers changed", "tensor form", ref["ids"], [repr(i) for i in ids])]
    if set(d) != set(ref["names"]):
        return [("parameter names changed", "tensor form", sorted(ref["names"]), sorted(d))]
    for n in ref["names"]:
        t = d[n]
        exp_shape = (len(ids), _size(ref["shape"][n]))
        if not isinstance(t, torch.Tensor) or t.dtype != torch.float32 or tuple(t.shape) != exp_shape:
            return [("tensor is not 2-D float32 (individuals x size)", f"tensor form: {n}", list(exp_shape),
                     f"{getattr(t, 'dtype', type(t).__name__)} {list(getattr(t, 'shape', []))}")]
        for r, i in enumerate(ids):
            got = [float(x) for x in t[r].tolist()]
            exp = [float(np.float32(x)) for x in ref["vals"][i][n]]
            if not all(num_eq(a, b, "exact") for a, b in zip(got, exp)):
                return [("value changed", f"tensor form: row {i!r} parameter {n}", exp, got)]
    return []


def check_json_file(path, ref):
    with open(path, encoding="utf-8") as f:
        data = json.load(f)
    if data.get("indices") != ref["ids"]:
        return [("identifiers changed", "JSON file", ref["ids"], data.get("indices"))]
    shp = data.get("parameters_shape")
    if not isinstance(shp, dict) or set(shp) != set(ref["names"]):
        return [("parameter names changed", "JSON file", sorted(ref["names"]), shp)]
    for n in ref["names"]:
        if tuple(shp[n]) != ref["shape"][n]:
            return [("shape changed", f"JSON file: {n}", list(ref["shape"][n]), shp[n])]
    ips = data.get("individual_parameters")
    if not isinstance(ips, dict) or sorted(ips) != sorted(ref["ids"]):  # order is carried by "indices"
        return [("identifiers changed", "JSON file: individual_parameters", ref["ids"], list(ips) if isinstance(ips, dict) else None)]
    for i in ref["ids"]:
        if set(ips[i]) != set(ref["names"]):
            return [("parameter names changed", f"JSON file: {i!r}", sorted(ref["names"]), sorted(ips[i]))]
        for n in ref["names"]:
            v = ips[i][n]
            flat = v if isinstance(v, list) else [v]
            exp = ref["vals"][i][n]
            if (ref["shape"][n] == ()) != (not isinstance(v, list)) or len(flat) != len(exp) or not all(_is_number(x) for x in flat):
                return [("shape changed", f"JSON file: {i!r}.{n}", exp, v)]
            if not all(num_eq(a, b, ref["prec"][n]) for a, b in zip(flat, exp)):
                return [("value changed", f"JSON file: {i!r}.{n}", exp, v)]
    return []


# ------------------------------------------------------------------------------------------ running the implementation

class Impl(Exception):
    """An exception raised by the implementation (never by the harness)."""

    def __init__(self, site, exc):
        self.site, self.exc = site, exc


def call(site, fn, *a, **k):
    try:
        return fn(*a, **k)
    except Exception as e:  # noqa: BLE001 - everything the implementation raises is an observation
        deepest = None
        for fr, _ in traceback.walk_tb(e.__traceback__):
            if fr.f_code.co_filename.endswith(IP_FILE) and fr.f_code.co_name in CONVERSION_FRAMES:
                deepest = fr.f_code.co_name
        if isinstance(e, LeaspyIndividualParamsInputError) or deepest is None or deepest in ("save", "load"):
            deepest = site
        raise Impl(deepest, e) from None


def feature_for(site, kind, feats, coarse_txt):
    """Minimal input feature of a signature: the narrowest known cause present in the container, else a coarse class."""
    if site == "to_dataframe" and kind == "IndexError" and "scalar_shape" in feats:
        return "scalar-shaped () parameter"
    if site == "_save_json" and kind == "TypeError" and "numpy_scalar" in feats:
        return "stored numpy scalar that is not a Python float/int (float32, int32, int64)"
    if site in ("from_dataframe", "load(csv)") and kind in ("parameter names changed", "shape changed") and "underscore_name" in feats:
        return "parameter name containing '_'"
    if site == "load(csv)" and kind in ("LeaspyIndividualParamsInputError", "identifiers changed") and "na_like_id" in feats:
        return "identifier that pandas reads as a missing value (NA, nan, null, None, empty)"
    if site == "load(csv)" and kind == "value differs in the last float64 digits":
        return "float64 value written with 16-17 significant digits"
    if "long_vector" in feats and site in ("from_dataframe", "load(csv)") and kind == "value changed":
        return "vector parameter with more than 10 components (two-digit column suffixes)"
    if "dict_order_differs" in feats and kind in ("value changed", "identifiers changed", "shape changed"):
        return "container whose internal dict order differs from its identifier list (e.g. loaded from JSON saved with sort_keys=True)"
    return coarse_txt


def apply_step(step, ip, ref, tmp):
    """One conversion step on the real object.  -> (new container | None, new reference, violations, label);
    violations = [(signature, message, expected, observed)]"""
    feats = features(ip)
    ctxt = coarse(ref["shape"].values(), len(ref["ids"]))
    before = state_key(ip)
    new_ref = ref_after(ref, step)
    amb = step in ("df", "csv", "torch")

    def viol(site, kind, msg, exp=None, obs=None):
        return (f"{site}|{kind}|{feature_for(site, kind, feats, ctxt)}", f"step {step}: {msg}", exp, obs)

    out = []
    new = None
    try:
        if step == "dict":
            form = call("__getitem__", lambda: [(i, ip[i]) for i in ip._indices])
            new = IP()
            for i, p in form:
                call("add_individual_parameters(re-add)", new.add_individual_parameters, i, p)
            back_site = "add_individual_parameters(re-add)"
        elif step in JSON_KWARGS:
            path = os.path.join(tmp, "ip.json")
            call("save(json)", ip.save, path, **JSON_KWARGS[step])
            out += [viol("save(json)", k, m, e, o) for k, m, e, o in check_json_file(path, ref)]
            if not out:
                new = call("load(json)", IP.load, path)
            back_site = "load(json)"
        elif step == "df":
            df = call("to_dataframe", ip.to_dataframe)
            out += [viol("to_dataframe", k, m, e, o) for k, m, e, o in check_dataframe(df, ref)]
            if not out:
                new = call("from_dataframe", IP.from_dataframe, df)
            back_site = "from_dataframe"
        elif step == "csv":
            path = os.path.join(tmp, "ip.csv")
            call("save(csv)", ip.save, path)
            bad = check_csv_file(path, ref)
            if bad:
                # a file that merely reflects a wrong table belongs to to_dataframe, anything else to save(csv)
                site = "save(csv)"
                try:
                    alt = check_dataframe(ip.to_dataframe(), ref)
                    if alt and alt[0][0] == bad[0][0]:
                        site = "to_dataframe"
                except Exception:  # noqa: BLE001
                    pass
                out += [viol(site, k, m, e, o) for k, m, e, o in bad]
            if not out:
                new = call("load(csv)", IP.load, path)
            back_site = "load(csv)"
        elif step == "torch":
            res = call("to_pytorch", ip.to_pytorch)
            out += [viol("to_pytorch", k, m, e, o) for k, m, e, o in check_tensors(res, ref)]
            if not out:
                ids_t, d = res
                new = call("from_pytorch", IP.from_pytorch, list(ids_t), d)
            back_site = "from_pytorch"
        else:
            raise ValueError(step)
    except Impl as e:
        kind = type(e.exc).__name__
        out.append(viol(e.site, kind, f"{kind}: {str(e.exc)[:300]}", "conversion succeeds", kind))
        return None, new_ref, out, f"{step}:{kind}"
    if state_key(ip) != before:
        out.append(viol(step, "source container modified by the conversion", "container differs after the call", None, None))
    if out:
        return None, new_ref, out, f"{step}:form-mismatch"
    if not isinstance(new, IP):
        out.append(viol(back_site, "did not return an IndividualParameters", repr(new)[:200]))
        return None, new_ref, out, f"{step}:not-a-container"
    diffs = compare_container(new, new_ref, amb)
    if diffs:
        site = back_site
        kind, msg, exp, obs = diffs[0]
        if step == "csv":
            # a loss already made by the table round trip on the same container belongs to from_dataframe
            try:
                alt = IP.from_dataframe(ip.to_dataframe())
                alt_d = compare_container(alt, new_ref, amb)
                if alt_d and alt_d[0][0] == kind:
                    site = "from_dataframe"
            except Exception:  # noqa: BLE001
                pass
        out.append(viol(site, kind, msg, exp, obs))
        return None, new_ref, out, f"{step}:{kind}"
    adopt_shapes(new, new_ref)
    changed = [n for n in ref["names"] if new_ref["shape"][n] != ref["shape"][n]]
    return new, new_ref, out, f"{step}:ok" + ("(scalar->len1)" if changed else "")


# ------------------------------------------------------------------------------------------ all accessors of one container

def _sub_ref(ref, ids):
    return {"ids": list(ids), "names": list(ref["names"]), "shape": dict(ref["shape"]), "prec": dict(ref["prec"]),
            "vals": {i: ref["vals"][i] for i in ids}}


def _identity(p, axis=0):
    return np.asarray(p, dtype=float)


def check_views(ip, ref):
    """Read ONE container through every accessor and compare each with the reference (an internal-order
    inconsistency shows whichever accessor is wrong).  -> violations [(signature, message, expected, observed)]"""
    feats = features(ip)
    ctxt = coarse(ref["shape"].values(), len(ref["ids"]))
    before = state_key(ip)
    out = []

    def viol(site, kind, msg, exp=None, obs=None):
        out.append((f"{site}|{kind}|{feature_for(site, kind, feats, ctxt)}", f"view {site}: {msg}", exp, obs))

    def view(site, fn, check):
        try:
            res = call(site, fn)
        except Impl as e:
            kind = type(e.exc).__name__
            viol(e.site, kind, f"{kind}: {str(e.exc)[:300]}", "succeeds", kind)
            return
        for k, m, e, o in check(res)[:1]:
            viol(site, k, m, e, o)

    ids = ref["ids"]
    view("to_dataframe", ip.to_dataframe, lambda df: check_dataframe(df, ref))
    view("to_pytorch", ip.to_pytorch, lambda res: check_tensors(res, ref))

    def chk_items(items):
        d = dict(items)
        if len(items) != len(ids) or set(d) != set(ids):
            return [("identifiers changed", "items()", sorted(ids), sorted(map(repr, d)))]
        return [("value changed", f"items()[{i!r}] is not the entry of {i!r}", None, None) for i in ids if d[i] is not ip[i] and d[i] != ip[i]]
    view("items", lambda: list(ip.items()), chk_items)

    orders = [list(reversed(ids)), ids[:1], ids[1:] + ids[:1]] if len(ids) > 1 else [list(ids)]
    for k, sel in enumerate(orders):
        for copy in ((True, False) if k == 0 else (True,)):
            view("subset", lambda sel=sel, copy=copy: ip.subset(list(sel), copy=copy),
                 lambda sub, sel=sel: ([("did not return an IndividualParameters", "subset", None, repr(sub)[:100])]
                                      if not isinstance(sub, IP) else compare_container(sub, _sub_ref(ref, sel), False)))

    finite = all(math.isfinite(x) for i in ids for n in ref["names"] for x in ref["vals"][i][n])
    for n in ref["names"]:
        rows = [ref["vals"][i][n] for i in ids]  # n_ind x size

        def chk_multiset(res, rows=rows, n=n):
            got = np.asarray(res, dtype=float).reshape(len(ids), -1).tolist()
            f32 = ref["prec"][n] == "f32"
            key = lambda r: [(-1.0, 0.0) if x != x else (0.0, float(np.float32(x)) if f32 else float(x)) for x in r]  # noqa: E731
            got, exp = sorted(got, key=key), sorted(rows, key=key)
            if not all(num_eq(a, b, ref["prec"][n]) for r, e in zip(got, exp) for a, b in zip(r, e)):
                return [("value changed", f"get_aggregate({n!r}, identity) is not the multiset of stored values", exp, got)]
            return []
        view("get_aggregate", lambda n=n: ip.get_aggregate(n, _identity), chk_multiset)
        if not finite:
            continue
        arr = np.asarray(rows, dtype=float)
        scale = float(np.abs(arr).max()) if arr.size else 0.0
        # float64 mean / std of <= 4 numbers: error <= a few eps * max|x|; parameters compared at single precision: eps32
        tol = (64 * 2.0 ** -52 if ref["prec"][n] == "exact" else 32 * 2.0 ** -23) * scale
        for site, fn, exp in (("get_mean", ip.get_mean, arr.mean(axis=0)), ("get_std", ip.get_std, arr.std(axis=0))):
            def chk(res, exp=exp, site=site, n=n):
                got = np.asarray(res, dtype=float).reshape(-1)
                if got.shape != exp.shape or not np.all(np.abs(got - exp) <= tol):
                    return [("value changed", f"{site}({n!r})", exp.tolist(), got.tolist())]
                return []
            view(site, lambda fn=fn, n=n: fn(n), chk)
    if state_key(ip) != before:
        viol("accessors", "source container modified by reading it", "container differs after the calls")
    return out


# ------------------------------------------------------------------------------------------ starting points

def build_start(spec):
    """-> (container | None, reference, violations, label)."""
    ids, names = spec["ids"], spec["names"]
    start = spec["start"]
    if start == "add":
        shapes = [tuple(s) for s in spec["shapes"]]
        ref = new_ref(ids, names, shapes)
        total = sum(_size(s) for s in shapes)
        per_ind = []
        for i_k, i in enumerate(ids):
            j = i_k * total
            d = {}
            for n, s in zip(names, shapes):
                if s == ():
                    obj, rv, prec = _scalar(spec["styp"], *_slot(spec, j))
                    rv = [rv]
                else:
                    obj, rv, prec = _vector(spec["vtyp"], [_slot(spec, j + c) for c in range(s[0])])
                j += _size(s)
                d[n] = obj
                ref["vals"][i][n] = rv
                ref["prec"][n] = prec
            rot = (i_k * spec.get("rot", 0)) % len(names)
            order = names[rot:] + names[:rot]
            per_ind.append((i, {n: d[n] for n in order}))
        ip = IP()
        try:
            for i, d in per_ind:
                call("add_individual_parameters", ip.add_individual_parameters, i, d)
        except Impl as e:
            kind = type(e.exc).__name__
            sig = f"add_individual_parameters|{kind}|valid addition refused ({spec['styp']}/{spec['vtyp']})"
            return None, ref, [(sig, f"{kind}: {str(e.exc)[:300]}", "accepted", kind)], f"add:{kind}"
        site, amb = "add_individual_parameters", False
    elif start == "pytorch":
        sizes = spec["sizes"]
        dtype = getattr(torch, spec["dtype"])
        ref = new_ref(ids, names, [(s,) for s in sizes])
        total = sum(sizes)
        d = {}
        for n_k, (n, s) in enumerate(zip(names, sizes)):
            off = sum(sizes[:n_k])
            rows = [[_slot(spec, i_k * total + off + c)[0] for c in range(s)] for i_k in range(len(ids))]
            t = torch.tensor(rows, dtype=dtype)
            if spec["oned"] and s == 1:
                t = t.reshape(-1)
                ref["shape"][n] = ()
            d[n] = t
            for i_k, i in enumerate(ids):
                ref["vals"][i][n] = [float(x) for x in t.reshape(len(ids), s)[i_k].tolist()]
        try:
            ip = call("from_pytorch", IP.from_pytorch, list(ids), d)
        except Impl as e:
            kind = type(e.exc).__name__
            return None, ref, [(f"from_pytorch|{kind}|{spec['dtype']} tensors", f"{kind}: {str(e.exc)[:300]}", "accepted", kind)], f"from_pytorch:{kind}"
        site, amb = "from_pytorch", True
    elif start == "dataframe":
        sizes = spec["sizes"]
        ref = new_ref(ids, names, [(s,) for s in sizes])
        total = sum(sizes)
        cols = []
        for n_k, (n, s) in enumerate(zip(names, sizes)):
            off = sum(sizes[:n_k])
            for c in range(s):
                col = n if (s == 1 and not spec["suffix1"]) else f"{n}_{c}"
                data = [_slot(spec, i_k * total + off + c)[0] for i_k in range(len(ids))]
                cols.append((col, data))
            for i_k, i in enumerate(ids):
                ref["vals"][i][n] = [float(_slot(spec, i_k * total + off + c)[0]) for c in range(s)]
        if spec["colorder"] == "reversed":
            cols = cols[::-1]
        elif spec["colorder"] == "lexicographic":  # what `df.sort_index(axis=1)` gives: p_0, p_1, p_10, p_11, p_2 ...
            cols = sorted(cols, key=lambda c: c[0])
        df = pd.DataFrame({c: v for c, v in cols}, index=pd.Index(list(ids), name="ID"))
        try:
            ip = call("from_dataframe", IP.from_dataframe, df)
        except Impl as e:
            kind = type(e.exc).__name__
            if isinstance(e.exc, LeaspyIndividualParamsInputError) and spec["colorder"] != "canonical":
                return None, ref, [], "from_dataframe:refused(column order)"  # refusing is a correct answer too
            return None, ref, [(f"from_dataframe|{kind}|hand-built table", f"{kind}: {str(e.exc)[:300]}", "accepted", kind)], f"from_dataframe:{kind}"
        site, amb = "from_dataframe", True
    else:
        raise ValueError(start)

    diffs = compare_container(ip, ref, amb)
    if diffs:
        kind, msg, exp, obs = diffs[0]
        feat = feature_for(site, kind, features(ip) | ({"underscore_name"} if any("_" in n for n in names) else set()),
                           coarse(ref["shape"].values(), len(ids)))
        if start == "dataframe" and spec["colorder"] != "canonical" and kind == "value changed" and any(s > 1 for s in spec["sizes"]):
            kind, feat = "vector components follow column position instead of their _i suffix", "component columns not in suffix order"
        return None, ref, [(f"{site}|{kind}|{feat}", f"start {start}: {msg}", exp, obs)], f"{site}:{kind}"
    adopt_shapes(ip, ref)
    return ip, ref, [], f"{site}:ok"


def _views(acc, ip, ref, spec, chain):
    acc.evaluation()
    acc.nontriv((state_key(ip), "views"))
    viols = check_views(ip, ref)
    acc.outcome("views:ok" if not viols else "views:" + viols[0][0].split("|")[1])
    for sig, msg, exp, obs in viols:
        acc.violation(sig, msg, {"kind": "chain", "spec": spec, "chain": chain, "views": True}, exp, obs)


def explore(spec, depth, acc, tmp):
    """BFS over conversion chains from one starting container."""
    acc.evaluation()
    ip, ref, viols, label = build_start(spec)
    acc.outcome(label)
    for sig, msg, exp, obs in viols:
        acc.violation(sig, msg, {"kind": "chain", "spec": spec, "chain": []}, exp, obs)
    if ip is None:
        acc.nontriv(("start", spec))
        return
    acc.sample({"spec": spec, "container": {i: {k: _tag(v) for k, v in p.items()} for i, p in ip.items()}})
    seen = {state_key(ip)}
    acc.state()
    _views(acc, ip, ref, spec, [])
    frontier = [(ip, ref, [])]
    fix = False
    for _ in range(depth):
        nxt = []
        for ip, ref, chain in frontier:
            key = state_key(ip)
            for step in STEPS:
                acc.evaluation()
                acc.transition()
                acc.nontriv((key, step))
                new, new_ref, viols, label = apply_step(step, ip, ref, tmp)
                acc.outcome(label)
                for sig, msg, exp, obs in viols:
                    acc.violation(sig, msg, {"kind": "chain", "spec": spec, "chain": chain + [step]}, exp, obs)
                if new is None:
                    continue
                k = state_key(new)
                if k not in seen:
                    seen.add(k)
                    acc.state()
                    _views(acc, new, new_ref, spec, chain + [step])
                    nxt.append((new, new_ref, chain + [step]))
        frontier = nxt
        if not frontier:
            fix = True
            break
    acc.count("starts_explored_to_fixpoint" if fix else "starts_depth_bounded")


# ------------------------------------------------------------------------------------------ malformed additions

def _bad_values():
    return {
        # name: (value factory, malformation class)
        "str": (lambda: "x", "unsupported value type"),
        "None": (lambda: None, "unsupported value type"),
        "bool": (lambda: True, "unsupported value type"),
        "np.bool_": (lambda: np.bool_(True), "unsupported value type"),
        "dict": (lambda: {"a": 1.0}, "unsupported value type"),
        "complex": (lambda: 1j, "unsupported value type"),
        "nested list": (lambda: [[1.0, 2.0]], "unsupported value type"),
        "list of str": (lambda: ["x", "y"], "unsupported value type"),
        "list of bool": (lambda: [True, False], "unsupported value type"),
        "list of None": (lambda: [None, None], "unsupported value type"),
        "2-D ndarray": (lambda: np.array([[1.0, 2.0]]), "unsupported value type"),
        "ndarray of str": (lambda: np.array(["x", "y"]), "unsupported value type"),
        "ndarray of bool": (lambda: np.array([True, False]), "unsupported value type"),
        "[float, str]": (lambda: [1.0, "x"], "list whose non-first element has an unsupported type"),
        "[float, None]": (lambda: [1.0, None], "list whose non-first element has an unsupported type"),
        "[float, list]": (lambda: [1.0, [2.0]], "list whose non-first element has an unsupported type"),
        "[float, bool]": (lambda: [1.0, True], "list whose non-first element has an unsupported type"),
        "[int, float, str]": (lambda: [1, 2.0, "x"], "list whose non-first element has an unsupported type"),
    }


BAD_IDS = {"int": lambda: 1, "float": lambda: 1.5, "None": lambda: None, "bytes": lambda: b"a",
           "tuple": lambda: ("a",), "bool": lambda: True, "np.int64": lambda: np.int64(3)}
BAD_DICTS = {"list of pairs": lambda: [("xi", 0.1)], "None": lambda: None, "str": lambda: "xi", "float": lambda: 0.1}
REJECT_BASES = [
    (["xi"], [[]]), (["xi"], [[1]]), (["xi"], [[2]]),
    (["xi", "tau", "sources"], [[], [], [2]]), (["xi", "tau", "sources"], [[1], [1], [2]]),
    (["xi", "tau", "sources"], [[], [1], [3]]), (["my_p", "tau"], [[], [2]]),
]


def _valid_entry(names, shapes, k):
    d, rv = {}, {}
    j = 7 * k
    for n, s in zip(names, shapes):
        if len(s) == 0:
            d[n] = VALUES["quick"][j % 5]
            rv[n] = [d[n]]
        else:
            d[n] = [VALUES["quick"][(j + c) % 5] for c in range(s[0])]
            rv[n] = list(d[n])
        j += _size(s)
    return d, rv


# construction routes a container may come from before the malformed addition is tried ("add" = built by additions only)
ROUTES = ["json", "json_sorted", "json_compact", "csv", "df", "torch", "dict", "subset", "subset_nocopy"]
ROUTE_NAMES = {"json": "load(json)", "json_sorted": "load(json)", "json_compact": "load(json)", "csv": "load(csv)",
               "df": "from_dataframe", "torch": "from_pytorch", "dict": "re-adding its entries", "subset": "subset",
               "subset_nocopy": "subset"}


def reject_cases(tier, route=None):
    """JSON-able descriptors of malformed additions: (base, number of valid entries before, [route], malformation).
    route None = every route."""
    if route is None:
        return [c for r in ["add"] + ROUTES for c in reject_cases(tier, r)]
    if route != "add":
        return [dict(c, route=route) for c in reject_cases(tier, "add") if "entry" not in c and c["before"] > 0]
    out = []
    for b_k, (names, shapes) in enumerate(REJECT_BASES):
        for n_before in (0, 1, 2):
            for bad in BAD_IDS:
                out.append({"base": b_k, "before": n_before, "mal": "non-string identifier", "what": bad})
            for bad in BAD_DICTS:
                out.append({"base": b_k, "before": n_before, "mal": "not a dict", "what": bad})
            for bad in _bad_values():
                for slot in range(len(names)):
                    out.append({"base": b_k, "before": n_before, "mal": "value", "what": bad, "slot": slot})
            if n_before:
                for dup in range(n_before):
                    out.append({"base": b_k, "before": n_before, "mal": "duplicate identifier", "what": dup})
                for slot in range(len(names)):
                    for s in SHAPES:
                        if s != shapes[slot]:
                            out.append({"base": b_k, "before": n_before, "mal": "shape", "what": s, "slot": slot})
                    out.append({"base": b_k, "before": n_before, "mal": "missing parameter", "slot": slot})
                    out.append({"base": b_k, "before": n_before, "mal": "renamed parameter", "slot": slot})
                out.append({"base": b_k, "before": n_before, "mal": "extra parameter"})
                out.append({"base": b_k, "before": n_before, "mal": "caller reuses its dictionary"})
                out.append({"base": b_k, "before": n_before, "mal": "conversions between additions"})
    # malformed inputs of the other constructors
    for what in ("duplicate identifier", "int identifier", "float identifier", "None identifier"):
        for entry in ("from_pytorch", "from_dataframe"):
            for pos in (0, 1, 2):
                out.append({"entry": entry, "mal": what, "pos": pos})
    for what in ("too few identifiers", "too many identifiers", "one tensor shorter"):
        out.append({"entry": "from_pytorch", "mal": what, "pos": 0})
    return out


def run_reject(case, tmp=None):
    """-> (violations, outcome label)"""
    if "entry" in case:
        return _run_reject_constructor(case)
    if tmp is None:
        tmp = tempfile.mkdtemp(prefix="c16_", dir="/var/tmp")
        try:
            return run_reject(case, tmp)
        finally:
            shutil.rmtree(tmp, ignore_errors=True)
    names, shapes = REJECT_BASES[case["base"]]
    if case["mal"] == "conversions between additions":
        # (not a malformed addition) the container is converted to every in-memory form after EACH addition: every conversion
        # shows the container as it is at that moment (nothing remembered from an earlier conversion)
        ip = IP()
        ref = new_ref([], names, [tuple(s) for s in shapes])
        for k in range(case["before"] + 1):
            d, rv = _valid_entry(names, shapes, k)
            ip.add_individual_parameters(f"p{k}", d)
            ref["ids"].append(f"p{k}")
            ref["vals"][f"p{k}"] = rv
            for what, fn, chk in (("to_pytorch", ip.to_pytorch, check_tensors), ("to_dataframe", ip.to_dataframe, check_dataframe)):
                try:
                    out = fn()
                except Exception as e:  # noqa: BLE001
                    return [(f"{what}|{type(e).__name__}|conversion repeated after a further addition", str(e)[:200], None, None)], "between:raise"
                diffs = chk(out, ref)
                if diffs:
                    kind, msg, exp, obs = diffs[0]
                    return [(f"{what}|{kind}|conversion repeated after a further addition", f"after {k + 1} additions: {msg}", exp, obs)], "between:stale"
        return [], "between:fresh conversions"
    if case["mal"] == "caller reuses its dictionary":
        # (not a malformed addition) ONE working dictionary, holding plain numbers / lists, is filled again and handed over for
        # each individual, and scribbled over afterwards: every identifier keeps the values it was added with
        ip = IP()
        ref = new_ref([], names, [tuple(s) for s in shapes])
        work = {}
        for k in range(case["before"]):
            d, rv = _valid_entry(names, shapes, k)
            for n in names:
                work[n] = d[n]  # same dict object, new values (lists are new objects)
            ip.add_individual_parameters(f"p{k}", work)
            ref["ids"].append(f"p{k}")
            ref["vals"][f"p{k}"] = rv
            # the caller goes on using ITS dictionary: keys re-bound to other objects (the objects handed over are not modified
            # in place - the library keeps the caller's lists by reference on the pinned tree, and nothing in C16 forbids that)
            for n in names:
                work[n] = [-99.0] * len(work[n]) if isinstance(work[n], list) else -99.0
        diffs = compare_container(ip, ref, False)
        if diffs:
            kind, msg, exp, obs = diffs[0]
            return [(f"add_individual_parameters|{kind}|the caller re-binds keys of the dictionary it passed", msg, exp, obs)], "alias:changed"
        return [], "alias:independent copies"
    ip = IP()
    ref = new_ref([], names, [tuple(s) for s in shapes])
    ids_before = [f"p{k}" for k in range(case["before"])]
    for k, i in enumerate(ids_before):
        d, rv = _valid_entry(names, shapes, k)
        ip.add_individual_parameters(i, d)
        ref["ids"].append(i)
        ref["vals"][i] = rv
    route = case.get("route", "add")
    if route != "add":
        # the container under test comes out of a conversion / copy of the one built above
        if route in ("subset", "subset_nocopy"):
            try:
                ip = call("subset", ip.subset, list(ids_before), copy=(route == "subset"))
            except Impl as e:
                kind = type(e.exc).__name__
                return [(f"subset|{kind}|{coarse(None, len(ids_before))}", str(e.exc)[:200], "succeeds", kind)], f"route {route}:{kind}"
            diffs = compare_container(ip, ref, False)
            if diffs:
                kind, msg, exp, obs = diffs[0]
                return [(f"subset|{kind}|{coarse(None, len(ids_before))}", msg, exp, obs)], f"route {route}:{kind}"
        else:
            ip, ref, viols, label = apply_step(route, ip, ref, tmp)
            if ip is None:
                return viols, f"route {label}"
        shapes = [list(ip._parameters_shape[n]) for n in names]
        if case["mal"] == "shape" and list(case["what"]) == shapes[case["slot"]]:
            return [], "shape not inconsistent after this route (scalar came back as length 1)"
    good, _ = _valid_entry(names, shapes, 5)
    mal = case["mal"]
    idx, params, cls = "new", dict(good), mal
    if mal == "non-string identifier":
        idx = BAD_IDS[case["what"]]()
    elif mal == "not a dict":
        params, cls = BAD_DICTS[case["what"]](), "individual parameters not a dict"
    elif mal == "value":
        fac, cls = _bad_values()[case["what"]]
        params[names[case["slot"]]] = fac()
    elif mal == "duplicate identifier":
        idx = ids_before[case["what"]]
    elif mal == "shape":
        s = case["what"]
        params[names[case["slot"]]] = 0.5 if len(s) == 0 else [0.5] * s[0]
        cls = "shape inconsistent with earlier entries"
    elif mal == "missing parameter":
        del params[names[case["slot"]]]
        cls = "shape inconsistent with earlier entries"
    elif mal == "renamed parameter":
        params = {(k + "2" if k == names[case["slot"]] else k): v for k, v in params.items()}
        cls = "shape inconsistent with earlier entries"
    elif mal == "extra parameter":
        params["extra"] = 0.1
        cls = "shape inconsistent with earlier entries"
    else:
        raise ValueError(mal)
    if route != "add":
        cls = f"{cls} (container built by {ROUTE_NAMES[route]})"
    before = state_key(ip)
    out = []
    try:
        ip.add_individual_parameters(idx, params)
        label = "malformed addition ACCEPTED"
        out.append((f"add_individual_parameters|accepted|{cls}", f"{mal} {case.get('what', '')!r} accepted: {params!r}",
                    "LeaspyIndividualParamsInputError", "accepted"))
    except LeaspyIndividualParamsInputError:
        label = f"refused:{cls}"
    except Exception as e:  # noqa: BLE001
        kind = type(e).__name__
        label = f"refused with {kind}"
        out.append((f"add_individual_parameters|{kind} instead of LeaspyIndividualParamsInputError|{cls}",
                    f"{kind}: {str(e)[:200]}", "LeaspyIndividualParamsInputError", kind))
    if not out and state_key(ip) != before:
        out.append((f"add_individual_parameters|container changed by a refused addition|{cls}", "container differs after the refusal", before, state_key(ip)))
    if not out:
        # the refusal must not poison the container: a valid addition still works and everything is as expected
        d, rv = _valid_entry(names, shapes, 6)
        try:
            ip.add_individual_parameters("zz", d)
        except Exception as e:  # noqa: BLE001
            kind = type(e).__name__
            out.append((f"add_individual_parameters|{kind} on a valid addition after a refusal|{cls}", str(e)[:200], "accepted", kind))
        else:
            ref["ids"].append("zz")
            ref["vals"]["zz"] = rv
            for kind, msg, exp, obs in compare_container(ip, ref, False)[:1]:
                out.append((f"add_individual_parameters|{kind} after a refusal|{cls}", msg, exp, obs))
    return out, label


def _run_reject_constructor(case):
    ids = ["p0", "p1", "p2"]
    mal, pos = case["mal"], case["pos"]
    bad_ids = list(ids)
    if mal == "duplicate identifier":
        bad_ids[pos] = ids[(pos + 1) % 3]
    elif mal == "int identifier":
        bad_ids[pos] = 7
    elif mal == "float identifier":
        bad_ids[pos] = 7.5
    elif mal == "None identifier":
        bad_ids[pos] = None
    n = 3
    xi = [[0.1], [0.2], [0.3]]
    src = [[1.0, 2.0], [3.0, 4.0], [5.0, 6.0]]
    if case["entry"] == "from_pytorch":
        if mal == "too few identifiers":
            bad_ids = ids[:2]
        elif mal == "too many identifiers":
            bad_ids = ids + ["p3"]
        elif mal == "one tensor shorter":
            src = src[:2]
        fn = lambda: IP.from_pytorch(bad_ids, {"xi": torch.tensor(xi), "sources": torch.tensor(src)})  # noqa: E731
    else:
        df = pd.DataFrame({"xi": [r[0] for r in xi], "sources_0": [r[0] for r in src], "sources_1": [r[1] for r in src]},
                          index=pd.Index(bad_ids, name="ID"))
        fn = lambda: IP.from_dataframe(df)  # noqa: E731
    entry = case["entry"]
    try:
        fn()
    except LeaspyIndividualParamsInputError:
        return [], f"{entry} refused:{mal}"
    except Exception as e:  # noqa: BLE001
        kind = type(e).__name__
        return [(f"{entry}|{kind} instead of LeaspyIndividualParamsInputError|{mal}", str(e)[:200],
                 "LeaspyIndividualParamsInputError", kind)], f"{entry} refused with {kind}"
    return [(f"{entry}|accepted|{mal}", f"{mal} accepted (position {pos})", "LeaspyIndividualParamsInputError", "accepted")], f"{entry} ACCEPTED {mal}"


# ------------------------------------------------------------------------------------------ enumeration

def _type_modes(tier, has_scalar, has_vector):
    if tier == "quick":
        modes = DIAGONAL
    else:
        modes = list(itertools.product(SCALAR_TYPES, VECTOR_TYPES))
    seen, out = set(), []
    for s, v in modes:
        m = (s if has_scalar else None, v if has_vector else None)
        if m not in seen:
            seen.add(m)
            out.append(m)
    return out


def add_specs(tier, ids, names, first_shape):
    vset = tier
    if tier == "quick":
        offsets, rots = [0, 3], [1]
    else:
        offsets, rots = list(range(len(VALUES[vset]))), [0, 1]
    if len(ids) == 1 or len(names) == 1:
        rots = [0]
    for rest in itertools.product(SHAPES, repeat=len(names) - 1):
        shapes = [first_shape] + list(rest)
        has_s = any(len(s) == 0 for s in shapes)
        has_v = any(len(s) == 1 for s in shapes)
        for styp, vtyp in _type_modes(tier, has_s, has_v):
            diag = (styp, vtyp) in [(s if has_s else None, v if has_v else None) for s, v in DIAGONAL]
            plain = (styp, vtyp) == ("float" if has_s else None, "list_float" if has_v else None)
            for off in offsets:
                if tier == "quick" and not plain and off != 0:
                    continue  # quick: plain Python floats at both placements, every other type pair at one
                if tier != "quick" and not diag and off != 0:
                    continue  # thorough: off-diagonal type pairs at one placement
                if tier != "quick" and not plain and off not in (0, 3, 5, 8):
                    continue  # thorough: plain Python floats at every placement, other diagonal pairs at four
                for rot in rots:
                    if tier != "quick" and len(rots) > 1 and rot == 0 and (not diag or off not in (0, 3)):
                        continue  # same key order for every individual: diagonal pairs at two placements only
                    yield {"start": "add", "ids": ids, "names": names, "shapes": shapes, "styp": styp, "vtyp": vtyp,
                           "offset": off, "vset": vset, "rot": rot}


def other_start_specs(tier, ids, names=None):
    vset = tier
    offsets = [0] if tier == "quick" else [0, 3, 5, 7, 9]
    namings = NAMINGS[tier] if names is None else [names]
    for names in namings:
        for sizes in itertools.product([1, 2, 3], repeat=len(names)):
            for off in offsets:
                for dtype in ("float32", "float64"):
                    for oned in ([False, True] if 1 in sizes else [False]):
                        yield {"start": "pytorch", "ids": ids, "names": names, "sizes": list(sizes), "dtype": dtype,
                               "oned": oned, "offset": off, "vset": vset}
                for colorder in TABLE_START_COLUMN_ORDERS:
                    for suffix1 in ([False, True] if 1 in sizes else [False]):
                        yield {"start": "dataframe", "ids": ids, "names": names, "sizes": list(sizes), "colorder": colorder,
                               "suffix1": suffix1, "offset": off, "vset": vset}


LONG_SIZES = [11, 12]  # two-digit component suffixes (p_10 sorts before p_2 as text)


LONG_ID_LISTS = {"quick": [["a"], ["z", "y", "x"]], "thorough": [["a"], ["z", "y", "x"], ["10", "9", "100", "2"]]}


def long_specs(tier, only_ids=None):
    """Vector parameters with more than 10 components: one value type, few namings / identifier lists."""
    vset = tier
    id_lists = LONG_ID_LISTS[tier] if only_ids is None else [only_ids]
    namings = [["sources"], ["xi", "sources"]]
    offsets = [0, 3] if tier == "quick" else list(range(len(VALUES[vset])))
    for ids in id_lists:
        for names in namings:
            for n in LONG_SIZES:
                shapes = [[1]] * (len(names) - 1) + [[n]]
                sizes = [1] * (len(names) - 1) + [n]
                for off in offsets:
                    for vtyp in ("list_float", "ndarray_f64"):
                        yield {"start": "add", "ids": ids, "names": names, "shapes": shapes, "styp": None, "vtyp": vtyp,
                               "offset": off, "vset": vset, "rot": 1 if len(ids) > 1 and len(names) > 1 else 0}
                    yield {"start": "pytorch", "ids": ids, "names": names, "sizes": sizes, "dtype": "float32",
                           "oned": False, "offset": off, "vset": vset}
                    for colorder in TABLE_START_COLUMN_ORDERS + ("lexicographic",):
                        yield {"start": "dataframe", "ids": ids, "names": names, "sizes": sizes, "colorder": colorder,
                               "suffix1": False, "offset": off, "vset": vset}


def _depth(tier):
    return 4 if tier == "quick" else 6


def bounds(tier):
    return {
        "identifier_lists": ID_LISTS[tier],
        "namings": NAMINGS[tier],
        "shapes_per_parameter": SHAPES,
        "scalar_types": SCALAR_TYPES,
        "vector_types": VECTOR_TYPES,
        "type_pairs": "diagonal (8 pairs; float/list at 2 value placements, the others at 1)" if tier == "quick"
        else "full product 7 x 8",
        "values": [repr(v) for v in VALUES[tier]],
        "int_values": INTS,
        "value_placements": "cyclic offsets: float/list {0,3}, other type pairs and other starts {0}" if tier == "quick"
        else "cyclic offsets: float/list all 10, other diagonal type pairs {0,3,5,8}, off-diagonal pairs {0}, other starts {0,3,5,7,9}",
        "conversion_chain_length": f"<= {_depth(tier)} over {STEPS} (breadth-first, fixpoint detected when no new container content appears)",
        "json_save_options": {k: {a: repr(b) for a, b in v.items()} for k, v in JSON_KWARGS.items()},
        "accessors_read_on_every_distinct_container": "to_dataframe, to_pytorch, items, subset (reversed with/without copy, first only, rotated), "
                                                      "get_aggregate(identity) as a multiset, get_mean, get_std",
        "other_starts": "from_pytorch (float32/float64, 2-D and 1-D), from_dataframe (canonical / reversed column order, p or p_0 for size 1), sizes {1,2,3}",
        "malformed_additions": f"{len(reject_cases(tier))} (bases x 0..2 valid entries before x malformation x slot x construction "
                               f"route of the container: additions only, {', '.join(ROUTES)})",
        "long_vectors": f"sizes {LONG_SIZES} (namings [sources], [xi, sources]; list / ndarray / tensor / hand-built table in canonical, "
                        "reversed and lexicographic column order) through every conversion step",
    }


def shards(tier, seed):
    out = [{"kind": "reject", "route": r} for r in ["add"] + ROUTES]
    out += [{"kind": "long", "ids": ids} for ids in LONG_ID_LISTS[tier]]
    for names in sorted(NAMINGS[tier], key=len):
        for ids in ID_LISTS[tier]:
            for s in SHAPES:
                if tier == "quick" or len(names) == 1:
                    out.append({"kind": "add", "ids": ids, "names": names, "first": s})
                else:
                    for s2 in SHAPES:
                        out.append({"kind": "add", "ids": ids, "names": names, "first": s, "second": s2})
    for ids in ID_LISTS[tier]:
        for names in NAMINGS[tier]:
            out.append({"kind": "other", "ids": ids, "names": names})
    return [dict(s, tier=tier) for s in out]


def run_shard(shard):
    acc = Acc()
    tier = shard["tier"]
    tmp = tempfile.mkdtemp(prefix="c16_", dir="/var/tmp")
    try:
        if shard["kind"] == "reject":
            for case in reject_cases(tier, shard.get("route", "add")):
                acc.evaluation()
                viols, label = run_reject(case, tmp)
                acc.outcome(label)
                acc.nontriv(("reject", case))
                if case == {"base": 3, "before": 1, "mal": "shape", "what": [1], "slot": 0}:
                    acc.sample({"malformed addition": case, "base": REJECT_BASES[3], "outcome": label})
                for sig, msg, exp, obs in viols:
                    acc.violation(sig, msg, {"kind": "reject", "case": case}, exp, obs)
        elif shard["kind"] == "long":
            for spec in long_specs(tier, shard.get("ids")):
                explore(spec, _depth(tier), acc, tmp)
        elif shard["kind"] == "other":
            for spec in other_start_specs(tier, shard["ids"], shard.get("names")):
                explore(spec, _depth(tier), acc, tmp)
        else:
            for spec in add_specs(tier, shard["ids"], shard["names"], shard["first"]):
                if "second" in shard and spec["shapes"][1] != shard["second"]:
                    continue
                explore(spec, _depth(tier), acc, tmp)
    finally:
        shutil.rmtree(tmp, ignore_errors=True)
    return acc.to_dict()


def replay(case):
    out = []
    if case["kind"] == "reject":
        viols, _ = run_reject(case["case"])
        return [{"signature": s, "message": m} for s, m, _, _ in viols]
    tmp = tempfile.mkdtemp(prefix="c16_", dir="/var/tmp")
    try:
        ip, ref, viols, _ = build_start(case["spec"])
        out += [{"signature": s, "message": m} for s, m, _, _ in viols]
        for step in case["chain"]:
            if ip is None:
                break
            ip, ref, viols, _ = apply_step(step, ip, ref, tmp)
            out += [{"signature": s, "message": f"{m} expected={e!r} observed={o!r}"[:1000]} for s, m, e, o in viols]
        if case.get("views") and ip is not None:
            out += [{"signature": s, "message": f"{m} expected={e!r} observed={o!r}"[:1000]} for s, m, e, o in check_views(ip, ref)]
    finally:
        shutil.rmtree(tmp, ignore_errors=True)
    return out


def self_check():
    """The reference machinery itself: a faithful pure-Python container passes, small corruptions do not."""
    spec = {"start": "add", "ids": ["x", "y"], "names": ["xi", "sources"], "shapes": [[1], [2]], "styp": "float",
            "vtyp": "list_float", "offset": 0, "vset": "quick", "rot": 1}
    ip, ref, viols, _ = build_start(spec)
    assert ip is not None and not viols, viols
    assert compare_container(ip, ref, False) == []
    ip._individual_parameters["y"]["sources"][1] += 1e-9
    assert compare_container(ip, ref, False)[0][0] == "value changed"
    ip._individual_parameters["y"]["sources"][1] = ref["vals"]["y"]["sources"][1]
    ip._indices.reverse()
    assert compare_container(ip, ref, False)[0][0] == "identifiers changed"
    assert _expected_columns(ref, ["xi", "sources_0", "sources_1"]) is not None
    assert _expected_columns(ref, ["xi", "sources_1", "sources_2"]) is None
    assert digest(spec)

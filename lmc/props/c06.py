"""C06 -- missing and padded observations never influence any result.

E-GRID, metamorphic.  Enumerated: model kind x cohort shape (visits per individual) x EVERY missing pattern over the
entries of the cohort (whole visits / whole features missing included, each individual keeps >= 1 observation)
x fill value written INTO the Dataset tensors after construction (values where mask == 0, ages of padded visits)
x number of extra padding visits appended to the tensors.  The real ``put_data_variables`` path is always used.

Three families of executions (``part`` of a shard):

* ``stats``  one evaluation of the variable graph: trajectories, likelihood terms, observation counts, sufficient
             statistics (raw and aggregated as the update rules aggregate them), ``update_parameters`` (both phases)
             and the likelihood terms under the updated parameters.
* ``fit``    a 4-iteration ``fit(mcmc_saem)`` under scripted draws.
* ``perso``  ``personalize`` with scipy_minimize, and mode_/mean_posterior with 6 scripted iterations.

Oracles
  R1 (fill)     same tensor shapes, other numbers under the mask: every result bit-identical.
  R2 (padding)  k extra padded visits: every result within the rounding tolerance of the reductions involved
                (bit-identical for everything that has no visit axis).
  R3 (direct)   on the loader's own tensors: observation counts == number of mask ones, sum of squares, likelihood
                terms and the noise estimate == float64 reference over OBSERVED entries only; everything finite.
  R4 (complete) whatever does not involve the observed values (trajectories at visits that hold an observation,
                regularity terms, every parameter but the noise) is bit-identical to the evaluation of the same cohort
                without any missing entry (same shapes, same operations).
"""

from __future__ import annotations

import contextlib
import copy
import io
import math

import numpy as np
import pandas as pd
import torch

import leaspy.models  # noqa: F401  (before leaspy.variables.*)
from leaspy.io.data import Data, Dataset
from leaspy.utils.weighted_tensor import WeightedTensor, sum_dim
from leaspy.variables.specs import LVL_FT, ModelParameter

from .. import seams
from ..core import Acc
from ..models import MODEL_SPECS, build_model, fresh_state
from ..oracle import brief, same_tensor

ID = "C06"
LEVEL = "exploration"
RULE = (
    "full product model kind x cohort shape x every missing pattern (each individual keeps >= 1 observation) x fill "
    "value x extra padding; one case = one execution of the implementation on one edited Dataset (variable graph + "
    "sufficient statistics + parameter update, or a scripted fit, or a personalization); it is distinct by "
    "(part, algorithm, model, shape, pattern, fill, extra padding) and non-trivial only if the tensors hold at least "
    "one masked entry (missing value, padded visit or extra padding) AND the case differs from the loader's own "
    "tensors (other fill or extra padding), or is the reference evaluation of a cohort with a masked entry"
)
ASSUMPTIONS = [
    "cohorts of 1-3 individuals with 1-3 visits and 1-2 features (4 for the mixture model), at most 8 entries (every missing pattern of each shape)",
    "fill alphabet {0, 1, 7.5, -3e30, NaN, +inf, -inf, seed + 0.5}; the same number is written at every masked value and "
    "every padded age; ages of real visits are never altered (also when every feature of that visit is missing)",
    "extra padding in {0, 1, 2} visits appended after Dataset construction (n_visits_max adjusted, "
    "n_visits_per_individual untouched)",
    "models built from hand-written parameters through BaseModel.load, individual latent values at a fixed non-mode point",
    "fit / personalization parts on the smallest shapes only and with a reduced fill/padding alphabet; scripted draws "
    "(fixed cycle of normal / uniform answers); when only the padding length changes, sampler decisions are assumed not "
    "to sit within rounding distance of the scripted uniform draws",
    "a feature observed for no individual at all makes its noise estimate undefined (NaN): recorded, not judged",
    "mixture model: graph evaluation only (thorough tier, 2 individuals x 1 visit x 4 features); ordinal observation models do not exist in this version; LME and constant models "
    "(which read the data through get_times_patient / get_values_patient / mask > 0 only) belong to C20",
    "single torch thread, float32, CPU, PYTHONHASHSEED=0",
]

EPS32 = 2.0 ** -23
NAN = float("nan")
D19_SIGNATURE = "Bernoulli attachment|raises ValueError|number outside {0, 1} stored at a masked entry"

FILLS = {"0": 0.0, "1": 1.0, "7.5": 7.5, "-3e30": -3e30, "nan": NAN, "inf": float("inf"), "-inf": float("-inf")}
FILL_ORDER = ["0", "1", "7.5", "-3e30", "nan", "inf", "-inf"]
EXTRAS = (0, 1, 2)
# reduced alphabets for the expensive parts (fill, extra); the loader's tensors ("0", 0) are always the reference
SLOW_VARIANTS = {
    "quick": [("nan", 0), ("0", 1), ("-3e30", 1)],
    "thorough": [("nan", 0), ("-3e30", 0), ("inf", 0), ("0", 2), ("7.5", 1)],
}
SCIPY_VARIANTS = {"quick": [("nan", 0), ("7.5", 2)], "thorough": [("nan", 0), ("-3e30", 0), ("0", 1), ("7.5", 2)]}


def fill_value(label: str) -> float:
    return FILLS[label] if label in FILLS else float(label)


def fill_class(label: str) -> str:
    v = fill_value(label)
    if v != v or v in (float("inf"), float("-inf")):
        return "non-finite fill"
    if abs(v) > 1e20:
        return "huge fill"
    return "finite fill"


# ------------------------------------------------------------------------------------------------------------
# cohorts

PEOPLE = [  # ages, values per visit (features 3 and 4 are only used by the 4-feature mixture model)
    ([62.0, 66.5, 71.25], [[0.15, 0.10, 0.20, 0.12], [0.25, 0.20, 0.31, 0.22], [0.40, 0.34, 0.45, 0.30]]),
    ([70.0, 72.0, 80.0], [[0.40, 0.30, 0.38, 0.29], [0.47, 0.50, 0.44, 0.45], [0.60, 0.72, 0.58, 0.66]]),
    ([75.0, 78.5, 83.0], [[0.55, 0.65, 0.50, 0.61], [0.62, 0.70, 0.57, 0.68], [0.81, 0.77, 0.74, 0.79]]),
]
EVENTS = [(73.0, 0), (82.5, 1), (84.0, 1)]
LATENT_SHIFT = {"tau": [1.5, -2.0, 0.7], "xi": [0.2, -0.3, 0.1], "sources": [0.4, -0.6, 0.25]}

SHAPES_2FT = [(1, 1), (1, 2), (2, 1), (2, 2), (1, 3), (1, 1, 2), (2, 1, 1)]
SHAPES_1FT = [(1, 2), (2, 2), (1, 3), (2, 3), (3, 3), (1, 2, 3)]

STATS_MODELS = {
    "quick": ["logistic_d2_s1_diag", "logistic_d2_s1_scalar", "linear_d2_s0_scalar", "shared_d2_s1_diag",
              "logistic_d2_s1_bernoulli", "joint_d2_s1_diag", "logistic_d1_s0_scalar"],
    "thorough": ["logistic_d2_s0_diag", "logistic_d2_s1_diag", "logistic_d2_s1_scalar", "linear_d2_s1_diag",
                 "linear_d2_s0_scalar", "shared_d2_s1_diag", "logistic_d2_s1_bernoulli", "joint_d2_s1_diag",
                 "logistic_d1_s0_scalar", "joint_d1_s0_scalar", "mixture_d4_s2_diag"],
}
STATS_SHAPES = {
    "quick": {2: [(1, 1), (1, 2), (2, 2)], 1: [(1, 2), (2, 3)]},
    "thorough": {2: SHAPES_2FT, 1: SHAPES_1FT, 4: [(1, 1)]},
}
SLOW_MODELS = {
    "quick": ["logistic_d2_s1_diag", "logistic_d2_s1_scalar", "joint_d2_s1_diag"],
    "thorough": ["logistic_d2_s1_diag", "logistic_d2_s1_scalar", "linear_d2_s0_scalar", "shared_d2_s1_diag",
                 "logistic_d2_s1_bernoulli", "joint_d2_s1_diag", "logistic_d1_s0_scalar"],
}
SLOW_SHAPES = {
    "quick": {2: [(1, 2)], 1: [(1, 2)]},
    "thorough": {2: [(1, 1), (1, 2), (2, 2)], 1: [(1, 2), (2, 2), (2, 3)]},
}
SCIPY_MODELS = {
    "quick": ["logistic_d2_s1_diag", "linear_d2_s0_scalar"],
    "thorough": ["logistic_d2_s1_diag", "logistic_d2_s1_scalar", "linear_d2_s0_scalar", "shared_d2_s1_diag",
                 "logistic_d2_s1_bernoulli", "joint_d2_s1_diag", "logistic_d1_s0_scalar"],
}
SCIPY_SHAPES = {"quick": {2: [(1, 2)], 1: [(1, 2)]}, "thorough": {2: [(1, 1), (1, 2)], 1: [(1, 2), (2, 2)]}}


def n_entries(shape, dim):
    return sum(shape) * dim


def patterns(shape, dim):
    """Every missing pattern (bit k = entry k missing; entries ordered individual, visit, feature) such that each
    individual keeps at least one observation; ordered by number of missing entries, then value."""
    out = []
    n = n_entries(shape, dim)
    bounds_ = []
    k = 0
    for nv in shape:
        bounds_.append((k, k + nv * dim))
        k += nv * dim
    for p in range(2 ** n):
        if all(((p >> lo) & (2 ** (hi - lo) - 1)) != 2 ** (hi - lo) - 1 for lo, hi in bounds_):
            out.append(p)
    out.sort(key=lambda p: (bin(p).count("1"), p))
    return out


def cohort_frame(spec, shape, pattern):
    dim = spec["dim"]
    rows = []
    k = 0
    for i, nv in enumerate(shape):
        ages, vals = PEOPLE[i]
        for j in range(nv):
            vv = []
            for f in range(dim):
                v = vals[j][f]
                if spec["noise"] == "bernoulli":
                    v = float(v > 0.3)
                if (pattern >> k) & 1:
                    v = NAN
                k += 1
                vv.append(v)
            rows.append([f"p{i}", ages[j]] + vv)
    df = pd.DataFrame(rows, columns=["ID", "TIME"] + [f"Y{f}" for f in range(dim)])
    if spec["kind"] == "joint":
        df["EVENT_TIME"] = [EVENTS[int(i[1])][0] for i in df["ID"]]
        df["EVENT_BOOL"] = [EVENTS[int(i[1])][1] for i in df["ID"]]
    return df


def cohort_dataset(spec, shape, pattern):
    df = cohort_frame(spec, shape, pattern)
    kind = "joint" if spec["kind"] == "joint" else "visit"
    return Dataset(Data.from_dataframe(df, kind, drop_full_nan=False, warn_empty_column=False)), df


def edited(ds, fill: float, extra: int):
    """A copy of the dataset with `extra` padded visits appended and `fill` written at every masked value and every
    padded age (tensors edited after construction, as the property quantifies)."""
    ds = copy.deepcopy(ds)
    n, nv, d = ds.values.shape
    if extra:
        ds.values = torch.cat([ds.values, torch.zeros(n, extra, d)], dim=1)
        ds.mask = torch.cat([ds.mask, torch.zeros(n, extra, d)], dim=1)
        ds.timepoints = torch.cat([ds.timepoints, torch.zeros(n, extra)], dim=1)
        ds.n_visits_max = nv + extra
    f = torch.tensor(fill, dtype=torch.float32)
    ds.values = torch.where(ds.mask == 0, f, ds.values)
    ds.timepoints = torch.where(padded_visits(ds), f, ds.timepoints)
    return ds


def padded_visits(ds):
    return torch.arange(ds.timepoints.shape[1])[None, :] >= torch.tensor(ds.n_visits_per_individual)[:, None]


# ------------------------------------------------------------------------------------------------------------
# part "stats": one evaluation of the graph

VISIT_AXIS = ("model", "model@centered", "ss:y_x_model", "ss:model_x_model")


def nll_names(spec):
    if spec["kind"] == "joint":
        return ["nll_attach_y_ind", "nll_attach_event_ind", "nll_attach_ind", "nll_attach_y", "nll_attach_event", "nll_attach"]
    return ["nll_attach_ind", "nll_attach"]


def all_observed(ds):
    """The same tensors (same stored numbers, fills included) with every entry of every real visit declared observed."""
    ds = copy.deepcopy(ds)
    real = (~padded_visits(ds))[:, :, None].expand(ds.mask.shape)
    ds.mask = torch.where(real, torch.ones_like(ds.mask), ds.mask)
    return ds


def observe(model, spec, ds, preload=None):
    """Run the implementation on `ds`; returns {name: tensor | WeightedTensor} (+ '__exc__': (stage, type, message)).

    `preload`: another dataset of the same cohort loaded (and read) in the same state BEFORE `ds` is loaded over it - the
    state of a model that already held data when new data are given to it."""
    out = {}
    stage = "put_data_variables"
    gaussian = spec["noise"].startswith("gaussian")
    scalar = spec["noise"] == "gaussian-scalar" or spec["dim"] == 1
    try:
        if preload is None:
            st = fresh_state(model, ds)
        else:
            st = fresh_state(model, preload)
            for k in nll_names(spec):
                st[k]
            stage = "put_data_variables over data already held"
            model.put_data_variables(st, ds)
        n = ds.n_individuals
        stage = "latent variables"
        for v, shifts in LATENT_SHIFT.items():
            if v in st.dag and st._values.get(v) is not None:
                cur = st[v]
                delta = torch.tensor(shifts[:n], dtype=cur.dtype).reshape((n,) + (1,) * (cur.ndim - 1))
                st[v] = cur + delta
        out["__y_value__"] = st["y"].value.clone()
        out["__t_value__"] = st["t"].value.clone()
        stage = "state[model]"
        out["model"] = st["model"]
        if gaussian:
            out["noise_std@before"] = st["noise_std"]
        for k in nll_names(spec):
            stage = f"state[{k}]"
            out[k] = st[k]
        stage = "state[nll_regul_ind_sum_ind]"
        out["nll_regul_ind_sum_ind"] = st["nll_regul_ind_sum_ind"]
        if gaussian:
            for k in (("n_obs", "y_L2") if scalar else ("n_obs_per_ft", "y_L2_per_ft")):
                stage = f"state[{k}]"
                out[k] = st[k]
        stage = "compute_sufficient_statistics"
        ss = model.compute_sufficient_statistics(st)
        out["model@centered"] = st["model"]
        for k, v in ss.items():
            out["ss:" + k] = v
        if gaussian:
            stage = "aggregation of the sufficient statistics"
            if scalar:
                out["agg:sum(y_x_model)"] = sum_dim(ss["y_x_model"])
                out["agg:sum(model_x_model)"] = sum_dim(ss["model_x_model"])
            else:
                out["agg:sum_ft(-2*y_x_model+model_x_model)"] = sum_dim(-2 * ss["y_x_model"] + ss["model_x_model"], but_dim=LVL_FT)
        for burn_in in (True, False):
            tag = "burn_in" if burn_in else "memory"
            stage = f"update_parameters({tag})"
            model.update_parameters(st, ss, burn_in=burn_in)
            for p in st.dag.sorted_variables_by_type[ModelParameter]:
                out[f"param[{tag}]:{p}"] = st[p]
            if burn_in:
                stage = "state[nll_attach_ind] after update_parameters"
                out["nll_attach_ind@updated"] = st["nll_attach_ind"]
    except Exception as e:  # judged by the caller
        out["__exc__"] = (stage, type(e).__name__, str(e)[:300])
    # weighted values without a visit axis (mixture model): values under a zero weight are documented as meaningless
    for k in [k for k, v in out.items() if isinstance(v, WeightedTensor) and k not in VISIT_AXIS]:
        v = out.pop(k)
        if v.weight is None:
            out[k] = v.value
        else:
            w = v.weight.expand(v.value.shape)
            out[k] = torch.where(w != 0, v.value, torch.zeros_like(v.value))
            out[k + "#weight"] = w.to(torch.float64)
    return out


def _f64(t):
    return t.detach().to(torch.float64).numpy()


def reference(spec, ds0, out):
    """float64 reference quantities over OBSERVED entries only, from the loader's tensors and the implementation's
    own trajectory values.  Returns (ref values, scales for the rounding tolerances)."""
    y = _f64(ds0.values)
    w = ds0.mask.bool().numpy()
    n, nv, d = y.shape
    ref, scale = {}, {}
    real = ~padded_visits(ds0).numpy()
    ref["real"] = real
    ref["count_ft"] = w.sum(axis=(0, 1))
    ref["count"] = int(w.sum())
    y2 = np.where(w, y * y, 0.0)
    ref["y_L2_per_ft"] = y2.sum(axis=(0, 1))
    ref["y_L2"] = y2.sum()
    scale["y_L2_per_ft"], scale["y_L2"] = ref["y_L2_per_ft"], ref["y_L2"]
    if "model" not in out:
        return ref, scale
    m = _f64(out["model"])
    gaussian = spec["noise"].startswith("gaussian")

    def terms(model_values, sigma):
        if gaussian:
            s = np.broadcast_to(np.asarray(sigma, dtype=np.float64).reshape(-1), (d,)) if np.size(sigma) in (1, d) else None
            t = 0.5 * ((y - model_values) / s) ** 2 + np.log(s) + 0.5 * math.log(2 * math.pi)
        else:
            with np.errstate(all="ignore"):
                t = -(y * np.log(model_values) + (1 - y) * np.log1p(-model_values))
        return np.where(w, t, 0.0)

    sigma0 = _f64(out["noise_std@before"]) if gaussian else None
    t0 = terms(m, sigma0)
    y_name = "nll_attach_y_ind" if spec["kind"] == "joint" else "nll_attach_ind"
    ref[y_name] = t0.sum(axis=(1, 2))
    scale[y_name] = np.abs(t0).sum(axis=(1, 2))
    if spec["kind"] == "joint" and "nll_attach_event_ind" in out:
        ev = _f64(out["nll_attach_event_ind"]).reshape(n, -1).sum(axis=1)
        ref["nll_attach_ind"] = ref[y_name] + ev
        scale["nll_attach_ind"] = scale[y_name] + np.abs(ev)
        ref["nll_attach_y"] = ref[y_name].sum()
        scale["nll_attach_y"] = scale[y_name].sum()
    ref["nll_attach"] = ref["nll_attach_ind"].sum()
    scale["nll_attach"] = scale["nll_attach_ind"].sum()
    if gaussian and "model@centered" in out:
        mc = _f64(out["model@centered"])
        r2 = np.where(w, (y - mc) ** 2, 0.0)
        ym = np.where(w, np.abs(y * mc), 0.0)
        mm_obs = np.where(w, mc * mc, 0.0)
        mm_real = np.where(real[:, :, None], mc * mc, 0.0)
        cnt = ref["count_ft"].astype(np.float64)
        with np.errstate(all="ignore"):
            if spec["noise"] == "gaussian-scalar" or d == 1:
                ref["noise_var"] = np.array([r2.sum() / cnt.sum()])
                # what a rule that also counts the model at unobserved entries of real visits would give (design D3)
                ref["noise_var_counting_missing"] = np.array([(r2.sum() + (mm_real - mm_obs).sum()) / cnt.sum()])
                scale["noise_var"] = np.array([(y2.sum() + 2 * ym.sum() + mm_real.sum()) / cnt.sum()])
                scale["agg:sum(y_x_model)"] = ym.sum()
                scale["agg:sum(model_x_model)"] = mm_real.sum()
            else:
                ref["noise_var"] = r2.sum(axis=(0, 1)) / cnt
                ref["noise_var_counting_missing"] = ref["noise_var"]
                scale["noise_var"] = (y2.sum(axis=(0, 1)) + 2 * ym.sum(axis=(0, 1)) + mm_obs.sum(axis=(0, 1))) / cnt
                scale["agg:sum_ft(-2*y_x_model+model_x_model)"] = 2 * ym.sum(axis=(0, 1)) + mm_obs.sum(axis=(0, 1))
        if "param[burn_in]:noise_std" in out:
            s1 = _f64(out["param[burn_in]:noise_std"]).reshape(-1)
            if np.all(np.isfinite(s1[ref["count_ft"][: s1.size] > 0] if s1.size == d else s1)):
                t1 = terms(mc, np.where(np.isfinite(s1), s1, 1.0))
                scale["nll_attach_ind@updated"] = np.abs(t1).sum(axis=(1, 2))
                if spec["kind"] == "joint" and "nll_attach_event_ind" in out:
                    scale["nll_attach_ind@updated"] = scale["nll_attach_ind@updated"] + np.abs(
                        _f64(out["nll_attach_event_ind"]).reshape(n, -1).sum(axis=1))
    return ref, scale


def noise_tolerance(ref, scale):
    """|std - std_ref| allowed for std = sqrt(v), v = (y_L2 - 2 s1 + s2) / n evaluated in float32."""
    with np.errstate(all="ignore"):
        tol_var = 64 * EPS32 * scale["noise_var"]
        std = np.sqrt(ref["noise_var"])
        return tol_var / (2 * std) + 8 * EPS32 * std


def _site(name):
    if name.startswith("param["):
        return f"update_parameters[{name.split(':', 1)[1]}]"
    if name.startswith("ss:"):
        return f"compute_sufficient_statistics[{name[3:]}]"
    if name.startswith("agg:"):
        return f"compute_sufficient_statistics[{name[4:]}]"
    if name.endswith("@updated"):
        return f"state[{name.split('@')[0]}] after update_parameters"
    if name == "model@centered":
        return "state[model]"
    return f"state[{name}]"


def _select_real(v, real, nv0):
    """Restrict a value with a visit axis to real visits (list of 1-D tensors: weights (or None) and values)."""
    r = torch.as_tensor(real)
    if isinstance(v, WeightedTensor):
        val = v.value[:, :nv0][r]
        if v.weight is None:
            return None, val
        wgt = v.weight.expand(v.value.shape)[:, :nv0][r]
        return wgt, val
    return None, v[:, :nv0][r]


def compare_exact(name, a, b, real, nv0):
    """R1: bit-identical (at real visits for quantities that carry a visit axis; values under a zero weight ignored)."""
    if name in VISIT_AXIS:
        wa, va = _select_real(a, real, nv0)
        wb, vb = _select_real(b, real, nv0)
        if (wa is None) != (wb is None):
            return "weights present on one side only"
        if wa is not None:
            if not torch.equal(wa.to(torch.float64), wb.to(torch.float64)):
                return "weights differ"
            keep = wa.to(torch.bool)
            va, vb = va[keep], vb[keep]
        return None if same_tensor(va, vb) else _diff(va, vb)
    if isinstance(a, WeightedTensor) or isinstance(b, WeightedTensor):
        return "unexpected weighted value"
    return None if same_tensor(a, b) else _diff(a, b)


def _diff(a, b):
    if a.shape != b.shape:
        return f"shapes {tuple(a.shape)} vs {tuple(b.shape)}"
    a64, b64 = a.to(torch.float64), b.to(torch.float64)
    fin = torch.isfinite(a64) & torch.isfinite(b64)
    d = (a64 - b64).abs()[fin]
    dmax = d.max().item() if d.numel() else float("nan")
    return (f"max |difference| {dmax:.3e} on {int((a64 != b64).sum())} element(s), "
            f"non-finite: {int((~torch.isfinite(a64)).sum())} vs {int((~torch.isfinite(b64)).sum())}")


def pad_tolerance(name, spec, ref, scale):
    """R2 tolerance (numpy array / float) for a quantity, None = bit-identical, 'elementwise' for element-wise values."""
    if name in VISIT_AXIS:
        return "elementwise"
    base = name
    if name.startswith("ss:"):
        base = name[3:]
    if base in ("nll_attach", "nll_attach_ind", "nll_attach_y", "nll_attach_y_ind"):
        return 32 * EPS32 * scale[base] + 1e-7
    if base == "nll_tot":
        return 32 * EPS32 * scale["nll_attach"] + 1e-6
    if name in ("y_L2", "y_L2_per_ft") or name.startswith("agg:"):
        return 32 * EPS32 * scale[name] + 1e-9
    if name.endswith(":noise_std"):
        return noise_tolerance(ref, scale)
    if name == "nll_attach_ind@updated":
        if name not in scale:
            return np.inf
        with np.errstate(all="ignore"):
            rel = np.nanmax(noise_tolerance(ref, scale) / np.sqrt(ref["noise_var"]))
        return (32 * EPS32 + 4 * rel) * scale[name] + 1e-7
    return None


def compare_padding(name, a, b, real, nv0, tol):
    if tol is None:
        return compare_exact(name, a, b, real, nv0)
    if isinstance(tol, str):  # element-wise values at real visits
        wa, va = _select_real(a, real, nv0)
        wb, vb = _select_real(b, real, nv0)
        if (wa is None) != (wb is None):
            return "weights present on one side only"
        if wa is not None:
            if not torch.equal(wa.to(torch.float64), wb.to(torch.float64)):
                return "weights differ"
            keep = wa.to(torch.bool)
            va, vb = va[keep], vb[keep]
        if va.shape != vb.shape:
            return f"shapes {tuple(va.shape)} vs {tuple(vb.shape)}"
        a64, b64 = va.to(torch.float64), vb.to(torch.float64)
        if not torch.equal(torch.isfinite(a64), torch.isfinite(b64)):
            return "finiteness differs"
        ok = (a64 - b64).abs() <= 8 * EPS32 * torch.maximum(a64.abs(), b64.abs()) + 1e-30
        return None if bool(ok[torch.isfinite(a64)].all()) else _diff(va, vb)
    if a.shape != b.shape:
        return f"shapes {tuple(a.shape)} vs {tuple(b.shape)}"
    a64, b64 = _f64(a).reshape(-1), _f64(b).reshape(-1)
    tol = np.asarray(tol, dtype=np.float64).reshape(-1)
    tol = np.broadcast_to(tol if tol.size in (1, a64.size) else np.max(tol), a64.shape)
    both_nan = np.isnan(a64) & np.isnan(b64)
    with np.errstate(all="ignore"):
        ok = both_nan | (a64 == b64) | (np.abs(a64 - b64) <= tol)
    return None if bool(ok.all()) else _diff(a, b) + f" (allowed {np.max(tol[~ok]):.3e})"


def finite_problems(spec, out, ref, nv0):
    """Names of results holding a non-finite number where the property demands a finite one."""
    bad = []
    real = ref["real"]
    for name, v in out.items():
        if name.startswith("__"):
            continue
        if name in VISIT_AXIS:
            w, val = _select_real(v, real, nv0)
            if w is not None:
                val = val[w.to(torch.bool)]
            ok = bool(torch.isfinite(val).all())
        elif name.endswith(":noise_std") and v.numel() == len(ref["count_ft"]) and v.numel() > 1:
            ok = bool(torch.isfinite(v[torch.as_tensor(ref["count_ft"] > 0)]).all())
        else:
            ok = bool(torch.isfinite(v.to(torch.float64)).all())
        if not ok:
            bad.append(name)
    return bad


def partial_visit(ds0):
    """True if some real visit has both an observed and a missing feature."""
    w = ds0.mask.bool()
    return bool((w.any(dim=2) & ~w.all(dim=2)).any())


def check_reference(acc, spec, name_model, ds0, df, out, ref, scale, case):
    """R3 on the loader's own tensors."""
    noise = spec["noise"] if spec["dim"] > 1 or not spec["noise"].startswith("gaussian") else "gaussian-scalar"
    # ---- Dataset bookkeeping
    isnan = torch.isnan(torch.tensor(df[[c for c in df.columns if c.startswith("Y")]].to_numpy(dtype=np.float64)))
    n_missing = int(isnan.sum())
    if int(ds0.n_observations) != int(ref["count"]) or int((ds0.mask == 0).sum()) - int(padded_visits(ds0).sum()) * ds0.dimension != n_missing:
        acc.violation("Dataset|observation counts differ from the number of observed entries|", f"n_observations={ds0.n_observations} mask ones={ref['count']} NaN in the table={n_missing}", case)
    if not np.array_equal(ds0.n_observations_per_ft.numpy(), ref["count_ft"]) or not np.array_equal(
            ds0.n_observations_per_ind_per_ft.numpy(), ds0.mask.bool().numpy().sum(axis=1)):
        acc.violation("Dataset|per-feature observation counts differ from the number of observed entries|", f"{ds0.n_observations_per_ft.tolist()} vs {ref['count_ft'].tolist()}", case)
    if bool((ds0.values[ds0.mask == 0] != 0).any()) or bool((ds0.timepoints[padded_visits(ds0)] != 0).any()):
        acc.violation("Dataset|masked values or padded ages are not zero-filled by the loader|", "", case)
    if not np.allclose(_f64(ds0.L2_norm_per_ft), ref["y_L2_per_ft"], rtol=1e-5, atol=1e-9):
        acc.violation("Dataset|L2_norm_per_ft differs from the sum of squares of observed entries|", f"{ds0.L2_norm_per_ft.tolist()} vs {ref['y_L2_per_ft'].tolist()}", case)
    if "__exc__" in out:
        return
    # ---- counts and sums in the graph
    for k, r in (("n_obs", ref["count"]), ("n_obs_per_ft", ref["count_ft"])):
        if k in out and not np.array_equal(out[k].to(torch.int64).numpy().reshape(-1), np.asarray(r).reshape(-1)):
            acc.violation(f"state[{k}]|observation count differs from the number of observed entries|{noise}", f"{out[k].tolist()} vs {np.asarray(r).tolist()}", case,
                          expected=np.asarray(r).tolist(), observed=out[k].tolist())
    for k in ("y_L2", "y_L2_per_ft"):
        if k in out and not np.allclose(_f64(out[k]), ref[k], rtol=1e-5, atol=1e-9):
            acc.violation(f"state[{k}]|differs from the sum of squares over observed entries|{noise}", f"{out[k].tolist()} vs {np.asarray(ref[k]).tolist()}", case,
                          expected=np.asarray(ref[k]).tolist(), observed=out[k].tolist())
    for k in ("nll_attach_y_ind", "nll_attach_ind", "nll_attach_y", "nll_attach"):
        if k in out and k in ref:
            tol = 1e-5 * np.asarray(scale[k]) + 2e-6
            if not bool(np.all(np.abs(_f64(out[k]) - ref[k]) <= tol)):
                acc.violation(f"state[{k}]|differs from the negative log-density summed over observed entries|{noise}",
                              f"{out[k].tolist()} vs reference {np.asarray(ref[k]).tolist()}", case, expected=np.asarray(ref[k]).tolist(), observed=out[k].tolist())
    # ---- noise estimate
    for tag in ("burn_in", "memory"):
        k = f"param[{tag}]:noise_std"
        if k not in out or "noise_var" not in ref:
            continue
        got = _f64(out[k]).reshape(-1)
        with np.errstate(all="ignore"):
            exp = np.sqrt(ref["noise_var"])
            alt = np.sqrt(ref["noise_var_counting_missing"])
        tol = noise_tolerance(ref, scale)
        judged = np.isfinite(exp)
        if got.shape != exp.shape:
            acc.violation(f"update_parameters[noise_std]|shape|{noise}", f"{got.shape} vs {exp.shape}", case)
        elif not bool(np.all(np.abs(got - exp)[judged] <= tol[judged])):
            if bool(np.all(np.abs(got - alt)[judged] <= tol[judged] + 1e-6)) and partial_visit(ds0):
                sig = f"update_parameters[noise_std]|counts the squared model value at missing entries of observed visits|{noise}"
            else:
                sig = f"update_parameters[noise_std]|differs from the RMS residual over observed entries|{noise}"
            acc.violation(sig, f"noise_std={got.tolist()} but RMS residual over the observed entries={exp.tolist()} "
                               f"(RMS also counting model^2 at missing entries of real visits={alt.tolist()})", case,
                          expected=exp.tolist(), observed=got.tolist())
        break  # both phases use the same rule; one report is enough
    nv0 = ds0.values.shape[1]
    for name in finite_problems(spec, out, ref, nv0):
        acc.violation(f"{_site(name)}|non-finite result on the loader's own tensors|{noise}", f"{name}: {brief(out[name])}", case)


def expected_convergence_error(ref):
    v = ref.get("noise_var")
    return v is not None and bool(np.any(v < 1.1e-5))


DATA_DEPENDENT = ("nll_attach", "n_obs", "y_L2", "ss:y_x_model", "ss:nll_attach", "ss:nll_tot", "agg:", "noise_std")


def compare_with_complete_cohort(acc, spec, noise, ds0, out0, full, case):
    """R4: whatever does not involve the observed values (trajectories at visits holding an observation, regularity
    terms, every parameter but the noise) is bit-identical to the same cohort without any missing entry."""
    if "__exc__" in out0 or "__exc__" in full:
        return
    seen = ds0.mask.bool().any(dim=2)
    nv0 = ds0.values.shape[1]
    for name, a in full.items():
        if name.startswith("__") or name not in out0 or any(t in name for t in DATA_DEPENDENT):
            continue
        b = out0[name]
        if name in VISIT_AXIS:
            if isinstance(a, WeightedTensor) or isinstance(b, WeightedTensor):
                continue
            why = None if same_tensor(a[:, :nv0][seen], b[:, :nv0][seen]) else _diff(a[:, :nv0][seen], b[:, :nv0][seen])
        else:
            why = None if same_tensor(a, b) else _diff(a, b)
        if why:
            acc.violation(f"{_site(name)}|depends on which other entries are missing|{noise}",
                          f"{name}: {why}; complete cohort {brief(a)}, with missing entries {brief(b)}", case, expected=brief(a), observed=brief(b))


def run_stats_base(acc, name_model, model, spec, shape, pattern, fills, extras=EXTRAS, only=None, full=None):
    """All variants of one (model, shape, pattern).  `only` = (fill label, extra) restricts to one variant (replay).
    `full` = the evaluation of the same cohort without missing entry (R4)."""
    noise = spec["noise"] if spec["dim"] > 1 or not spec["noise"].startswith("gaussian") else "gaussian-scalar"
    ds0, df = cohort_dataset(spec, shape, pattern)
    nv0 = ds0.values.shape[1]
    base_case = {"part": "stats", "model": name_model, "shape": list(shape), "pattern": pattern}
    n_masked0 = int((ds0.mask == 0).sum())
    zero = {}
    for extra in extras:
        if only is not None and extra not in (0, only[1]):
            continue
        zero[extra] = observe(model, spec, edited(ds0, 0.0, extra))
        acc.evaluation()
    out0 = zero[0]
    ref, scale = reference(spec, ds0, out0)
    real = ref["real"]
    case0 = dict(base_case, fill="0", extra=0)
    if n_masked0:
        acc.nontriv(repr(("stats", name_model, shape, pattern, "0", 0)))
    acc.outcome(f"stats:observed entries={ref['count']}")
    if len(acc.samples) < 2 and n_masked0:
        acc.sample(dict(case0, table=df.to_dict("list"), nll_attach_ind=out0.get("nll_attach_ind", torch.tensor(NAN)).tolist()))
    if "__exc__" in out0:
        stage, typ, msg = out0["__exc__"]
        if typ == "LeaspyConvergenceError" and expected_convergence_error(ref):
            acc.outcome("stats:noise estimate collapsed (LeaspyConvergenceError)")
        else:
            acc.violation(f"{stage}|raises {typ} on the loader's own tensors|{noise}", msg, case0)
    check_reference(acc, spec, name_model, ds0, df, out0, ref, scale, case0)
    if full is not None and pattern:
        compare_with_complete_cohort(acc, spec, noise, ds0, out0, full, case0)

    def compare(out, other, relation, case, label):
        """other = the run `out` must agree with; relation 'fill' (exact) or 'padding' (rounding)."""
        if ("__exc__" in out) or ("__exc__" in other):
            ea, eb = out.get("__exc__"), other.get("__exc__")
            if ea is not None and (eb is None or ea[:2] != eb[:2]):
                stage, typ, msg = ea
                if typ == "ValueError" and spec["noise"] == "bernoulli" and "support" in msg and relation == "fill" and fill_value(label) not in (0.0, 1.0):
                    # one defect, one signature, whatever entry point meets it first (design D19)
                    acc.violation(D19_SIGNATURE, f"{stage}: {msg}", case)
                    return "raises"
                elif relation == "fill":
                    feature = f"{noise}, {fill_class(label)}"
                else:
                    feature = f"{noise}, extra padding"
                acc.violation(f"{stage}|raises {typ}|{feature}", msg, case)
                return "raises"
            if ea is None and eb is not None:
                acc.violation(f"{eb[0]}|{eb[1]} only without the {'fill' if relation == 'fill' else 'extra padding'}|{noise}", eb[2], case)
                return "raises"
        worst = "bit-identical"
        for name, a in other.items():
            if name.startswith("__"):
                continue
            if name not in out:
                continue  # an exception (same on both sides) cut the run short
            b = out[name]
            if relation == "fill":
                why = compare_exact(name, a, b, real, nv0)
                if why:
                    acc.violation(f"{_site(name)}|depends on the number stored at a masked position|{noise}, {fill_class(label)}",
                                  f"{name}: {why}; with the loader's zeros {brief(a)}, with fill {label} {brief(b)}", case, expected=brief(a), observed=brief(b))
            else:
                tol = pad_tolerance(name, spec, ref, scale)
                why = compare_padding(name, a, b, real, nv0, tol)
                if why:
                    acc.violation(f"{_site(name)}|depends on the amount of padding|{noise}",
                                  f"{name}: {why}; without extra padding {brief(a)}, with {brief(b)}", case, expected=brief(a), observed=brief(b))
                elif compare_exact(name, a, b, real, nv0):
                    worst = "within rounding"
        bad = finite_problems(spec, out, ref, nv0)
        for name in bad:
            acc.violation(f"{_site(name)}|non-finite result|{noise}, {fill_class(label) if relation == 'fill' else 'extra padding'}", f"{name}: {brief(out[name])}", case)
        return worst

    for extra in extras:
        if extra == 0 or extra not in zero:
            continue
        case = dict(base_case, fill="0", extra=extra)
        acc.nontriv(repr(("stats", name_model, shape, pattern, "0", extra)))
        res = compare(zero[extra], out0, "padding", case, "0")
        acc.outcome(f"stats:padding:{res}")
    # the same data loaded over data already held by the state: identical stored numbers, all entries declared observed before
    # (binary outcomes: the all-observed version must itself be valid data, so the stored numbers are 0 / 1 there)
    for label in (("0", "1") if spec["noise"] == "bernoulli" else ("0", "7.5")):
        if only is not None and tuple(only) != (label, "reload"):
            continue
        if not n_masked0 or label not in list(fills) + ["0"] or "__exc__" in out0:
            continue
        ds = edited(ds0, fill_value(label), 0)
        out = observe(model, spec, ds, preload=all_observed(ds))
        acc.evaluation()
        case = dict(base_case, fill=label, extra="reload")
        acc.nontriv(repr(("stats", name_model, shape, pattern, label, "reload")))
        if "__exc__" in out:
            stage, typ, msg = out["__exc__"]
            acc.violation(f"{stage}|raises {typ}|{noise}, data loaded over data already held", msg, case)
            continue
        same = True
        for name, a in out0.items():
            if name.startswith("__") or name not in out:
                continue
            why = compare_exact(name, a, out[name], real, nv0)
            if why:
                same = False
                acc.violation(f"{_site(name)}|depends on the mask of the data held before|{noise}",
                              f"{name}: {why}; in a new state {brief(a)}, loaded over the all-observed version of the same numbers {brief(out[name])}",
                              case, expected=brief(a), observed=brief(out[name]))
        acc.outcome(f"stats:reload:{'bit-identical' if same else 'differs'}")
    for label in fills:
        if label == "0":
            continue
        for extra in extras:
            if only is not None and (label, extra) != tuple(only):
                continue
            if extra not in zero:
                continue
            ds = edited(ds0, fill_value(label), extra)
            out = observe(model, spec, ds)
            acc.evaluation()
            case = dict(base_case, fill=label, extra=extra)
            masked = int((ds.mask == 0).sum())
            if masked:
                acc.nontriv(repr(("stats", name_model, shape, pattern, label, extra)))
                yv = out.get("__y_value__")
                if yv is not None and same_tensor(yv[ds.mask == 0], ds.values[ds.mask == 0]):
                    acc.count("variants in which the fill reached the state's data variables")
            res = compare(out, zero[extra], "fill", case, label)
            acc.outcome(f"stats:fill:{res}")


# ------------------------------------------------------------------------------------------------------------
# part "init": the data-driven initialisation of a new model (first step of every fit of an uninitialised model)

INIT_MODELS = {
    "quick": ["logistic_d2_s1_diag", "linear_d2_s0_scalar", "shared_d2_s1_diag", "joint_d2_s1_diag", "logistic_d1_s0_scalar"],
    "thorough": ["logistic_d2_s0_diag", "logistic_d2_s1_diag", "logistic_d2_s1_scalar", "linear_d2_s1_diag", "linear_d2_s0_scalar",
                 "shared_d2_s1_diag", "joint_d2_s1_diag", "logistic_d1_s0_scalar", "joint_d1_s0_scalar"],
}
INIT_SHAPES = {"quick": {2: [(1, 2), (2, 1, 1)], 1: [(1, 2), (1, 2, 3)]}, "thorough": {2: SHAPES_2FT, 1: SHAPES_1FT}}


def new_model(spec):
    """An uninitialised model of the kind (what a user builds before the first fit)."""
    from leaspy.models import model_factory

    kw = {"dimension": spec["dim"], "source_dimension": spec["ns"]}
    if spec["kind"] == "joint":
        kw["nb_events"] = 1
        if not (spec["ns"] == 0 and spec["dim"] >= 1):
            kw["obs_models"] = spec["noise"]
    else:
        kw["obs_models"] = spec["noise"]
    return model_factory(spec["kind"], **kw)


def initialised_parameters(spec, ds):
    model = new_model(spec)
    try:
        with contextlib.redirect_stdout(io.StringIO()):
            model.initialize(ds)
        return {"param:" + k: v.detach().clone() for k, v in model.parameters.items()}
    except Exception as e:  # judged by the caller
        return {"__exc__": ("initialize", type(e).__name__, str(e)[:300])}


def run_init_base(acc, name_model, spec, shape, pattern, fills, extras=EXTRAS, only=None):
    noise = spec["noise"] if spec["dim"] > 1 or not spec["noise"].startswith("gaussian") else "gaussian-scalar"
    ds0, df = cohort_dataset(spec, shape, pattern)
    base_case = {"part": "init", "model": name_model, "shape": list(shape), "pattern": pattern}
    ref = initialised_parameters(spec, edited(ds0, 0.0, 0))
    acc.evaluation()
    acc.outcome("init:" + ("raises " + ref["__exc__"][1] if "__exc__" in ref else "initialised"))
    for label in fills:
        for extra in extras:
            if (label, extra) == ("0", 0) or (only is not None and (label, extra) != tuple(only)):
                continue
            out = initialised_parameters(spec, edited(ds0, fill_value(label), extra))
            acc.evaluation()
            case = dict(base_case, fill=label, extra=extra)
            acc.nontriv(repr(("init", name_model, shape, pattern, label, extra)))
            feature = f"{noise}, {fill_class(label)}" if label != "0" else f"{noise}, extra padding"
            ea, eb = out.get("__exc__"), ref.get("__exc__")
            if ea is not None or eb is not None:
                if (ea is None) != (eb is None) or ea[1] != eb[1]:
                    acc.violation(f"initialize|outcome depends on the numbers stored in the padding or at masked entries|{feature}",
                                  f"loader's tensors: {eb or 'initialised'}; edited tensors: {ea or 'initialised'}", case)
                continue
            worst = "bit-identical"
            for k, a in ref.items():
                b = out.get(k)
                if b is None or a.shape != b.shape:
                    acc.violation(f"initialize|parameters differ|{feature}", f"{k}: {brief(a)} vs {brief(b) if b is not None else None}", case)
                    continue
                if same_tensor(a, b):
                    continue
                # only the amount of padding may change the rounding (longer reductions), by a few float32 ulps of the values involved
                d = float((a.double() - b.double()).abs().max()) if bool(torch.isfinite(a).all() and torch.isfinite(b).all()) else float("inf")
                tol = 64 * 2.0 ** -23 * (1.0 + float(a.double().abs().max())) if label == "0" else 0.0
                if d > tol:
                    what = "depends on the amount of padding" if label == "0" else "depends on the number stored at a masked position or in the padding"
                    acc.violation(f"initialize[{k[6:]}]|{what}|{feature}", f"{k}: {brief(a)} with the loader's tensors, {brief(b)} with fill {label} and {extra} extra padded visit(s)",
                                  case, expected=brief(a), observed=brief(b))
                else:
                    worst = "within rounding"
            acc.outcome(f"init:{'fill' if label != '0' else 'padding'}:{worst}")


def run_init_ages(acc, name_model, spec):
    """Relation on the ages of visits at which a feature is MISSING: for an individual with three visits, the age of the visit at
    which feature k has no value is moved; the initial velocity of feature k (`log_v0_mean[k]`, a function of the observed
    (age, value) pairs of feature k only) must not move by a single bit.  (The other feature, observed at that visit, and the
    time-related parameters legitimately change.)"""
    shape = (3, 2)
    for j in range(3):
        for k in range(spec["dim"]):
            base_case = {"part": "init_ages", "model": name_model, "visit": j, "feature": k}
            _, df = cohort_dataset(spec, shape, 0)
            rows = df.index[df["ID"] == df["ID"].iloc[0]]
            df.loc[rows[j], f"Y{k}"] = NAN
            outs = []
            for shift in (0.0, 1.75, -0.4):
                d = df.copy()
                d.loc[rows[j], "TIME"] += shift
                kind = "joint" if spec["kind"] == "joint" else "visit"
                ds = Dataset(Data.from_dataframe(d, kind, drop_full_nan=False, warn_empty_column=False))
                outs.append(initialised_parameters(spec, ds))
                acc.evaluation()
            acc.nontriv(repr(("init_ages", name_model, j, k)))
            if any("__exc__" in o for o in outs):
                if len({o.get("__exc__", (None, None))[1] for o in outs}) > 1:
                    acc.violation("initialize|outcome depends on the age of a visit at which the feature is missing|" + spec["kind"],
                                  str([o.get("__exc__") for o in outs]), dict(base_case))
                acc.outcome("init_ages:raises")
                continue
            a = outs[0]["param:log_v0_mean"][k]
            moved = [sh for sh, o in zip((1.75, -0.4), outs[1:]) if not same_tensor(a, o["param:log_v0_mean"][k])]
            if moved:
                acc.violation("initialize[log_v0_mean]|velocity of a feature depends on the age of a visit at which that feature is missing|" + spec["kind"],
                              f"feature {k}, visit {j} of the first individual moved by {moved}: {float(a)!r} -> "
                              f"{[float(o['param:log_v0_mean'][k]) for o in outs[1:]]}", dict(base_case))
            other = 1 - k if spec["dim"] == 2 else None
            acc.outcome("init_ages:own velocity unchanged" + (", the other feature's moved" if other is not None and not same_tensor(
                outs[0]["param:log_v0_mean"][other], outs[1]["param:log_v0_mean"][other]) else ""))


# ------------------------------------------------------------------------------------------------------------
# parts "fit" and "perso"

Z_CYCLE = [0.71, -1.13, 0.32, -0.44, 1.58, -0.23, 0.94, -1.37, 0.05, 1.21, -0.67, 0.49, -1.92, 0.18, -0.81, 1.03, -0.29]
U_CYCLE = [0.31, 0.62, 0.12, 0.83, 0.47, 0.94, 0.05, 0.55, 0.26, 0.71, 0.38]


class CycleEnv(seams.Env):
    """Scripted environment: element e of call c of a kind gets CYCLE[(c + 5 e) mod len] (prime lengths) (individuals and
    coordinates get different draws; nothing depends on the data); shuffles keep the given order."""

    def _answer(self, cycle, call, shape):
        n = 1
        for s in shape:
            n *= s
        vals = [cycle[(call + 5 * e) % len(cycle)] for e in range(n)]
        return torch.tensor(vals, dtype=torch.float32).reshape(shape)

    def answer_randn(self, call, shape, kwargs):
        return self._answer(Z_CYCLE, call, shape)

    def answer_rand(self, call, shape, kwargs):
        return self._answer(U_CYCLE, call, shape)

    def answer_shuffle(self, call, lst):
        return None


ALGOS = {
    "fit": ("mcmc_saem", dict(n_iter=4, n_burn_in_iter=2)),
    "mode_posterior": ("mode_posterior", dict(n_iter=6, n_burn_in_iter=2)),
    "mean_posterior": ("mean_posterior", dict(n_iter=6, n_burn_in_iter=2)),
    "scipy_minimize": ("scipy_minimize", dict()),
}


def run_algo(algo, spec, ds):
    """Returns ({name: tensor}, decisions string) or {'__exc__': ...}."""
    model = build_model(spec)
    name, kw = ALGOS[algo]
    env = CycleEnv()
    try:
        with contextlib.redirect_stdout(io.StringIO()), seams.seam(env):
            if algo == "fit":
                model.fit(ds, name, progress_bar=False, seed=0, **kw)
                res = {f"parameters[{k}]": v.detach().clone() for k, v in model.parameters.items()}
            else:
                ip = model.personalize(ds, name, progress_bar=False, seed=0, **kw)
                ids, pyt = ip.to_pytorch()
                res = {f"{k}": v.detach().clone() for k, v in pyt.items()}
                res["__ids__"] = list(ids)
    except Exception as e:
        return {"__exc__": (f"{'fit' if algo == 'fit' else 'personalize'}({name})", type(e).__name__, str(e)[:300])}
    res["__draws__"] = (env.n["z"], env.n["u"])
    return res


def prior_std(spec, model, key):
    k = key.split("[")[-1].rstrip("]")
    p = model.parameters
    if k == "tau" and "tau_std" in p:
        return float(p["tau_std"].reshape(-1)[0])
    if k == "xi" and "xi_std" in p:
        return float(p["xi_std"].reshape(-1)[0])
    return 1.0


def run_slow_base(acc, part, algo, name_model, spec, shape, pattern, variants, only=None):
    noise = spec["noise"] if spec["dim"] > 1 or not spec["noise"].startswith("gaussian") else "gaussian-scalar"
    ds0, df = cohort_dataset(spec, shape, pattern)
    base_case = {"part": part, "algo": algo, "model": name_model, "shape": list(shape), "pattern": pattern}
    site = f"fit(mcmc_saem)" if algo == "fit" else f"personalize({algo})"
    base = run_algo(algo, spec, edited(ds0, 0.0, 0))
    acc.evaluation()
    n_masked0 = int((ds0.mask == 0).sum())
    if n_masked0:
        acc.nontriv(repr((part, algo, name_model, shape, pattern, "0", 0)))
    if len(acc.samples) < 1 and n_masked0 and "__exc__" not in base:
        acc.sample(dict(base_case, fill="0", extra=0, table=df.to_dict("list"),
                        result={k: v.tolist() for k, v in base.items() if not k.startswith("__")}))
    if "__exc__" in base:
        stage, typ, msg = base["__exc__"]
        if typ == "LeaspyConvergenceError":
            acc.outcome(f"{algo}:LeaspyConvergenceError on the loader's tensors")
        else:
            acc.violation(f"{site}|raises {typ} on the loader's own tensors|{noise}", msg, dict(base_case, fill="0", extra=0))
    else:
        unseen = ~ds0.mask.bool().any(dim=0).any(dim=0)
        for k, v in base.items():
            if k.startswith("__"):
                continue
            if k == "parameters[noise_std]" and v.numel() == unseen.numel() and v.numel() > 1:
                v = v[~unseen]
                if bool(unseen.any()):
                    acc.outcome(f"{algo}:noise estimate undefined for a feature nobody observed")
            if not bool(torch.isfinite(v).all()):
                acc.violation(f"{site}|non-finite result on the loader's own tensors|{noise}", f"{k}: {brief(v)}", dict(base_case, fill="0", extra=0))
    model0 = build_model(spec)
    for label, extra in variants:
        if only is not None and (label, extra) != tuple(only):
            continue
        ds = edited(ds0, fill_value(label), extra)
        out = run_algo(algo, spec, ds)
        acc.evaluation()
        case = dict(base_case, fill=label, extra=extra)
        if int((ds.mask == 0).sum()):
            acc.nontriv(repr((part, algo, name_model, shape, pattern, label, extra)))
        what = "the number stored at a masked position" if extra == 0 else ("the amount of padding" if label == "0" else "the padding and the numbers stored in it")
        feature = f"{noise}, {fill_class(label)}" if label != "0" else f"{noise}, extra padding"
        ea, eb = out.get("__exc__"), base.get("__exc__")
        if ea or eb:
            if ea and eb and ea[:2] == eb[:2]:
                acc.outcome(f"{algo}:same exception")
                continue
            if ea:
                if ea[1] == "ValueError" and spec["noise"] == "bernoulli" and "support" in ea[2] and fill_value(label) not in (0.0, 1.0):
                    acc.violation(D19_SIGNATURE, f"{site}: {ea[2]}", case)
                else:
                    acc.violation(f"{site}|raises {ea[1]}|{feature}", ea[2], case)
            else:
                acc.violation(f"{site}|{eb[1]} only on the loader's own tensors|{feature}", eb[2], case)
            acc.outcome(f"{algo}:raises")
            continue
        if out["__draws__"] != base["__draws__"] or out.get("__ids__") != base.get("__ids__"):
            acc.violation(f"{site}|number of draws or order of individuals depends on {what}|{feature}", f"{out['__draws__']} vs {base['__draws__']}", case)
        exact = all(same_tensor(base[k], out[k]) for k in base if not k.startswith("__"))
        if exact:
            acc.outcome(f"{algo}:{'fill' if extra == 0 else 'padding'}:bit-identical")
            continue
        if extra == 0:
            k = next(k for k in base if not k.startswith("__") and not same_tensor(base[k], out[k]))
            acc.violation(f"{site}|result depends on {what}|{feature}", f"{k}: {_diff(base[k], out[k])}; {brief(base[k])} vs {brief(out[k])}", case,
                          expected={k: v.tolist() for k, v in base.items() if not k.startswith("__")},
                          observed={k: v.tolist() for k, v in out.items() if not k.startswith("__")})
            acc.outcome(f"{algo}:fill:differs")
            continue
        # other padding length: rounding (MCMC / fit) or optimiser tolerance (scipy: 5e-2 prior standard deviations)
        bad = None
        for k in base:
            if k.startswith("__"):
                continue
            a, b = _f64(base[k]), _f64(out[k])
            if a.shape != b.shape:
                bad = (k, "shape")
                break
            if algo == "scipy_minimize":
                tol = 5e-2 * prior_std(spec, model0, k)
            else:
                tol = 1e-4 * np.maximum(np.abs(a), np.abs(b)) + 1e-6
            with np.errstate(all="ignore"):
                ok = (np.isnan(a) & np.isnan(b)) | (a == b) | (np.abs(a - b) <= tol)
            if not bool(np.all(ok)):
                bad = (k, _diff(base[k], out[k]))
                break
        if bad:
            acc.violation(f"{site}|result depends on {what}|{feature}", f"{bad[0]}: {bad[1]}; {brief(base[bad[0]])} vs {brief(out[bad[0]])}", case)
            acc.outcome(f"{algo}:padding:differs")
        else:
            acc.outcome(f"{algo}:padding:within rounding")


# ------------------------------------------------------------------------------------------------------------
# contract

def bounds(tier):
    return {
        "stats": {"models": STATS_MODELS[tier], "shapes(2 features)": [list(s) for s in STATS_SHAPES[tier][2]],
                  "shapes(1 feature)": [list(s) for s in STATS_SHAPES[tier][1]], "patterns": "all (each individual keeps >= 1 observation)",
                  "fills": FILL_ORDER + ["seed + 0.5"], "extra padding": list(EXTRAS),
                  "data loaded over data already held": "same stored numbers (fill 0 and 7.5; 0 and 1 for binary outcomes) first loaded with every entry "
                                                        "declared observed and read, then loaded with the real mask: every observable as in a new state"},
        "data-driven initialisation": {"models": INIT_MODELS[tier], "shapes(2 features)": [list(s) for s in INIT_SHAPES[tier][2]],
                                       "shapes(1 feature)": [list(s) for s in INIT_SHAPES[tier][1]], "patterns": "all",
                                       "fills x extra padding": "full product" if tier == "thorough" else "fills 0, 7.5, nan, inf x extra 0, 1",
                                       "observed": "every parameter after model.initialize(dataset) of a new model"},
        "fit + mode/mean posterior": {"models": SLOW_MODELS[tier], "shapes(2 features)": [list(s) for s in SLOW_SHAPES[tier][2]],
                                      "shapes(1 feature)": [list(s) for s in SLOW_SHAPES[tier][1]], "variants (fill, extra)": SLOW_VARIANTS[tier]},
        "scipy_minimize": {"models": SCIPY_MODELS[tier], "shapes(2 features)": [list(s) for s in SCIPY_SHAPES[tier][2]],
                           "shapes(1 feature)": [list(s) for s in SCIPY_SHAPES[tier][1]], "variants (fill, extra)": SCIPY_VARIANTS[tier]},
    }


def _chunks(lst, size):
    return [lst[i:i + size] for i in range(0, len(lst), size)]


def shards(tier, seed):
    out = []
    seed_fill = repr(float(seed) + 0.5)
    fills = FILL_ORDER + ([seed_fill] if seed_fill not in FILL_ORDER else [])
    for name in STATS_MODELS[tier]:
        dim = MODEL_SPECS[name]["dim"]
        for shape in STATS_SHAPES[tier][dim]:
            for chunk in _chunks(patterns(shape, dim), 24):
                out.append({"part": "stats", "model": name, "shape": list(shape), "patterns": chunk, "fills": fills})
    for name in SLOW_MODELS[tier]:
        dim = MODEL_SPECS[name]["dim"]
        for shape in SLOW_SHAPES[tier][dim]:
            for chunk in _chunks(patterns(shape, dim), 8):
                variants = list(SLOW_VARIANTS[tier]) + ([("1", 0)] if MODEL_SPECS[name]["noise"] == "bernoulli" else [])
                out.append({"part": "slow", "model": name, "shape": list(shape), "patterns": chunk, "variants": variants,
                            "algos": ["fit", "mode_posterior", "mean_posterior"]})
    for name in SCIPY_MODELS[tier]:
        dim = MODEL_SPECS[name]["dim"]
        for shape in SCIPY_SHAPES[tier][dim]:
            for chunk in _chunks(patterns(shape, dim), 6):
                out.append({"part": "slow", "model": name, "shape": list(shape), "patterns": chunk, "variants": SCIPY_VARIANTS[tier],
                            "algos": ["scipy_minimize"]})
    for name in INIT_MODELS[tier]:
        dim = MODEL_SPECS[name]["dim"]
        for shape in INIT_SHAPES[tier][dim]:
            for chunk in _chunks(patterns(shape, dim), 24):
                out.append({"part": "init", "model": name, "shape": list(shape), "patterns": chunk,
                            "fills": fills if tier == "thorough" else ["0", "7.5", "nan", "inf"], "extras": [0, 1, 2] if tier == "thorough" else [0, 1]})
    for name in ("logistic_d2_s1_diag", "linear_d2_s0_scalar", "joint_d2_s1_diag"):
        out.append({"part": "init_ages", "model": name, "shape": [3, 2]})
    order = {"stats": 0, "init": 0, "init_ages": 0, "slow": 1}
    out.sort(key=lambda s: (order[s["part"]], sum(s["shape"]) * MODEL_SPECS[s["model"]]["dim"]))
    return out


def run_shard(shard):
    acc = Acc()
    name = shard["model"]
    spec = MODEL_SPECS[name]
    shape = tuple(shard["shape"])
    if shard["part"] == "stats":
        model = build_model(spec)
        full = observe(model, spec, cohort_dataset(spec, shape, 0)[0])
        acc.evaluation()
        for p in shard["patterns"]:
            run_stats_base(acc, name, model, spec, shape, p, shard["fills"], full=full)
    elif shard["part"] == "init_ages":
        run_init_ages(acc, name, spec)
    elif shard["part"] == "init":
        for p in shard["patterns"]:
            run_init_base(acc, name, spec, shape, p, shard["fills"], extras=tuple(shard.get("extras", EXTRAS)))
    else:
        for p in shard["patterns"]:
            for algo in shard["algos"]:
                part = "fit" if algo == "fit" else "perso"
                run_slow_base(acc, part, algo, name, spec, shape, p, [tuple(v) for v in shard["variants"]])
    return acc.to_dict()


def replay(case):
    acc = Acc()
    name = case["model"]
    spec = MODEL_SPECS[name]
    if case["part"] == "init_ages":
        run_init_ages(acc, name, spec)
        return [{"signature": v["signature"], "message": v["message"]} for v in acc.violations.values()]
    shape = tuple(case["shape"])
    only = (str(case["fill"]), case["extra"] if case["extra"] == "reload" else int(case["extra"]))
    if case["part"] == "stats":
        model = build_model(spec)
        fills = [only[0]] if only[0] != "0" and only[1] != "reload" else []
        full = observe(model, spec, cohort_dataset(spec, shape, 0)[0])
        run_stats_base(acc, name, model, spec, shape, case["pattern"], fills, extras=EXTRAS, only=only, full=full)
    elif case["part"] == "init":
        run_init_base(acc, name, spec, shape, case["pattern"], [only[0]], only=only)
    else:
        run_slow_base(acc, case["part"], case["algo"], name, spec, shape, case["pattern"], [only] if only != ("0", 0) else [], only=None)
    return [{"signature": v["signature"], "message": v["message"]} for v in acc.violations.values()]


def self_check():
    seams.self_check()
    spec = MODEL_SPECS["logistic_d2_s1_diag"]
    ds0, _ = cohort_dataset(spec, (1, 2), 0b000100)
    ds = edited(ds0, 7.5, 1)
    assert ds.values.shape == (2, 3, 2) and ds.mask.shape == (2, 3, 2) and ds.timepoints.shape == (2, 3)
    assert bool((ds.values[ds.mask == 0] == 7.5).all()) and float(ds.timepoints[0, 1]) == 7.5 and float(ds.timepoints[1, 1]) == 72.0
    assert patterns((1, 1), 2) and len(patterns((1, 2), 2)) == 45

"""C08 -- likelihood terms are the negative log-densities of the documented distributions.

E-GRID: full products of small alphabets pushed through

* the distribution families themselves, called exactly the way the models call them
  (``SymbolicDistribution.get_func_nll / get_func_regularization`` with the models' broadcasting layouts and dtypes), and
* the variable graphs of real logistic / joint models (``state['nll_attach_*_ind']``, ``state['nll_regul_*']``),

every entry being compared with ``scipy.stats`` (``norm``, ``bernoulli``, ``weibull_min``) evaluated in float64 on the
very same (already rounded) input numbers.

A *case* is one call of the implementation (one family call, or one evaluation of a model state); it is a plain
JSON-able dict holding every number that enters the call, so that ``replay`` is ``run_case`` on the stored dict.
A violation found inside a batched call is re-run on the single failing row and the one-row case is what is stored.
"""

from __future__ import annotations

import copy
import hashlib
import itertools
import json
import math

import numpy as np
import torch
from scipy import stats

import leaspy.models  # noqa: F401  (before leaspy.variables.*)
from leaspy.io.data import Data, Dataset
from leaspy.models import BaseModel
from leaspy.utils.weighted_tensor import WeightedTensor
from leaspy.variables import distributions as D

from ..core import Acc
from ..models import EVENTS, INDIVIDUALS, cohort_dataset, fresh_state, model_dict, visits_frame

ID = "C08"
LEVEL = "exploration"
RULE = (
    "full product of the stated alphabets; one evaluation = one call of the implementation (a family call on a batch "
    "of grid rows, or one evaluation of a model state holding a batch of individuals); a case is one ENTRY of such a "
    "call and is distinct when its (path, layout, dtypes, parameter point, value, censoring) tuple is new; it is "
    "non-trivial when the entry is unmasked and its reference is a density value or the prohibitive-penalty class "
    "(masked entries and the structurally zero 'censored before the reference time' entries are trivial); outcomes "
    "are the observed value classes per family (regular / zero / penalty / nan / inf)"
)
ASSUMPTIONS = [
    "real-valued parameters are covered on grids only (alphabets listed in bounds); an error that shows only between "
    "grid points is not seen",
    "dtypes restricted to those reachable from the models: event times float64 (Dataset), population variables and "
    "parameters float32, xi and tau float32 (samplers, prior mode) or - joint models only - float64 "
    "(JointModel.put_individual_parameters -> State.put_individual_latent_variables(df)), sources and survival shifts always float32; the all-float32 Weibull path (DESIGN D4) is unreachable and excluded",
    "the location of the observation distributions (state['model']) is read from the state, its closed form is C09's subject",
    "comparison tolerance 2e-5 * sum of the magnitudes of the terms of the reference (+1e-6): float32 implementation "
    "against float64 scipy on identical inputs; realistic errors (constant, dropped term, rho vs rho-1) are O(1)",
    "Bernoulli probabilities saturated beyond torch's clamp (p < eps32 or p > 1 - eps32, including exactly 0 and 1) are "
    "covered with a class oracle: the predicted outcome must give a finite value within 1e-6 of the exact 0; the other "
    "outcome (exact +inf or >= 16.6, clamped implementation 15.94) must give a value >= 15 that is not NaN (+inf accepted)",
    "exactly at t == tau an observed event may either get the prohibitive penalty or scipy's finite density value",
    "hash order fixed (PYTHONHASHSEED=0), single torch thread",
]

DT = {"f32": torch.float32, "f64": torch.float64}
PENALTY_MIN = 1e300
RTOL = 2e-5
ATOL = 1e-6

# ------------------------------------------------------------------------------------------ alphabets

N_X = [-2.0, 0.0, 0.5, 70.0]
N_LOC = [-2.0, 0.0, 0.5, 70.0]
# (0.001: below the tolerance under which a *fitted* variance is refused as collapsed - a density is a density at every scale)
N_SCALE = [0.01, 1.0, 5.0, 0.001]
B_P = [0.01, 0.3, 0.5, 0.99]
W_NU = [0.5, 5.0, 40.0]
W_RHO = [0.5, 1.0, 2.5]
W_XI = [-0.5, 0.0, 0.7]
W_TAU = [60.0, 70.0]
W_DELTA = [-5.0, -1e-9, 0.0, 1e-6, 0.5, 10.0, 50.0]
# far before tau: 1e307 * |t - tau| overflows a double from 18 on; the penalty must stay finite however far the event is
W_DELTA_FAR = [-17.0, -18.0, -20.0, -50.0, -1000.0, -1e6]
W_SHIFT = [-1.0, 0.0, 2.0]


def alphabets(tier, seed):
    a = dict(x=list(N_X), loc=list(N_LOC), scale=list(N_SCALE), p=list(B_P), nu=list(W_NU), rho=list(W_RHO),
             xi=list(W_XI), tau=list(W_TAU), delta=list(W_DELTA) + list(W_DELTA_FAR), shift=list(W_SHIFT))
    # the seed only extends alphabets (values exactly representable in float32)
    # saturated probabilities (all exactly representable in float32): exact 0 / 1, the float32 neighbours of 1 on both sides
    # of the clamp 1 - eps32, the smallest denormal, 2^-24 (< eps32) and eps32 itself
    a["p"] += [0.0, 1.0, 1.0 - 2.0**-24, 1.0 - 2.0**-23, 2.0**-149, 2.0**-24, 2.0**-23]
    a["x"].append(1.0 + 0.125 * (seed % 64))
    a["delta"].append(1.0 + 0.25 * (seed % 64))
    if tier == "thorough":
        a["x"] += [-70.0, 0.99]
        a["loc"] += [1.0]
        a["scale"] += [0.3, 100.0]
        a["p"] += [1e-4, 0.75]
        a["nu"] += [1.0]
        a["rho"] += [1.5]
        a["xi"] += [2.0]
        a["delta"] += [-30.0, 1e-3]
    return a


def bounds(tier):
    a = alphabets(tier, 0)
    return {
        "normal": {"x": a["x"] + ["1+seed/8"], "loc": a["loc"], "scale": a["scale"],
                   "layouts": list(NORMAL_LAYOUTS), "functions": ["nll", "regularization", "nll_and_jacobian", "nll_jacobian"],
                   "dtypes(x,params)": NORMAL_DTYPES[tier]},
        "bernoulli": {"p": a["p"], "x": [0, 1], "layout": "(n,t,f) masked", "dtypes": ["f32"],
                      "saturated model states": "xi in {1.5, 3}, visits at ages 1 and 140 (float32 curve exactly 0 / ~1e-25 / exactly 1), outcomes agreeing and contradicting"},
        "weibull": {"nu": a["nu"], "rho": a["rho"], "xi": a["xi"], "tau": a["tau"], "t-tau": a["delta"] + ["1+seed/4"],
                    "event code": "0..n_events", "survival shift": a["shift"], "n_events": [1, 2],
                    "families": ["without sources", "with sources"],
                    "dtypes": "event f64; nu,rho,shifts f32; xi,tau f32 or f64 (t-tau=-1e-9 only with f64 tau)"},
        "states": [s["name"] for s in state_shards(tier, 0)],
    }


# ------------------------------------------------------------------------------------------ small helpers

def T(v, dt):
    return torch.tensor(v, dtype=DT[dt])


def A(t):
    if isinstance(t, WeightedTensor):
        t = t.value
    return t.detach().to(torch.float64).numpy()


def _h(*parts):
    return hashlib.blake2b("|".join(map(str, parts)).encode(), digest_size=8).hexdigest()


def _cls(v):
    if v != v:
        return "nan"
    if math.isinf(v):
        return "inf"
    if abs(v) >= PENALTY_MIN:
        return "penalty"
    if v == 0:
        return "zero"
    return "regular"


class Out:
    """Result of judging one call: per-entry records (vectorised) + violations."""

    def __init__(self):
        self.viol = []  # (signature, message, row_index, expected, observed)
        self.keys = []  # nontrivial keys
        self.outcomes = []
        self.margins = []
        self.saturated = 0
        self.example = None  # one written-out entry: inputs, observed, reference

    def bad(self, sig, msg, row, expected=None, observed=None):
        self.viol.append((sig, msg, row, expected, observed))


def _margin_bucket(err, tol):
    with np.errstate(all="ignore"):
        r = np.nanmax(np.where(tol > 0, err / tol, 0.0)) if err.size else 0.0
    if not np.isfinite(r):
        return "margin:n/a"
    return "margin:err/tol<1%" if r < 0.01 else "margin:err/tol<10%" if r < 0.1 else "margin:err/tol<100%" if r < 1 else "margin:exceeded"


def _compare(out, site, feature, obs, ref, tol, rows, mask=None, kind="differs from scipy.stats reference"):
    """Entry-wise |obs-ref| <= tol and finite; `rows[i]` = row index of flat entry i."""
    obs = np.asarray(obs, dtype=np.float64).reshape(-1)
    ref = np.asarray(ref, dtype=np.float64).reshape(-1)
    tol = np.broadcast_to(np.asarray(tol, dtype=np.float64).reshape(-1), obs.shape)
    sel = np.ones(obs.shape, bool) if mask is None else np.asarray(mask, bool).reshape(-1)
    with np.errstate(all="ignore"):
        err = np.abs(obs - ref)
    nonfin = sel & ~np.isfinite(obs)
    wrong = sel & np.isfinite(obs) & ~(err <= tol)
    for i in np.flatnonzero(nonfin):
        out.bad(f"{site}|not finite|{feature}", f"{site}: entry {i} is {obs[i]} (reference {ref[i]})", rows[i], ref[i], obs[i])
    for i in np.flatnonzero(wrong):
        out.bad(f"{site}|{kind}|{feature}", f"{site}: entry {i} observed {obs[i]!r} reference {ref[i]!r} (tolerance {tol[i]:.3g})",
                rows[i], ref[i], obs[i])
    out.margins.append(_margin_bucket(err[sel & np.isfinite(obs)], tol[sel & np.isfinite(obs)]))


# ------------------------------------------------------------------------------------------ references (float64, scipy)

def ref_normal(x, loc, scale):
    x, loc, scale = np.broadcast_arrays(x, loc, scale)
    ref = -stats.norm.logpdf(x, loc=loc, scale=scale)
    tol = RTOL * (0.5 * ((x - loc) / scale) ** 2 + np.abs(np.log(scale)) + 0.9189385332) + ATOL
    return ref, tol


EPS32 = 2.0**-23  # torch.distributions clamps probabilities to [eps32, 1 - eps32]
SAT_AGREE_ATOL = 1e-6  # exact value is < 6e-8 there; the clamped implementation returns -log(1 - eps32) = 1.19e-7
SAT_DISAGREE_MIN = 15.0  # exact value is >= -log(2^-24) = 16.6 (or +inf); the clamped implementation returns -log(eps32) = 15.94


def ref_bernoulli(x, p):
    """Entry-wise reference -log pmf, tolerance and class.

    "regular": eps32 <= p <= 1 - eps32, compared with scipy within the rounding tolerance.
    "sat-agree": p saturated (< eps32 or > 1 - eps32, including exactly 0 / 1) and the outcome is the one the
        probability predicts: the exact value is 0 (at most 6e-8); demanded: finite and within 1e-6 of it.
    "sat-disagree": p saturated and the outcome is the other one: the exact value is +inf (p exactly 0 / 1) or >= 16.6;
        the documented torch behaviour is the clamped -log(eps32) = 15.94.  Demanded: not NaN, not -inf, >= 15
        (+inf, the exact value, is accepted).  Cannot alarm on the real implementation: it returns 15.94 for every
        saturated p, and any exact evaluation returns >= 16.6."""
    x, p = np.broadcast_arrays(np.asarray(x, np.float64), np.asarray(p, np.float64))
    with np.errstate(all="ignore"):
        ref = -stats.bernoulli.logpmf(x, p)
    sat = (p < EPS32) | (p > 1 - EPS32)
    agree = sat & (((p < EPS32) & (x == 0)) | ((p > 1 - EPS32) & (x == 1)))
    klass = np.full(x.shape, "regular", dtype=object)
    klass[agree] = "sat-agree"
    klass[sat & ~agree] = "sat-disagree"
    with np.errstate(all="ignore"):
        tol = np.where(sat, SAT_AGREE_ATOL, RTOL * np.abs(ref) + 5e-6)  # torch goes through logits: abs. error ~ eps32 * |logit|
    return ref, tol, klass


def judge_bernoulli(out, site, feature, obs, ref, tol, klass, rows, mask):
    obs = np.asarray(obs, np.float64).reshape(-1)
    ref, tol, klass, mask = ref.reshape(-1), tol.reshape(-1), klass.reshape(-1), np.asarray(mask, bool).reshape(-1)
    for i in np.flatnonzero(mask):
        o, k = obs[i], klass[i]
        if k == "sat-disagree":
            if not (o >= SAT_DISAGREE_MIN):  # NaN, -inf, or not large
                out.bad(f"{site}|saturated probability, other outcome: NaN or below -log(eps32)|{feature}",
                        f"{site}: entry {i} observed {o!r}, exact -log pmf {ref[i]!r}", rows[i], ">=15 (exact +inf or clamped 15.94)", _j(o))
        elif not np.isfinite(o):
            out.bad(f"{site}|not finite|{feature}" if k == "regular" else
                    f"{site}|saturated probability, predicted outcome: not finite|{feature}",
                    f"{site}: entry {i} ({k}) is {o!r}, exact -log pmf {ref[i]!r}", rows[i], _j(ref[i]), _j(o))
        elif not abs(o - ref[i]) <= tol[i]:
            out.bad(f"{site}|differs from -scipy.stats.bernoulli.logpmf|{feature}" if k == "regular" else
                    f"{site}|saturated probability, predicted outcome: not within 1e-6 of the exact value|{feature}",
                    f"{site}: entry {i} ({k}) observed {o!r} reference {ref[i]!r} (tolerance {tol[i]:.3g})", rows[i], _j(ref[i]), _j(o))
    reg = mask & (klass == "regular") & np.isfinite(obs)
    with np.errstate(all="ignore"):
        out.margins.append(_margin_bucket(np.abs(obs - ref)[reg], tol[reg]))


def ref_weibull(t, observed, nu, rho, xi, tau, shift):
    """Entry-wise reference for the right-censored Weibull on the reparametrised time.

    Returns (ref, tol, klass) with klass in {"regular", "zero", "penalty", "boundary"}; for "boundary"
    (observed event exactly at tau) ref is scipy's value, possibly +-inf."""
    t, observed, nu, rho, xi, tau, shift = np.broadcast_arrays(t, observed, nu, rho, xi, tau, shift)
    observed = observed.astype(bool)
    scale = nu * np.exp(-xi - shift / rho)
    d = t - tau
    dist = stats.weibull_min(c=rho, scale=scale, loc=tau)
    with np.errstate(all="ignore"):
        surv = -dist.logsf(t)
        dens = -dist.logpdf(t)
        u = np.where(d > 0, d / scale, 1.0)
        mag = np.where(d > 0, u**rho, 0.0) + np.where(observed, np.abs(np.log(rho / scale)) + np.abs((rho - 1) * np.log(u)), 0.0)
    ref = np.where(observed, dens, surv)
    klass = np.full(t.shape, "regular", dtype=object)
    klass[(d <= 0) & ~observed] = "zero"
    klass[(d < 0) & observed] = "penalty"
    klass[(d == 0) & observed] = "boundary"
    ref = np.where(klass == "zero", 0.0, ref)
    tol = RTOL * (mag + 1.0)
    return ref, tol, klass, d


def judge_weibull(out, site, obs, ref, tol, klass, rows, featfn):
    obs = np.asarray(obs, np.float64).reshape(-1)
    ref, tol, klass = ref.reshape(-1), tol.reshape(-1), klass.reshape(-1)
    feats = featfn()
    for i in range(obs.size):
        o, k, f = obs[i], klass[i], feats[i]
        if not np.isfinite(o):
            out.bad(f"{site}|not finite|{f}", f"{site}: entry {i} ({f}) is {o}", rows[i], _j(ref[i]), o)
        elif k == "regular":
            if not abs(o - ref[i]) <= tol[i]:
                out.bad(f"{site}|differs from scipy.stats.weibull_min|{f}",
                        f"{site}: entry {i} ({f}) observed {o!r} reference {ref[i]!r} (tolerance {tol[i]:.3g})", rows[i], ref[i], o)
        elif k == "zero":
            if o != 0:
                out.bad(f"{site}|censored at or before tau is not zero|{f}", f"{site}: entry {i} observed {o!r}, survival is 1 there",
                        rows[i], 0.0, o)
        elif k == "penalty":
            if not o >= PENALTY_MIN:
                out.bad(f"{site}|penalty not prohibitive|{f}", f"{site}: entry {i} observed {o!r} for an observed event before tau",
                        rows[i], ">=1e300, finite", o)
        elif k == "boundary":
            if not (o >= PENALTY_MIN or (np.isfinite(ref[i]) and abs(o - ref[i]) <= tol[i])):
                out.bad(f"{site}|observed event at tau neither penalised nor the density value|{f}",
                        f"{site}: entry {i} observed {o!r}, scipy {ref[i]!r}", rows[i], _j(ref[i]), o)
    reg = klass == "regular"
    with np.errstate(all="ignore"):
        out.margins.append(_margin_bucket(np.abs(obs - ref)[reg & np.isfinite(obs)], tol[reg & np.isfinite(obs)]))


def _j(v):
    v = float(v)
    return v if math.isfinite(v) else repr(v)


# ------------------------------------------------------------------------------------------ part 1: family calls

NORMAL_LAYOUTS = {
    # name: (x shape kind, loc shape kind, scale shape kind, function used by the models)
    "obs (n,t,f) masked x (n,t,f) x (f,)": "nll",  # diagonal noise
    "obs (n,t,f) masked x (n,t,f) x (1,)": "nll",  # scalar noise
    "ind (n,1) x (1,) x (1,)": "regularization",  # tau
    "ind (n,1) x () x (1,)": "regularization",  # xi
    "ind (n,s) x (s,) x ()": "regularization",  # sources
    "pop (f,) x (f,) x ()": "regularization",  # log_g, log_v0, n_log_nu, log_rho
    "pop (k,s) x (k,s) x ()": "regularization",  # betas, zeta
    "0-d x 0-d x 0-d": "regularization",
}
NORMAL_DTYPES = {"quick": [["f32", "f32"], ["f64", "f32"]], "thorough": [["f32", "f32"], ["f64", "f32"], ["f64", "f64"]]}
FAMILIES = {
    "normal": (D.Normal, ("loc", "scale")),
    "bernoulli": (D.Bernoulli, ("loc",)),
    "weibull": (D.WeibullRightCensored, ("nu", "rho", "xi", "tau")),
    "weibull_sources": (D.WeibullRightCensoredWithSources, ("nu", "rho", "xi", "tau", "survival_shifts")),
}


def normal_cases(layout, func, dts, a):
    """Yield the family-call cases of one Normal layout: together they cover x * loc * scale."""
    xs, locs, scales = a["x"], a["loc"], a["scale"]
    base = {"part": "family", "dist": "normal", "func": func, "layout": layout,
            "dt": {"x": dts[0], "loc": dts[1], "scale": dts[1]}}

    def case(x, loc, scale, weight=None, rowaxes=0, rowed=()):
        c = dict(base)
        c.update(x=x, weight=weight, par={"loc": loc, "scale": scale}, rowaxes=rowaxes, rowed=list(rowed))
        return c

    if layout.startswith("obs"):
        diag = layout.endswith("(f,)")
        sc_list = [list(p) for p in itertools.product(scales, repeat=2)] if diag else [[s] for s in scales]
        n, t = len(xs), len(locs)
        for sc in sc_list:
            for pattern in ("all", "checker", "last-feature-missing"):
                x = [[[xs[(i + k) % n] for k in range(2)] for j in range(t)] for i in range(n)]
                loc = [[[locs[(j + k) % t] for k in range(2)] for j in range(t)] for i in range(n)]
                w = [[[_mask(pattern, i, j, k) for k in range(2)] for j in range(t)] for i in range(n)]
                yield case(x, loc, sc, w, 2, ("x", "weight", "loc"))
    elif layout == "ind (n,1) x (1,) x (1,)":
        for loc, sc in itertools.product(locs, scales):
            yield case([[x] for x in xs], [loc], [sc], None, 1, ("x",))
    elif layout == "ind (n,1) x () x (1,)":
        for loc, sc in itertools.product(locs, scales):
            yield case([[x] for x in xs], loc, [sc], None, 1, ("x",))
    elif layout == "ind (n,s) x (s,) x ()":
        for (l0, l1), sc in itertools.product(itertools.product(locs, repeat=2), scales):
            yield case([list(p) for p in itertools.product(xs, repeat=2)], [l0, l1], sc, None, 1, ("x",))
    elif layout == "pop (f,) x (f,) x ()":
        for xp, lp, sc in itertools.product(itertools.product(xs, repeat=2), itertools.product(locs, repeat=2), scales):
            yield case(list(xp), list(lp), sc)
    elif layout == "pop (k,s) x (k,s) x ()":
        for r0 in range(len(xs)):
            xm = [xs[(r0 + q) % len(xs)] for q in range(4)]
            for r in range(len(locs)):
                lm = [locs[(r + q) % len(locs)] for q in range(4)]
                for sc in scales:
                    yield case([xm[:2], xm[2:]], [lm[:2], lm[2:]], sc)
    elif layout == "0-d x 0-d x 0-d":
        for x, loc, sc in itertools.product(xs, locs, scales):
            yield case(x, loc, sc)
    else:
        raise ValueError(layout)


def _mask(pattern, i, j, k):
    if pattern == "all":
        return True
    if pattern == "checker":
        return (i + j + k) % 2 == 0
    return k == 0


def bernoulli_cases(a):
    ps = a["p"]
    for pattern in ("all", "checker", "last-feature-missing"):
        n, t = 2, len(ps)
        x = [[[float((i + k) % 2) for k in range(2)] for j in range(t)] for i in range(n)]
        p = [[[ps[(j + k) % t] for k in range(2)] for j in range(t)] for i in range(n)]
        w = [[[_mask(pattern, i, j, k) for k in range(2)] for j in range(t)] for i in range(n)]
        yield {"part": "family", "dist": "bernoulli", "func": "nll", "layout": "obs (n,t,f) masked x (n,t,f)",
               "dt": {"x": "f32", "loc": "f32"}, "x": x, "weight": w, "par": {"loc": p}, "rowaxes": 2,
               "rowed": ["x", "weight", "loc"]}


def weibull_rows(a, ne, sources, ind_dt):
    """Grid rows (xi, tau, t, event code, shifts); t - tau = -1e-9 is realised by moving a float64 tau,
    t - tau <= -60 by moving tau (exactly representable in float32) far after a fixed early event."""
    rows = []
    shifts = a["shift"] if sources else [0.0]
    for xi, tau0, delta, code, (si, s) in itertools.product(a["xi"], a["tau"], a["delta"], range(ne + 1), enumerate(shifts)):
        if abs(delta) < 1e-7 and delta != 0:
            if ind_dt != "f64":
                continue
            t, tau = tau0, tau0 - delta
        elif tau0 + delta < 10.0:
            # far before the reference time: event times must stay positive and after the visit (age 5), so the young
            # individual (event at tau0 - 30) is evaluated at a late tau instead
            t = tau0 - 30.0
            tau = t - delta
        else:
            t, tau = tau0 + delta, tau0
        sh = [shifts[(si + e) % len(shifts)] for e in range(ne)]
        rows.append({"xi": xi, "tau": tau, "t": t, "code": code, "shift": sh})
    return rows


def weibull_cases(a, ne, sources, ind_dt):
    rows = weibull_rows(a, ne, sources, ind_dt)
    dist = "weibull_sources" if sources else "weibull"
    for nr in itertools.product(itertools.product(a["nu"], a["rho"]), repeat=ne):
        par = {"nu": [p[0] for p in nr], "rho": [p[1] for p in nr],
               "xi": [[r["xi"]] for r in rows], "tau": [[r["tau"]] for r in rows]}
        dt = {"x": "f64", "nu": "f32", "rho": "f32", "xi": ind_dt, "tau": ind_dt}
        rowed = ["x", "weight", "xi", "tau"]
        if sources:
            par["survival_shifts"] = [r["shift"] for r in rows]
            dt["survival_shifts"] = "f32"  # sources @ zeta, both always float32 in the models
            rowed.append("survival_shifts")
        yield {"part": "family", "dist": dist, "func": "nll", "layout": f"event (n,{ne}) x nu,rho ({ne},) x xi,tau (n,1)"
               + (f" x shifts (n,{ne})" if sources else ""), "dt": dt,
               "x": [[r["t"]] * ne for r in rows], "weight": [[r["code"] == e + 1 for e in range(ne)] for r in rows],
               "par": par, "rowaxes": 1, "rowed": rowed}


def _slice_family(case, prefix):
    """The same call restricted to the grid row `prefix` (tuple over the leading row axes)."""
    c = copy.deepcopy(case)

    def cut(v):
        arr = np.asarray(v)
        for ax, i in enumerate(prefix):
            arr = np.take(arr, [i], axis=ax)
        return arr.tolist()

    for name in case["rowed"]:
        if name == "x":
            c["x"] = cut(case["x"])
        elif name == "weight":
            if case["weight"] is not None:
                c["weight"] = cut(case["weight"])
        else:
            c["par"][name] = cut(case["par"][name])
    c["minimised_from_row"] = list(prefix)
    return c


def run_family(case):
    out = Out()
    dist, func = case["dist"], case["func"]
    factory, pnames = FAMILIES[dist]
    sym = factory(*pnames)
    site = f"{factory.__name__.replace('symbolic_', '').replace('_factory', '')}.get_func_{func}"
    xv = T(case["x"], case["dt"]["x"])
    w = None if case["weight"] is None else torch.tensor(case["weight"], dtype=torch.bool)
    par = {k: T(v, case["dt"][k]) for k, v in case["par"].items()}
    k = case["rowaxes"]
    layout = case["layout"]
    dts = ",".join(f"{n}:{case['dt'][n]}" for n in sorted(case["dt"]))

    # ---- implementation
    try:
        if func == "regularization":
            res = sym.get_func_regularization("x")(x=xv, **par)  # raw tensor, as for latent variables
        elif func == "nll":
            res = sym.get_func_nll("x")(x=WeightedTensor(xv, w), **par)
        elif func == "nll_and_jacobian":
            res, jac = sym.get_func_nll_and_jacobian("x")(x=WeightedTensor(xv, w), **par)
        elif func == "nll_jacobian":
            jac = sym.get_func_nll_jacobian("x")(x=WeightedTensor(xv, w), **par)
            res = None
        else:
            raise ValueError(func)
    except Exception as e:  # the families must evaluate every grid point
        out.bad(f"{site}|{type(e).__name__}|{layout}", f"{site} raised {type(e).__name__}: {e}", None)
        return out

    full = torch.broadcast_shapes(xv.shape, *[p.shape for p in par.values()])
    idx = list(np.ndindex(*full)) if full else [()]
    rows = [tuple(i[:k]) for i in idx]
    wfull = np.ones(full, bool) if w is None else np.broadcast_to(w.numpy(), full)

    def shape_ok(r, what):
        if not isinstance(r, WeightedTensor):
            out.bad(f"{site}|result is not a WeightedTensor|{layout}", f"{what}: {type(r).__name__}", None)
            return False
        if tuple(r.value.shape) != tuple(full):
            out.bad(f"{site}|result shape differs from the broadcast shape|{layout}",
                    f"{what}: shape {tuple(r.value.shape)} expected {tuple(full)}", None, list(full), list(r.value.shape))
            return False
        return True

    # ---- reference
    x64 = A(xv)
    p64 = {n: A(p) for n, p in par.items()}
    if dist == "normal":
        ref, tol = ref_normal(x64, p64["loc"], p64["scale"])
        ref, tol = np.broadcast_to(ref, full), np.broadcast_to(tol, full)
        if res is not None and shape_ok(res, "nll"):
            if (res.weight is None) != (w is None) or (w is not None and not torch.equal(res.weight.to(torch.bool).expand(full), w.expand(full))):
                out.bad(f"{site}|weight of the value is not carried to its likelihood term|{layout}", "weights differ", None)
            _compare(out, site, layout, A(res), ref, tol, rows, wfull, "differs from -scipy.stats.norm.logpdf")
            obs = A(res).reshape(-1)
            out.example = {"entry": list(idx[-1]), "x": float(np.broadcast_to(x64, full)[idx[-1]]),
                           "loc": float(np.broadcast_to(p64["loc"], full)[idx[-1]]), "scale": float(np.broadcast_to(p64["scale"], full)[idx[-1]]),
                           "observed": _j(obs[-1]), "-norm.logpdf": _j(ref[idx[-1]])}
            for i, ix in enumerate(idx):
                if wfull[ix]:
                    out.keys.append(_h("N", layout, dts, func, np.broadcast_to(x64, full)[ix],
                                       np.broadcast_to(p64["loc"], full)[ix], np.broadcast_to(p64["scale"], full)[ix]))
                    out.outcomes.append(f"normal:{_cls(obs[i])}")
                else:
                    out.outcomes.append("normal:masked")
        if func in ("nll_and_jacobian", "nll_jacobian") and shape_ok(jac, "jacobian"):
            xx, ll, ss = np.broadcast_arrays(x64, p64["loc"], p64["scale"])
            jref = (xx - ll) / ss**2  # d/dx of -log N(x; loc, scale)
            _compare(out, site, layout, A(jac), jref, RTOL * np.abs(jref) + 1e-7, rows, wfull, "jacobian differs from (x-loc)/scale^2")
            if res is None:
                for i, ix in enumerate(idx):
                    if wfull[ix]:
                        out.keys.append(_h("NJ", layout, dts, xx[ix], ll[ix], ss[ix]))
                        out.outcomes.append("normal-jacobian:" + _cls(float(A(jac).reshape(-1)[i])))
    elif dist == "bernoulli":
        ref, tol, bkl = ref_bernoulli(x64, p64["loc"])
        if shape_ok(res, "nll"):
            if res.weight is None or not torch.equal(res.weight.to(torch.bool), w):
                out.bad(f"{site}|weight of the value is not carried to its likelihood term|{layout}", "weights differ", None)
            judge_bernoulli(out, site, layout, A(res), ref, tol, bkl, rows, wfull)
            obs = A(res).reshape(-1)
            out.example = {"entry": list(idx[0]), "x": float(x64[idx[0]]), "p": float(p64["loc"][idx[0]]), "observed": _j(obs[0]),
                           "-bernoulli.logpmf": _j(ref[idx[0]])}
            for i, ix in enumerate(idx):
                if wfull[ix]:
                    out.keys.append(_h("B", dts, x64[ix], repr(p64["loc"][ix])))
                    out.outcomes.append(f"bernoulli:x={int(x64[ix])}:{bkl[ix]}:{_cls(obs[i])}")
                else:
                    out.outcomes.append("bernoulli:masked")
    else:
        shift = p64.get("survival_shifts", 0.0)
        observed = np.broadcast_to(w.numpy(), full)
        ref, tol, klass, d = ref_weibull(x64, observed, p64["nu"], p64["rho"], p64["xi"], p64["tau"], shift)
        if shape_ok(res, "nll"):
            obs = A(res).reshape(-1)

            def feats():
                return [_wfeat(observed[ix], d[ix]) for ix in idx]

            judge_weibull(out, site, obs, ref, tol, klass, rows, feats)
            nu, rho, xi, tau, sh = (np.broadcast_to(v, full) for v in (p64["nu"], p64["rho"], p64["xi"], p64["tau"], shift))
            ex = [ix for ix in idx if klass[ix] == "regular" and observed[ix]] or idx
            out.example = {"entry": list(ex[-1]), "t": float(x64[ex[-1]]), "observed_event": bool(observed[ex[-1]]), "nu": float(nu[ex[-1]]),
                           "rho": float(rho[ex[-1]]), "xi": float(xi[ex[-1]]), "tau": float(tau[ex[-1]]), "shift": float(sh[ex[-1]]),
                           "observed": _j(obs[idx.index(ex[-1])]), "reference(weibull_min)": _j(ref[ex[-1]]), "class": str(klass[ex[-1]])}
            for i, ix in enumerate(idx):
                kl = klass[ix]
                out.outcomes.append(f"weibull:{kl}:{_cls(obs[i])}")
                if kl != "zero":
                    out.keys.append(_h("W", dist, dts, nu[ix], rho[ix], xi[ix], tau[ix], sh[ix], x64[ix], bool(observed[ix])))
    return out


def _wfeat(observed, d):
    return ("observed" if observed else "censored") + "," + ("t>tau" if d > 0 else "t<tau" if d < 0 else "t==tau")


# ------------------------------------------------------------------------------------------ part 2: model states

PRIORS = {  # documented priors: latent variable -> (location variable, scale variable)
    "xi": ("xi_mean", "xi_std"), "tau": ("tau_mean", "tau_std"), "sources": ("sources_mean", "sources_std"),
    "log_g": ("log_g_mean", "log_g_std"), "log_v0": ("log_v0_mean", "log_v0_std"), "betas": ("betas_mean", "betas_std"),
    "n_log_nu": ("n_log_nu_mean", "n_log_nu_std"), "log_rho": ("log_rho_mean", "log_rho_std"), "zeta": ("zeta_mean", "zeta_std"),
}
_MODELS = {}


def get_model(spec, ne):
    key = (tuple(sorted(spec.items())), ne)
    if key not in _MODELS:
        d = copy.deepcopy(model_dict(spec))
        if spec["kind"] == "joint" and ne != 1:
            d["nb_events"] = ne
            p = d["parameters"]
            p["log_rho_mean"] = [0.6 - 0.3 * e for e in range(ne)]
            p["n_log_nu_mean"] = [-1.8 - 0.2 * e for e in range(ne)]
            if spec.get("ns"):
                p["zeta_mean"] = [[0.05 * (j + 1) * (-1) ** (j + e) for e in range(ne)] for j in range(spec["ns"])]
        _MODELS[key] = BaseModel.load(d)
    return _MODELS[key]


def companions(spec, ne):
    """Rows appended to every joint dataset so that the reader sees every event code (its own validation)."""
    if spec["kind"] != "joint":
        return []
    dim, ns = spec["dim"], spec.get("ns", 0)
    return [{"xi": 0.0, "tau": 70.0, "sources": [0.0] * ns, "visits": [[5.0, [0.5] * dim]], "event": [80.0, c]} for c in range(ne + 1)]


_DS_CACHE = {}


def build_dataset(case):
    """(Dataset, rows in dataset order); cached on the full content of (spec, ne, cohort, rows)."""
    key = _h(json.dumps([case["spec"], case.get("ne", 1), case.get("cohort"), case["rows"]], sort_keys=True))
    if key not in _DS_CACHE:
        _DS_CACHE.clear()
        _DS_CACHE[key] = _build_dataset(case)
    return _DS_CACHE[key]


def _build_dataset(case):
    spec, ne = case["spec"], case.get("ne", 1)
    if case.get("cohort"):
        ds = cohort_dataset(case["cohort"], spec)
        rows = case["rows"]
        order = [case["cohort"].index(i) for i in ds.indices]
        return ds, [rows[o] for o in order]
    rows = list(case["rows"]) + companions(spec, ne)
    ids = [f"r{i:05d}" for i in range(len(rows))]
    feats = [f"Y{i}" for i in range(spec["dim"])]
    vrows = [(ids[i], age, vals) for i, r in enumerate(rows) for age, vals in r["visits"]]
    if spec["kind"] == "joint":
        df = visits_frame(vrows, feats, {ids[i]: (r["event"][0], r["event"][1]) for i, r in enumerate(rows)})
        ds = Dataset(Data.from_dataframe(df, "joint", factory_kws={"nb_events": ne}))
    else:
        ds = Dataset(Data.from_dataframe(visits_frame(vrows, feats)))
    order = [ids.index(i) for i in ds.indices]
    return ds, [rows[o] for o in order]


def catalogue_rows(ids, spec, latents):
    dim, binary = spec["dim"], spec.get("noise") == "bernoulli"
    rows = []
    for i, lat in zip(ids, latents):
        visits = []
        for age, vals in INDIVIDUALS[i]:
            vv = [v if v != v else (float(v > 0.3) if binary else v) for v in vals[:dim]]
            visits.append([age, [None if v != v else v for v in vv]])
        r = dict(lat)
        r["visits"] = visits
        if spec["kind"] == "joint":
            r["event"] = [EVENTS[i][0], EVENTS[i][1]]
        rows.append(r)
    return rows


def run_state(case):
    out = Out()
    spec, ne, ind_dt = case["spec"], case.get("ne", 1), case.get("ind_dt", "f32")
    kind, dim, ns, noise = spec["kind"], spec["dim"], spec.get("ns", 0), spec["noise"]
    joint = kind == "joint"
    tag = f"{kind},{noise}" + (f",{ne} events" if joint else "")
    model = get_model(spec, ne)
    ds, rows = build_dataset(case)
    n = len(rows)
    st = fresh_state(model, ds)
    for name, val in case["set"]:
        st[name] = T(val, "f32")
    st["xi"] = T([[r["xi"]] for r in rows], ind_dt)
    st["tau"] = T([[r["tau"]] for r in rows], ind_dt)
    if ns:
        st["sources"] = T([r["sources"] for r in rows], "f32")  # always float32 in the models (State.put_individual_latent_variables)
    dts = f"ind:{ind_dt}"

    # ---- harness-side consistency of what was put (data ingestion is not under test here)
    tmax = ds.values.shape[1]
    y = np.full((n, tmax, dim), np.nan)
    for i, r in enumerate(rows):
        mine = {float(np.float32(age)): vals for age, vals in r["visits"]}
        for j in range(ds.n_visits_per_individual[i]):  # visits without any value may or may not be kept by the reader
            vals = mine[float(ds.timepoints[i, j])]
            y[i, j] = [np.nan if v is None else float(np.float32(v)) for v in vals]
    m = ds.mask.numpy().astype(bool)
    assert (m == ~np.isnan(y)).all(), "dataset mask differs from the rows given"
    assert np.array_equal(ds.values.numpy().astype(np.float64)[m], y[m]), "dataset values differ from the rows given"

    def read(name):
        try:
            return st[name]
        except Exception as e:
            out.bad(f"state[{name}]|{type(e).__name__}|{tag}", f"reading {name} raised {type(e).__name__}: {e}", None)
            return None

    allrows = list(range(n))

    # ---- attachment of the repeated measures
    loc = A(st["model"])
    ykey = "nll_attach_y_ind" if joint else "nll_attach_ind"
    with np.errstate(all="ignore"):
        if noise == "bernoulli":
            ent, etol, bkl = ref_bernoulli(np.where(m, y, 0.0), loc)
            hard = m & (bkl == "sat-disagree")  # exact value +inf (or >= 16.6): only a lower bound is demanded
            ent = np.where(hard, 0.0, ent)
            n_hard = hard.sum(axis=(1, 2))
            out.saturated = int((m & (bkl != "regular")).sum())
        else:
            sd = np.broadcast_to(A(st["noise_std"]), (dim,))
            ent, etol = ref_normal(np.where(m, y, 0.0), loc, sd)
            n_hard = np.zeros(n, int)
    ref_y = np.where(m, ent, 0.0).sum(axis=(1, 2))
    tol_y = np.where(m, etol, 0.0).sum(axis=(1, 2)) + ATOL
    v = read(ykey)
    if v is not None:
        site = f"state[{ykey}]"
        if tuple(v.shape) != (n,):
            out.bad(f"{site}|shape|{tag}", f"shape {tuple(v.shape)} for {n} individuals", None)
        else:
            _compare(out, site, tag, A(v), ref_y, tol_y, allrows, n_hard == 0,
                     "differs from the sum of -logpdf/-logpmf over the individual's observed entries")
            o = A(v)
            # individuals having k entries whose outcome contradicts a saturated probability (exact term +inf, clamped
            # implementation 15.94 each): never NaN / -inf, and at least the other entries' sum + 15 k
            for i in np.flatnonzero(n_hard > 0):
                if not (o[i] >= ref_y[i] + SAT_DISAGREE_MIN * n_hard[i] - tol_y[i]):
                    out.bad(f"{site}|saturated probability, other outcome: NaN or below -log(eps32) per such entry|{tag}",
                            f"{site}: individual {i} observed {o[i]!r}; {int(n_hard[i])} entries contradict a saturated probability, "
                            f"the other entries sum to {ref_y[i]!r}", i, f">= {ref_y[i] + SAT_DISAGREE_MIN * n_hard[i]:.6g}", _j(o[i]))
            out.example = {"individual": 0, "row": rows[0], "model(read from state)": loc[0][m[0]].tolist(), f"state[{ykey}]": _j(o[0]),
                           "reference": _j(ref_y[0])}
            locr, sds, ol = np.round(loc, 6), ("" if noise == "bernoulli" else str(sd.tolist())), o.tolist()
            loce = [[repr(q) for q in loc[i][m[i]]] for i in range(n)] if noise == "bernoulli" else None  # keep 1e-25 apart from 0
            for i in range(n):
                out.keys.append(_h("SY", tag, dts, y[i][m[i]].tolist(), loce[i] if loce else locr[i][m[i]].tolist(), sds))
                out.outcomes.append(f"state:{noise}:{_cls(ol[i])}" + (f":{int(n_hard[i])} contradicted saturated entries" if n_hard[i] else ""))

    # ---- events
    ref_e = None
    if joint:
        t = ds.event_time.numpy()  # (n, ne) float64
        mine = np.array([[r["event"][0]] * ne for r in rows])
        assert np.abs(t - mine).max() < 1e-9, "dataset event times differ from the rows given"
        observed = np.array([[r["event"][1] == e + 1 for e in range(ne)] for r in rows])
        nln, lrho = A(st["n_log_nu"]), A(st["log_rho"])
        nu, rho = np.exp(-nln), np.exp(lrho)
        xi, tau = A(st["xi"]), A(st["tau"])
        shift = np.zeros((n, ne))
        with_sources = model.has_observation_model_with_name("weibull-right-censored-with-sources")
        if with_sources:
            shift = A(st["sources"]) @ A(st["zeta"])
        for name, refv in (("nu", nu), ("rho", rho)) + ((("survival_shifts", shift),) if with_sources else ()):
            vv = read(name)
            if vv is not None:
                _compare(out, f"state[{name}]", tag, A(vv), refv, 1e-5 * np.abs(refv) + 1e-6, [None] * refv.size, None,
                         "differs from its documented definition")
        ent, etol, klass, d = ref_weibull(t, observed, nu, rho, xi, tau, shift)
        v = read("nll_attach_event_ind")
        if v is not None:
            site = "state[nll_attach_event_ind]"
            if tuple(v.shape) != (n,):
                out.bad(f"{site}|shape|{tag}", f"shape {tuple(v.shape)} for {n} individuals", None)
            else:
                # an individual's term is the sum over the competing events; class of the sum:
                kl = np.full(n, "regular", dtype=object)
                kl[(klass == "zero").all(axis=1)] = "zero"
                kl[(klass == "boundary").any(axis=1)] = "boundary"
                kl[(klass == "penalty").any(axis=1)] = "penalty"
                with np.errstate(all="ignore"):
                    ref_e = np.where(np.isin(kl, ["regular", "zero"]), np.where(klass == "zero", 0.0, ent).sum(axis=1), ent.sum(axis=1))
                tol_e = etol.sum(axis=1)
                obs = A(v)
                judge_weibull(out, site, obs, ref_e, tol_e, kl, allrows,
                              lambda: [_wfeat(observed[i].any(), d[i, 0]) + "," + tag for i in range(n)])
                ex = [i for i in range(n) if kl[i] == "regular" and observed[i].any()] or [0]
                out.example = {"individual": ex[0], "row": rows[ex[0]], "nu": nu.tolist(), "rho": rho.tolist(), "shift": shift[ex[0]].tolist(),
                               "state[nll_attach_event_ind]": _j(obs[ex[0]]), "reference(weibull_min)": _j(ref_e[ex[0]]), "class": str(kl[ex[0]])}
                pop, xl, tl, sl, tt, ol, obl = f"{nu.tolist()}{rho.tolist()}", xi.reshape(-1).tolist(), tau.reshape(-1).tolist(), shift.tolist(), \
                    t[:, 0].tolist(), observed.tolist(), obs.tolist()
                for i in range(n):
                    out.outcomes.append(f"state:weibull:{kl[i]}:{_cls(obl[i])}")
                    if kl[i] != "zero":
                        out.keys.append(_h("SW", tag, dts, pop, xl[i], tl[i], sl[i], tt[i], ol[i]))
                va = read("nll_attach_ind")
                if va is not None and np.isfinite(obs).all():
                    oy = A(st[ykey])
                    tot = A(va)
                    pen = kl == "penalty"
                    ok = np.where(pen | (obs >= PENALTY_MIN), np.isfinite(tot) & (tot >= PENALTY_MIN),
                                  np.abs(tot - (oy + obs)) <= RTOL * (np.abs(oy) + np.abs(obs)) + ATOL)
                    for i in np.flatnonzero(~ok):
                        out.bad(f"state[nll_attach_ind]|is not the sum of the repeated-measure and event terms|{tag}",
                                f"individual {i}: {tot[i]!r} vs {oy[i]!r} + {obs[i]!r}", i, _j(oy[i] + obs[i]), _j(tot[i]))

    # ---- regularity of the latent variables (Gaussian priors)
    ind_terms = np.zeros(n)
    ind_tol = np.zeros(n)
    ind_ok = True
    for var in model.individual_variables_names:
        lo, sc = PRIORS[var]
        ent, etol = ref_normal(A(st[var]), A(st[lo]), A(st[sc]))
        r_i, t_i = ent.reshape(n, -1).sum(axis=1), etol.reshape(n, -1).sum(axis=1)
        ind_terms += r_i
        ind_tol += t_i
        v = read(f"nll_regul_{var}_ind")
        if v is None:
            ind_ok = False
            continue
        site = f"state[nll_regul_{var}_ind]"
        if tuple(v.shape) != (n,):
            out.bad(f"{site}|shape|{tag}", f"shape {tuple(v.shape)} for {n} individuals", None)
            ind_ok = False
            continue
        _compare(out, site, tag, A(v), r_i, t_i, allrows, None, "differs from -scipy.stats.norm.logpdf under the documented prior")
        vals, o = A(st[var]).reshape(n, -1).tolist(), A(v).tolist()
        prior = f"{A(st[lo]).tolist()}{A(st[sc]).tolist()}"
        for i in range(n):
            out.keys.append(_h("SR", var, dts, vals[i], prior))
            out.outcomes.append(f"state:prior:{_cls(o[i])}")
    v = read("nll_regul_ind_sum_ind")
    if v is not None and ind_ok:
        _compare(out, "state[nll_regul_ind_sum_ind]", tag, A(v), ind_terms, ind_tol, allrows, None,
                 "differs from the sum of the individual prior terms")
    for var in model.population_variables_names:
        lo, sc = PRIORS[var]
        ent, etol = ref_normal(A(st[var]), A(st[lo]), A(st[sc]))
        v = read(f"nll_regul_{var}")
        if v is None:
            continue
        site = f"state[nll_regul_{var}]"
        if tuple(v.shape) != ():
            out.bad(f"{site}|shape|{tag}", f"shape {tuple(v.shape)}, expected a scalar", None)
            continue
        _compare(out, site, tag, A(v), ent.sum(), etol.sum(), [None], None, "differs from -scipy.stats.norm.logpdf under the documented prior")
        out.keys.append(_h("SP", var, A(st[var]).tolist(), A(st[lo]).tolist(), A(st[sc]).tolist()))
        out.outcomes.append(f"state:prior:{_cls(float(A(v)))}")
    return out


def _slice_state(case, row):
    c = copy.deepcopy(case)
    if case.get("cohort"):
        return None
    if row is None or row >= len(case["rows"]):  # a companion row or a population-level term
        c["rows"] = []
    else:
        # dataset order == row order (ids are zero padded), companions come last
        c["rows"] = [case["rows"][row]]
    c["minimised_from_row"] = row
    return c


# ------------------------------------------------------------------------------------------ case runner / explorer

def run_case(case):
    return run_family(case) if case["part"] == "family" else run_state(case)


def _minimise(case, sig, row):
    if case["part"] == "family":
        if row is None or not case["rowaxes"] or row == ():
            return case
        small = _slice_family(case, row)
    else:
        small = _slice_state(case, row)
        if small is None:
            return case
    try:
        if any(v[0] == sig for v in run_case(small).viol):
            return small
    except Exception:
        pass
    return case


def explore(case, acc):
    out = run_case(case)
    acc.evaluation()
    for k in out.keys:
        acc.nontriv(k)
    for o in out.outcomes:
        acc.outcome(o)
    for mg in out.margins:
        acc.count(mg)
    acc.count(f"calls:{case['part']}:{case.get('dist') or case['spec']['kind']}")
    acc.count("entries", len(out.outcomes))
    if out.saturated:
        acc.count("observed Bernoulli entries with a saturated probability (p < eps32 or p > 1 - eps32)", out.saturated)
    for sig, msg, row, exp, obs in out.viol:
        if sig in acc.violations:
            acc.violations[sig]["count"] += 1
            continue
        acc.violation(sig, msg, _minimise(case, sig, row), exp, obs)
    return out


def replay(case):
    out = run_case(case)
    seen, res = set(), []
    for sig, msg, row, exp, obs in out.viol:
        if sig not in seen:
            seen.add(sig)
            res.append({"signature": sig, "message": msg})
    return res


# ------------------------------------------------------------------------------------------ state grids

def _spec(kind, dim, ns, noise):
    return {"kind": kind, "dim": dim, "ns": ns, "noise": noise}


def state_shards(tier, seed):
    out = []
    logi = [_spec("logistic", 1, 0, "gaussian-scalar"), _spec("logistic", 2, 1, "gaussian-diagonal"),
            _spec("logistic", 2, 1, "gaussian-scalar"), _spec("logistic", 2, 1, "bernoulli")]
    jnt = [(_spec("joint", 1, 0, "gaussian-scalar"), 1), (_spec("joint", 2, 1, "gaussian-diagonal"), 1),
           (_spec("joint", 2, 1, "gaussian-diagonal"), 2), (_spec("joint", 1, 0, "gaussian-scalar"), 2)]
    if tier == "thorough":
        logi += [_spec("logistic", 3, 2, "gaussian-diagonal"), _spec("logistic", 1, 0, "bernoulli")]
        jnt += [(_spec("joint", 3, 2, "gaussian-diagonal"), 2), (_spec("joint", 2, 1, "gaussian-scalar"), 1)]
    for s in logi:
        # float64 xi / tau only arise in JointModel.put_individual_parameters (-> State.put_individual_latent_variables(df));
        # LogisticModel initialises from prior samples (float32), so the float64 variant is not reachable here
        for ind_dt in ("f32",):
            out.append({"part": "state", "name": f"{s['kind']}_d{s['dim']}_s{s['ns']}_{s['noise']}:grid:{ind_dt}", "spec": s, "ne": 1,
                        "ind_dt": ind_dt, "data": "grid"})
        out.append({"part": "state", "name": f"{s['kind']}_d{s['dim']}_s{s['ns']}_{s['noise']}:catalogue", "spec": s, "ne": 1,
                    "ind_dt": "f32", "data": "catalogue"})
    for s, ne in jnt:
        for ind_dt in ("f32", "f64"):
            out.append({"part": "state", "name": f"joint_d{s['dim']}_s{s['ns']}_{s['noise']}_e{ne}:grid:{ind_dt}", "spec": s, "ne": ne,
                        "ind_dt": ind_dt, "data": "grid"})
        if ne == 1:
            out.append({"part": "state", "name": f"joint_d{s['dim']}_s{s['ns']}_{s['noise']}_e1:catalogue", "spec": s, "ne": 1,
                        "ind_dt": "f32", "data": "catalogue"})
    for o in out:
        o["tier"], o["seed"] = tier, seed
    return out


def _param_sets(spec, ne, a, tier, reduced=False):
    """Ordered assignments [name, value] of parameters and population latent variables (full product of small alphabets)."""
    md = model_dict(spec)["parameters"]
    dim, ns, noise = spec["dim"], spec.get("ns", 0), spec["noise"]
    joint = spec["kind"] == "joint"
    if noise == "gaussian-diagonal":
        noises = [list(p) + [a["scale"][0]] * (dim - 2) for p in itertools.product(a["scale"], repeat=2)] if not joint else [[s] * dim for s in a["scale"][:2]]
    elif noise == "gaussian-scalar":
        noises = [[s] for s in (a["scale"] if not joint else a["scale"][:2])]
    else:
        noises = [None]
    priors = list(itertools.product([md["tau_mean"][0], 60.5], [md["tau_std"][0], 0.5], [md["xi_std"][0], 0.05])) if not joint else \
        [(md["tau_mean"][0], md["tau_std"][0], md["xi_std"][0]), (60.5, 0.5, 0.05)]
    priors.append((md["tau_mean"][0], 0.002, 0.001))  # very tight priors (scales below 3e-3)
    offsets = [0.0, 0.5, -2.0, 70.0] if not joint else [0.0, -2.0]
    if reduced:  # catalogue cohorts: the latent grid is rotated over the individuals instead
        priors, offsets = [priors[0], priors[-1]], offsets[:2]
    std = 0.01  # documented scale of the population priors

    def pop(name, mean, o):
        m = np.asarray(mean, dtype=float)
        sign = np.where(np.arange(m.size).reshape(m.shape) % 2 == 0, 1.0, -1.0)
        return [[f"{name}_mean", m.tolist()], [name, (m + o * std * sign).tolist()]]

    if joint:
        nrs = list(itertools.product(itertools.product(a["nu"], a["rho"]), repeat=ne))
        zetas = [[[1.0 if e == 0 else -0.5 for e in range(ne)]] + [[0.5] * ne] * (ns - 1)] if ns else [None]
        if tier == "thorough" and ns:
            zetas.append([[-0.5 if e == 0 else 1.0 for e in range(ne)]] + [[-1.0] * ne] * (ns - 1))
    else:
        nrs, zetas = [None], [None]
    if joint and ne > 1:
        # the event term does not depend on (noise, priors, offsets): these axes are cycled along the (nu, rho)^ne product
        side = list(itertools.product(noises, priors, offsets))
        combos = [side[i % len(side)] + (nr, zeta) for i, (nr, zeta) in enumerate(itertools.product(nrs, zetas))]
    else:
        combos = itertools.product(noises, priors, offsets, nrs, zetas)
    for nz, (tm, ts, xs), o, nr, zeta in combos:
        s = []
        if nz is not None:
            s.append(["noise_std", nz])
        s += [["tau_mean", [tm]], ["tau_std", [ts]], ["xi_std", [xs]]]
        s += pop("log_g", md["log_g_mean"], o) + pop("log_v0", md["log_v0_mean"], o)
        if ns:
            s += pop("betas", md["betas_mean"], o)
        if joint:
            nln = [-math.log(p[0]) for p in nr]
            lrho = [math.log(p[1]) for p in nr]
            s += [["n_log_nu_mean", [v - o * std for v in nln]], ["n_log_nu", nln],
                  ["log_rho_mean", [v + o * std for v in lrho]], ["log_rho", lrho]]
            if zeta is not None:
                s += [["zeta_mean", (np.asarray(zeta) - o * std).tolist()], ["zeta", zeta]]
        yield s


def _grid_rows(spec, ne, ind_dt, a):
    dim, ns, noise = spec["dim"], spec.get("ns", 0), spec["noise"]
    joint = spec["kind"] == "joint"
    srcs = list(itertools.product(a["shift"], repeat=ns)) if ns else [()]
    rows = []
    if joint:
        for wr, src in itertools.product(weibull_rows(a, ne, False, ind_dt), srcs):
            rows.append({"xi": wr["xi"], "tau": wr["tau"], "sources": list(src), "visits": [[5.0, [0.5] * dim]],
                         "event": [wr["t"], wr["code"]]})
        return rows
    if noise == "bernoulli":
        ys, ages = [0.0, 1.0], [[62.0], [58.0, 66.0, 75.0]]
    else:
        ys, ages = a["x"], [[65.0], [62.0, 75.0]]
    for (yi, y0), xi, tau, src, ag in itertools.product(enumerate(ys), a["xi"], a["tau"], srcs, ages):
        visits = []
        for j, age in enumerate(ag):
            vals = [ys[(yi + j + k) % len(ys)] for k in range(dim)]
            if len(ag) > 1 and dim > 1 and j == 1:
                vals[-1] = None  # a missing entry at a real visit
            visits.append([age, vals])
        rows.append({"xi": xi, "tau": tau, "sources": list(src), "visits": visits})
    if noise == "bernoulli":
        # saturated model states: a fast progressor seen very early (float32 curve exactly 0 or ~1e-25) and very late
        # (exactly 1.0), with outcomes agreeing / disagreeing with the saturated probability in every combination
        for xi, tau, early, late in itertools.product([1.5, 3.0], a["tau"], [0.0, 1.0], [0.0, 1.0]):
            rows.append({"xi": xi, "tau": tau, "sources": list(srcs[0]),
                         "visits": [[1.0, [abs(early - (k % 2)) for k in range(dim)]], [140.0, [abs(late - (k % 2)) for k in range(dim)]]]})
            rows.append({"xi": xi, "tau": tau, "sources": list(srcs[0]), "visits": [[140.0 if late else 1.0, [early] * dim]]})
    return rows


def state_cases(shard):
    spec, ne, ind_dt = shard["spec"], shard["ne"], shard["ind_dt"]
    a = alphabets(shard["tier"], shard["seed"])
    base = {"part": "state", "spec": spec, "ne": ne, "ind_dt": ind_dt}
    if shard["data"] == "grid":
        rows = _grid_rows(spec, ne, ind_dt, a)
        for s in _param_sets(spec, ne, a, shard["tier"]):
            yield dict(base, set=s, rows=rows)
    else:
        ids = ["a", "b", "c", "d", "e"]
        ns = spec.get("ns", 0)
        lat = [{"xi": xi, "tau": tau, "sources": list(src)} for xi, tau, src in
               itertools.product(a["xi"], a["tau"], itertools.product(a["shift"], repeat=ns) if ns else [()])]
        psets = list(_param_sets(spec, ne, a, shard["tier"], reduced=True))
        for rot in range(len(lat)):
            latents = [lat[(rot + 5 * j) % len(lat)] for j in range(len(ids))]
            rows = catalogue_rows(ids, spec, latents)
            for s in psets:
                yield dict(base, set=s, rows=rows, cohort=ids)


# ------------------------------------------------------------------------------------------ shards

def shards(tier, seed):
    out = []
    for dts in NORMAL_DTYPES[tier]:
        out.append({"part": "family", "dist": "normal", "dts": dts, "tier": tier, "seed": seed})
    out.append({"part": "family", "dist": "bernoulli", "tier": tier, "seed": seed})
    for sources, ne, ind_dt in itertools.product((False, True), (1, 2), ("f32", "f64")):
        out.append({"part": "family", "dist": "weibull", "sources": sources, "ne": ne, "ind_dt": ind_dt, "tier": tier, "seed": seed})
    out += state_shards(tier, seed)

    def rank(s):  # simplest first; the first four also give the written-out samples of the evidence file
        if s.get("dist") == "bernoulli":
            return 0
        if s.get("dist") == "weibull" and s["ne"] == 1 and s["ind_dt"] == "f32":
            return 1 if s["sources"] else 2
        if s.get("name") == "joint_d1_s0_gaussian-scalar_e1:grid:f32":
            return 3
        return 4 if s["part"] == "family" else 5

    out.sort(key=rank)
    return out


def shard_cases(shard):
    a = alphabets(shard["tier"], shard["seed"])
    if shard["part"] == "state":
        yield from state_cases(shard)
    elif shard["dist"] == "normal":
        for layout, func in NORMAL_LAYOUTS.items():
            for f in (func, "nll_and_jacobian", "nll_jacobian"):
                yield from normal_cases(layout, f, shard["dts"], a)
    elif shard["dist"] == "bernoulli":
        yield from bernoulli_cases(a)
    else:
        yield from weibull_cases(a, shard["ne"], shard["sources"], shard["ind_dt"])


def run_shard(shard):
    acc = Acc()
    first = True
    for case in shard_cases(shard):
        out = explore(case, acc)
        if first:
            first = False
            acc.sample({"shard": {k: v for k, v in shard.items() if k not in ("tier", "seed")},
                        "first_case": _brief_case(case), "entries": len(out.outcomes), "example_entry": out.example})
    return acc.to_dict()


def _brief_case(case):
    c = {k: v for k, v in case.items() if k not in ("x", "weight", "par", "rows")}
    if case["part"] == "family":
        c["x_head"] = np.asarray(case["x"], dtype=float).reshape(-1)[:4].tolist()
        c["par_head"] = {k: np.asarray(v, dtype=float).reshape(-1)[:3].tolist() for k, v in case["par"].items()}
    else:
        c["n_rows"] = len(case["rows"])
        c["row0"] = case["rows"][0] if case["rows"] else None
    return c


def self_check():
    """The oracle on hand-computed points (harness error if the reference itself is off)."""
    r, _ = ref_normal(np.array(0.0), np.array(0.0), np.array(1.0))
    assert abs(float(r) - 0.5 * math.log(2 * math.pi)) < 1e-12
    r, _, k, _ = ref_weibull(np.array([3.0, 3.0, 1.0, 1.0]), np.array([True, False, True, False]), 2.0, 1.5, 0.0, 2.0, 0.0)
    h = math.log(1.5 / 2.0) + 0.5 * math.log(0.5)
    assert abs(r[0] - (0.5**1.5 - h)) < 1e-12 and abs(r[1] - 0.5**1.5) < 1e-12 and list(k) == ["regular", "regular", "penalty", "zero"]

"""C18 -- simulation honours the requested design.

E-GRID.  Every case = (logistic model, requested feature list, visit design, seed) is run through the public entry point
``model.simulate(algorithm="simulate", seed=..., features=..., visit_parameters=...)`` and observed at
``Result.data`` / ``Result.individual_parameters``.

*Validity* of a design is decided by ``documented_validity`` -- a plain-Python transcription of the DOCUMENTED
requirements (class docstring of ``SimulationAlgorithm``, docstrings / messages of ``_check_features``,
``_check_params``, ``_validate_algo_parameters``, docs/algorithms.md "Simulate"), never by running leaspy.

* invalid design  => ``LeaspyAlgoInputError`` and nothing generated: the recording wrappers around ``numpy.random.*``,
  ``scipy.stats.beta.rvs`` (as bound in the simulate module) and ``torch.randn/rand/normal`` saw zero draws and the global
  numpy / torch generator states are either untouched or exactly the freshly seeded ones.
* valid design    => runs to completion (bounded by a budget on the number of normal draws -- deterministic -- and by a
  wall-clock alarm) and yields: exactly the requested number of individuals / exactly the individuals of the table;
  strictly increasing (hence unique) finite ages per individual; ages rounded to the documented precision (table:
  exactly the distinct rounded ages of the table; random: exactly the distinct rounded generated ages, which are read
  from the recorded arguments of the noise draw); a finite value in [0, 1] for every requested feature at every visit;
  exactly one finite set of individual parameters (xi, tau, sources) per simulated individual, labelled by its
  identifier; the noise-free mean handed to the noise draw for the column named f of individual i is the model's
  trajectory of feature f for the parameters REPORTED for i (alignment of the report, labelling of the columns); the
  value kept for a rounded age is the draw of the first generated visit rounding to it ("the second visit is removed").

Randomness is never scripted: the public ``seed`` is the only control, wrappers only count / record.
"""

from __future__ import annotations

import contextlib
import copy
import functools
import io
import itertools
import math
import re
import warnings

import numpy as np
import pandas as pd
import torch

import leaspy.models  # noqa: F401  (before any leaspy.variables import)
from leaspy.exceptions import LeaspyAlgoInputError
from leaspy.io.data import Data
from leaspy.models import BaseModel, LogisticModel

from .. import c09_ref
from ..core import Acc, CaseTimeout, digest, time_limit
from ..models import cohort_frame, model_dict

ID = "C18"
LEVEL = "exploration"
RULE = (
    "complete enumeration of the listed grids: (model) x (feature list) x (random design = product of the parameter "
    "alphabets | table design = every table with <= R rows over the identifier / age alphabets x identifier type, plus a "
    "hand-written catalogue | invalid design = every listed single violation of a documented requirement) x seed; a case "
    "is distinct by (model, features, design, seed) and NON-TRIVIAL when it is an invalid design (refusal + nothing-generated "
    "oracles apply) or a valid design that completes with >= 2 individuals or >= 2 visits for some individual (the "
    "individual / ordering / rounding / alignment oracles have something to decide)"
)
ASSUMPTIONS = [
    "logistic models only: 1-3 features, 0-2 sources, diagonal / scalar Gaussian noise, parameters from the hand-written "
    "catalogue (noise_std catalogue / 0.001 / 0.6) or from a 4-iteration fit of the 5-individual catalogue cohort",
    "requested features: the model's list, the reversed list, a strict subset (docs/algorithms.md: 'the name of the outcomes to simulate')",
    "a non-positive distance_visit_mean with a positive distance_visit_std has an open status (the parameter is documented as 'mean interval "
    "between two visits', the refusal message says 'need to be positive', the validation only refuses 'both <= 0'): a documented refusal "
    "before anything is generated and a completed run are both accepted, anything else is a violation",
    "validity = documented requirements only (types, presence, patient_number > 0, std >= 0, min spacing >= 0, not both "
    "distance mean and std <= 0, table with ID and TIME columns and no missing age); NaN / inf / bool parameter values, empty tables "
    "and unknown feature names are outside the alphabets (their status is not documented)",
    "documented rounding precision: number of decimals d of the largest of {1, 0.1, 0.01, 0.001} that is <= min_spacing_between_visits "
    "(default 1/365 => 3; table designs always use the default); for a spacing below 0.001 no precision is documented: only uniqueness / "
    "increase are required there",
    "table ages are not within 1e-9 of a rounding tie",
    "'runs to completion' is decided by a budget of 5000 numpy normal draws per case (the largest valid grid design needs < 150) and a "
    "20 s alarm; a driftless visit walk (distance mean 0, std > 0) that happens to end within the budget counts as completed",
    "the generated (unrounded) ages and the noise-free means are read from the recorded arguments of scipy.stats.beta.rvs as called by "
    "the simulate module (one call per feature, pandas Series indexed by (ID, TIME)); when the calls do not have that form the three "
    "oracles relying on them are skipped (counter mu_oracle_skipped)",
    "PYTHONHASHSEED=0, single thread; seeds {0, 1, VERIF_SEED}",
]

DRAW_BUDGET = 5000
WALL_LIMIT = 20.0
IDS5 = ["a", "b", "c", "d", "e"]

BASE_MODEL = {"dim": 2, "ns": 1, "noise": "gaussian-diagonal", "src": "loaded", "level": "catalogue"}
BASE_RANDOM = {
    "visit_type": "random",
    "patient_number": 2,
    "first_visit_mean": 0.0,
    "first_visit_std": 0.4,
    "time_follow_up_mean": 3,
    "time_follow_up_std": 0.5,
    "distance_visit_mean": 0.5,
    "distance_visit_std": 0.2,
}
BASE_TABLE = {"ids": [0, 0, 1], "times": [70.0, 71.0, 72.0], "id_type": "str"}
RANDOM_KEYS = list(BASE_RANDOM)[1:]
ID_NAMES = {
    "str": ["p2", "p10", "q"],  # lexicographic order != slot order
    "numstr": ["2", "10", "1"],
    "int": [2, 10, 1],
}
ROUNDING_TABLE = {0: 1, 1: 0.1, 2: 0.01, 3: 0.001}  # decimals -> documented smallest spacing (comments of the rounding table)


class DrawBudgetExceeded(BaseException):
    """Raised by the counting wrapper (BaseException: must not be swallowed by the implementation)."""


# ------------------------------------------------------------------------------------------------
# models


def _model_key(m):
    return (int(m["dim"]), int(m["ns"]), m["noise"], m["src"], m.get("level", "catalogue"), m.get("kind", "logistic"))


# model kinds the simulation documents as refused ("The model type should be 'logistic'"): every shipped kind that can be
# built from hand-written parameters; the joint model is a *subclass* of the logistic one
OTHER_KINDS = ("linear", "shared_speed_logistic", "joint", "mixture_logistic")


@functools.lru_cache(maxsize=None)
def _master_model(key):
    dim, ns, noise, src, level, kind = key
    if kind != "logistic":
        from ..models import build_model

        return build_model({"kind": kind, "dim": dim, "ns": ns, "noise": noise, "variant": 0})
    if src == "loaded":
        d = model_dict({"kind": "logistic", "dim": dim, "ns": ns, "noise": noise, "variant": 0})
        if level != "catalogue":
            v = {"small": 0.001, "large": 0.6}[level]
            d["parameters"]["noise_std"] = [v] * len(d["parameters"]["noise_std"])
        return BaseModel.load(copy.deepcopy(d))
    if src == "fitted":
        model = LogisticModel("logistic", source_dimension=ns, obs_models=noise, dimension=dim)
        with contextlib.redirect_stdout(io.StringIO()):
            model.fit(Data.from_dataframe(cohort_frame(IDS5, dim)), "mcmc_saem", seed=0, n_iter=4, progress_bar=False)
        return model
    raise ValueError(src)


def get_model(mspec):
    """A private copy (the cached master is never handed to the implementation)."""
    return copy.deepcopy(_master_model(_model_key(mspec)))


# ------------------------------------------------------------------------------------------------
# case -> python objects


def dec(v):
    if isinstance(v, str) and v.startswith("@"):
        return {"@nan": float("nan"), "@inf": float("inf"), "@list": [1], "@dict": {"a": 1}}[v]
    return v


def make_table(t):
    id_type = t.get("id_type", "str")
    names = ID_NAMES["str" if id_type.startswith("cat") else id_type]
    ids = [names[i] if isinstance(i, int) and not isinstance(i, bool) else i for i in t["ids"]]
    if id_type.startswith("cat"):
        # identifiers held as a pandas categorical (a cohort table filtered to a subset keeps the categories it no longer uses)
        used = list(dict.fromkeys(ids))
        cats = used + (["zz-not-in-the-table", "aa-not-in-the-table"] if id_type == "cat_unused" else [])
        ids = pd.Categorical(ids, categories=cats)
    times = [dec(x) for x in t["times"]]
    cols = t.get("cols", ["ID", "TIME"])
    data = {}
    if cols[0] is not None:
        data[cols[0]] = ids
    if cols[1] is not None:
        data[cols[1]] = times
    if t.get("extra"):
        data["VISIT_NAME"] = [f"v{k}" for k in range(len(ids))]
    form = t.get("as", "frame")
    if form == "frame":
        df = pd.DataFrame(data)
        if t.get("int_times"):
            df["TIME"] = df["TIME"].astype(int)
        return df
    if form == "dict":
        return data
    if form == "records":
        return [list(r) for r in zip(ids, times)]
    if form == "none":
        return None
    raise ValueError(form)


def materialize(case, model):
    f = case["features"]
    feats_model = list(model.features)
    if f == "all":
        feats = list(feats_model)
    elif f == "reordered":
        feats = list(reversed(feats_model))
    elif f == "subset":
        feats = feats_model[:-1]
    elif f == "subset_last":
        feats = feats_model[1:]
    elif isinstance(f, dict) and "tuple" in f:
        feats = tuple(f["tuple"])
    elif isinstance(f, dict) and "raw" in f:
        feats = copy.deepcopy(f["raw"])
    else:
        raise ValueError(f"features spec {f!r}")
    v = case["visit"]
    if isinstance(v, dict):
        vp = {}
        for k, x in v.items():
            if k == "table":
                vp["df_visits"] = make_table(x)
            else:
                vp[k] = dec(x)
    else:
        vp = dec(v)
    return feats, vp


# ------------------------------------------------------------------------------------------------
# the documented requirements, in plain Python


def _is_num(x):
    return isinstance(x, (int, float)) and not isinstance(x, bool)


def documented_validity(feats, vp):
    """(True, None), (False, kind of violated requirement) or (None, reason) when the documentation leaves the status open
    (then a refusal with the documented error before anything is generated AND a run to completion are both acceptable)."""
    if not isinstance(feats, list):
        return False, "features not a list"
    if len(feats) == 0:
        return False, "empty feature list"
    for f in feats:
        if not isinstance(f, str):
            return False, "feature that is not a string"
        if not f.strip():
            return False, "blank feature name"
    if not isinstance(vp, dict):
        return False, "visit_parameters not a dictionary"
    if "visit_type" not in vp:
        return False, "missing key visit_type"
    vt = vp["visit_type"]
    if vt not in ("dataframe", "random"):
        return False, "unknown visit_type"
    if vt == "random":
        for k in RANDOM_KEYS:
            if k not in vp:
                return False, "missing key"
        for k in RANDOM_KEYS + (["min_spacing_between_visits"] if "min_spacing_between_visits" in vp else []):
            x = vp[k]
            if k == "patient_number":
                if not (isinstance(x, int) and not isinstance(x, bool)):
                    return False, "value of another type than documented"
            elif not _is_num(x):
                return False, "value of another type than documented"
        if vp["patient_number"] <= 0:
            return False, "patient_number <= 0"
        for k in RANDOM_KEYS:
            if k.endswith("_std") and vp[k] < 0:
                return False, "negative standard deviation"
        if "min_spacing_between_visits" in vp and vp["min_spacing_between_visits"] < 0:
            return False, "negative min_spacing_between_visits"
        if vp["distance_visit_mean"] <= 0 and vp["distance_visit_std"] <= 0:
            return False, "distance_visit_mean and distance_visit_std both <= 0"
        if vp["distance_visit_mean"] <= 0:
            # 'Mean interval between two visits' / message '... need to be positive': a non-positive mean with a positive std is
            # neither clearly allowed nor clearly forbidden by the documentation => a documented refusal and a completed run are both fine
            return None, "distance_visit_mean <= 0 with distance_visit_std > 0"
        return True, None
    if "df_visits" not in vp:
        return False, "missing key"
    df = vp["df_visits"]
    if not isinstance(df, pd.DataFrame):
        return False, "df_visits not a DataFrame"
    if "ID" not in df.columns or "TIME" not in df.columns:
        return False, "table without ID / TIME column"
    if df["TIME"].isnull().any():
        return False, "missing age in the table"
    return True, None


def documented_precision(vp):
    spacing = vp.get("min_spacing_between_visits", 1 / 365) if vp.get("visit_type") == "random" else 1 / 365
    for decimals in sorted(ROUNDING_TABLE):
        if ROUNDING_TABLE[decimals] <= spacing:
            return decimals
    return None


# ------------------------------------------------------------------------------------------------
# recording wrappers


class Recorder:
    def __init__(self, budget=DRAW_BUDGET):
        self.budget = budget
        self.calls = {}
        self.beta_calls = []
        self._saved = []

    @property
    def n_draw_calls(self):
        return sum(self.calls.values())

    def _count(self, name):
        self.calls[name] = self.calls.get(name, 0) + 1
        if name.startswith("numpy.") and sum(v for k, v in self.calls.items() if k.startswith("numpy.")) > self.budget:
            raise DrawBudgetExceeded(name)

    def _wrap(self, holder, attr, name):
        orig = getattr(holder, attr)

        def wrapper(*a, **k):
            self._count(name)
            return orig(*a, **k)

        self._saved.append((holder, attr, orig))
        setattr(holder, attr, wrapper)

    @contextlib.contextmanager
    def installed(self):
        import leaspy.algo.simulate.simulate as sim_mod

        rs = np.random.mtrand._rand
        for attr in np.random.__all__:
            fn = getattr(np.random, attr, None)
            if getattr(fn, "__self__", None) is rs and attr not in ("seed", "get_state", "set_state"):
                self._wrap(np.random, attr, f"numpy.{attr}")
        for attr in ("randn", "rand", "normal", "randint", "randn_like", "rand_like", "bernoulli", "multinomial"):
            self._wrap(torch, attr, f"torch.{attr}")
        rec = self
        real_beta = sim_mod.beta

        class BetaProxy:
            def rvs(self, *a, **k):
                rec._count("scipy.beta.rvs")
                out = real_beta.rvs(*a, **k)
                rec.beta_calls.append((a, k, out))
                return out

            def __getattr__(self, n):
                return getattr(real_beta, n)

        sim_mod.beta = BetaProxy()
        try:
            yield self
        finally:
            sim_mod.beta = real_beta
            for holder, attr, orig in reversed(self._saved):
                setattr(holder, attr, orig)
            self._saved.clear()


def _np_state():
    s = np.random.get_state()
    return (s[0], s[1].tobytes(), s[2], s[3], s[4])


def _seeded_np_state(seed):
    s = np.random.RandomState(seed).get_state()
    return (s[0], s[1].tobytes(), s[2], s[3], s[4])


def _seeded_torch_state(seed):
    g = torch.Generator()
    g.manual_seed(seed)
    return g.get_state()


# ------------------------------------------------------------------------------------------------
# one execution


def execute(case):
    """Run the implementation once.  Returns a dict: valid, why, kind in {completed, raise, noterm}, exc, result, recorder ..."""
    model = get_model(case["model"])
    feats, vp = materialize(case, model)
    valid, why = documented_validity(feats, vp)
    if type(model).__name__ != "LogisticModel":
        # documented requirement on the model itself ("the model type should be 'logistic' (LogisticModel)")
        valid, why = False, "model of another kind than logistic"
    seed = case["seed"]
    rec = Recorder()
    # the harness judges the result against its OWN copy of the request; the objects handed to the implementation are kept
    # to see what a second use of the very same objects gives
    vp_given, feats_given = vp, feats
    vp, feats = copy.deepcopy(vp), copy.deepcopy(feats)
    out = {"model": model, "feats": feats, "vp": vp, "valid": valid, "why": why, "rec": rec, "exc": None, "result": None,
           "in_run": False, "vp_given": vp_given, "feats_given": feats_given}
    np.random.seed(987654321)  # a known state that is not the seeded one
    torch.manual_seed(987654321)
    np_before, torch_before = _np_state(), torch.get_rng_state()
    with warnings.catch_warnings(), contextlib.redirect_stdout(io.StringIO()):
        warnings.simplefilter("ignore")
        with rec.installed():
            try:
                with time_limit(WALL_LIMIT):
                    res = model.simulate(algorithm="simulate", seed=seed, features=feats_given, visit_parameters=vp_given)
                out["kind"], out["result"] = "completed", res
            except (CaseTimeout, DrawBudgetExceeded) as e:
                out["kind"], out["exc"] = "noterm", e
            except Exception as e:  # noqa: BLE001 - exception of the implementation: classified by the caller
                out["kind"], out["exc"] = "raise", e
                tb = e.__traceback__
                while tb is not None:
                    if tb.tb_frame.f_code.co_name == "_run":
                        out["in_run"] = True
                    tb = tb.tb_next
    np_after, torch_after = _np_state(), torch.get_rng_state()
    out["rng_untouched"] = (np_after == np_before or np_after == _seeded_np_state(seed)) and (
        torch.equal(torch_after, torch_before) or torch.equal(torch_after, _seeded_torch_state(seed))
    )
    return out


def failure_kind(ex):
    if ex["kind"] == "raise":
        return "raises " + type(ex["exc"]).__name__
    if ex["kind"] == "noterm":
        return "does not run to completion"
    return None


def failure_fingerprint(ex):
    """Used only to recognise 'the same failure' while attributing it: kind + message without numbers."""
    k = failure_kind(ex)
    if ex["kind"] == "raise":
        return k + ":" + re.sub(r"[^A-Za-z ]+", "", str(ex["exc"]))[:60]
    return k


# ------------------------------------------------------------------------------------------------
# attribution of a failure of a valid design to the smallest set of model / design traits reproducing it on the baseline


def _label_features(f):
    return {
        "reordered": "feature list in another order than the model's",
        "subset": "feature list is a strict subset of the model's features",
        "subset_last": "feature list is a strict subset of the model's features",
    }.get(f, "feature list") if isinstance(f, str) else "feature list"


def _spacing_label(v):
    p = documented_precision(v)
    if p is None:
        return "min_spacing_between_visits < 0.001"
    return f"min_spacing_between_visits rounding to {p} decimals"


def baseline_of(case):
    v = case["visit"]
    if v.get("visit_type") == "random":
        visit = dict(BASE_RANDOM)
    else:
        visit = {"visit_type": "dataframe", "table": dict(BASE_TABLE)}
    return {"model": dict(BASE_MODEL), "features": "all", "visit": visit, "seed": case["seed"]}


def traits(case):
    """[(label, function copying that trait of `case` into another case)] for every deviation from the baseline."""
    out = []
    m = case["model"]

    def setter(path, keys):
        def apply(c):
            src, dst = case, c
            for k in path:
                src, dst = src[k], dst[k]
            for k in keys:
                if k in src:
                    dst[k] = copy.deepcopy(src[k])
                else:
                    dst.pop(k, None)
        return apply

    if (m["dim"], m["ns"]) != (BASE_MODEL["dim"], BASE_MODEL["ns"]):
        lab = "model without sources" if m["ns"] == 0 else f"model with {m['dim']} features and {m['ns']} sources"
        out.append((lab, setter(["model"], ["dim", "ns"])))
    if m["noise"] != BASE_MODEL["noise"]:
        out.append((f"{m['src']} model with scalar noise", setter(["model"], ["noise", "src"])))
    elif m["src"] != BASE_MODEL["src"]:
        out.append(("freshly fitted model", setter(["model"], ["src"])))
    if m.get("level", "catalogue") != "catalogue":
        out.append((f"noise_std {m['level']}", setter(["model"], ["level"])))
    if case["features"] != "all":
        out.append((_label_features(case["features"]), setter([], ["features"])))
    v = case["visit"]
    if v.get("visit_type") == "random":
        if v["patient_number"] != BASE_RANDOM["patient_number"]:
            lab = "single individual" if v["patient_number"] == 1 else "more than 2 individuals"
            out.append((lab, setter(["visit"], ["patient_number"])))
        for a, lab in (("first_visit", "first-visit parameters"), ("time_follow_up", "follow-up parameters")):
            ks = [a + "_mean", a + "_std"]
            if any(v[k] != BASE_RANDOM[k] for k in ks):
                out.append((lab, setter(["visit"], ks)))
        ks = ["distance_visit_mean", "distance_visit_std"]
        if any(v[k] != BASE_RANDOM[k] for k in ks):
            if v[ks[0]] <= 0 < v[ks[1]]:
                lab = "distance_visit_mean <= 0 with distance_visit_std > 0"
            elif v[ks[1]] == 0:
                lab = "distance_visit_std = 0"
            else:
                lab = "distance parameters"
            out.append((lab, setter(["visit"], ks)))
        if "min_spacing_between_visits" in v:
            out.append((_spacing_label(v), setter(["visit"], ["min_spacing_between_visits"])))
    else:
        t = v["table"]
        if t.get("id_type", "str") != "str":
            lab = {"int": "integer identifiers in the visit table", "numstr": "numeric-looking string identifiers",
                   "cat": "categorical identifiers in the visit table", "cat_unused": "categorical identifiers with unused categories"}[t["id_type"]]
            out.append((lab, setter(["visit", "table"], ["id_type"])))
        if t["ids"] != BASE_TABLE["ids"] or t["times"] != BASE_TABLE["times"] or t.get("extra") or t.get("int_times"):
            lab = "single individual" if len(set(map(str, t["ids"]))) == 1 else "visit table rows"
            out.append((lab, setter(["visit", "table"], ["ids", "times", "extra", "int_times"])))
    return out


MAX_ATTRIBUTION_SUBSET = 2


def attribute(case, ex, memo=None):
    """Label of the smallest (first in a fixed order) set of traits of `case` that reproduces the failure `ex` when put on the
    baseline case; all traits when no set of <= MAX_ATTRIBUTION_SUBSET traits does.  Returns (label, number of extra executions)."""
    fp = failure_fingerprint(ex)
    tr = traits(case)
    labels = [lab for lab, _ in tr]
    key = (fp, tuple(labels))
    if memo is not None and key in memo:
        return memo[key], 0
    n = 1
    found = None
    if failure_fingerprint(execute(baseline_of(case))) == fp:
        found = ["every design"]  # the baseline design on the baseline model fails in the same way
    elif len(tr) > 1:
        for size in range(1, min(MAX_ATTRIBUTION_SUBSET, len(tr) - 1) + 1):
            for sub in itertools.combinations(range(len(tr)), size):
                c = baseline_of(case)
                for i in sub:
                    tr[i][1](c)
                n += 1
                if failure_fingerprint(execute(c)) == fp:
                    found = [labels[i] for i in sub]
                    break
            if found:
                break
    if found is None:
        # no small subset: drop, one at a time, every trait the failure does not need (1-minimal set)
        keep = list(range(len(tr)))
        for i in list(keep):
            if len(keep) == 1:
                break
            trial = [j for j in keep if j != i]
            c = baseline_of(case)
            for j in trial:
                tr[j][1](c)
            n += 1
            if failure_fingerprint(execute(c)) == fp:
                keep = trial
        found = [labels[i] for i in keep] or ["every design"]
    label = " + ".join(dict.fromkeys(found))
    if memo is not None:
        memo[key] = label
    return label, n


# ------------------------------------------------------------------------------------------------
# oracles on a completed run of a valid design


def _close(a, b, tol=1e-9):
    return abs(float(a) - float(b)) <= tol


def _rounded_sets(ages, p):
    """Admissible results of 'round every age to p decimals, keep distinct values, sort': correctly rounded and numpy's."""
    a = sorted({round(float(t), p) for t in ages})
    b = sorted({float(np.round(float(t), p)) for t in ages})
    return [a] if a == b else [a, b]


def _same_ages(obs, exp):
    return len(obs) == len(exp) and all(_close(o, e) for o, e in zip(obs, exp))


def check_completed(case, ex):
    """-> (problems, info); problems = [(mismatch, message, expected, observed)]"""
    problems = []
    info = {"n_ind": 0, "max_visits": 0, "dedup": False}
    model, feats, vp, res = ex["model"], ex["feats"], ex["vp"], ex["result"]
    p = documented_precision(vp)
    table = vp["visit_type"] == "dataframe"

    data = res.data
    df = data.to_dataframe()
    ids_out = [str(i) for i in data.individuals.keys()]
    info["n_ind"] = len(ids_out)

    # -- individuals
    if len(set(ids_out)) != len(ids_out):
        problems.append(("an individual is reported twice in the data", "", None, ids_out))
    if table:
        tab = vp["df_visits"]
        exp_ids = sorted({str(i) for i in tab["ID"]})
        if sorted(ids_out) != exp_ids:
            problems.append(("individuals differ from the individuals of the visit table", "", exp_ids, sorted(ids_out)))
    elif len(ids_out) != vp["patient_number"]:
        problems.append(("number of individuals differs from patient_number", "", vp["patient_number"], len(ids_out)))

    # -- ages
    ages_out = {}
    df_ids = df["ID"].astype(str)
    for i in ids_out:
        ages_out[i] = [float(t) for t in df.loc[df_ids == i, "TIME"]]
    info["max_visits"] = max((len(a) for a in ages_out.values()), default=0)
    for i, a in ages_out.items():
        if not all(math.isfinite(t) for t in a) or len(a) == 0:
            problems.append(("individual without a finite age", f"individual {i}", None, a))
        elif any(not (x < y) for x, y in zip(a, a[1:])):
            problems.append(("ages of an individual are not strictly increasing", f"individual {i}", None, a))
        if p is not None and any(not _close(t, round(t, p)) for t in a):
            problems.append(("age not rounded to the documented precision", f"individual {i}, {p} decimals", None, a))
    if table and p is not None:
        for i in sorted(set(ids_out) & {str(x) for x in tab["ID"]}):
            src = [float(t) for t in tab.loc[tab["ID"].astype(str) == i, "TIME"]]
            exps = _rounded_sets(src, p)
            if len(exps[0]) < len(src):
                info["dedup"] = True
            if not any(_same_ages(ages_out[i], e) for e in exps):
                problems.append(("ages differ from the rounded ages of the visit table", f"individual {i}", exps[0], ages_out[i]))

    # -- values
    for f in feats:
        if f not in df.columns:
            problems.append(("requested feature missing from the simulated data", f, None, list(df.columns)))
            continue
        col = df[f].to_numpy(dtype=float)
        if not np.all(np.isfinite(col)):
            problems.append(("non-finite simulated value", f, None, col.tolist()[:8]))
        elif np.any(col < 0) or np.any(col > 1):
            problems.append(("simulated value outside [0, 1]", f, None, [float(col.min()), float(col.max())]))
    extra = [c for c in df.columns if c not in ("ID", "TIME") and c not in feats]
    if extra:
        problems.append(("simulated data has a column that was not requested", str(extra), list(feats), list(df.columns)))

    # -- reported individual parameters
    ip = res.individual_parameters
    ip_ok = isinstance(ip, pd.DataFrame)
    if not ip_ok:
        problems.append(("individual parameters are not reported as a table indexed by individual", type(ip).__name__, None, None))
    else:
        idx = [str(i) for i in ip.index]
        if len(idx) != len(set(idx)) or sorted(idx) != sorted(ids_out):
            problems.append(("reported individual parameters do not match the simulated individuals one to one", "",
                             sorted(ids_out), idx))
            ip_ok = False
        need = ["xi", "tau"] + [f"sources_{k}" for k in range(model.source_dimension)]
        miss = [c for c in need if c not in ip.columns]
        if miss:
            problems.append(("reported individual parameters lack a parameter", str(miss), need, list(ip.columns)))
            ip_ok = False
        else:
            vals = np.array([[float(ip.iloc[r][c]) for c in need] for r in range(len(ip))], dtype=float)
            if not np.all(np.isfinite(vals)):
                problems.append(("non-finite reported individual parameter", "", None, vals.tolist()[:4]))
                ip_ok = False

    # -- oracles using the recorded noise draws
    calls = ex["rec"].beta_calls
    gen = _read_beta_calls(calls, len(feats))
    if gen is None:
        info["mu_skipped"] = True
        return problems, info
    gen_ids, gen_times, mus, draws = gen
    by_id = {}
    for r, (i, t) in enumerate(zip(gen_ids, gen_times)):
        by_id.setdefault(str(i), []).append((r, float(t)))
    if sorted(by_id) != sorted(ids_out):
        problems.append(("individuals of the data differ from the individuals values were generated for", "", sorted(by_id), sorted(ids_out)))
        return problems, info
    if p is not None:
        for i, rows in by_id.items():
            exps = _rounded_sets([t for _, t in rows], p)
            if len(exps[0]) < len(rows):
                info["dedup"] = True
            if not any(_same_ages(ages_out[i], e) for e in exps):
                problems.append(("ages differ from the rounded generated ages", f"individual {i}, {p} decimals", exps[0], ages_out[i]))
                continue
            # the value kept for a rounded age is the one drawn for the first generated visit rounding to it
            first = {}
            for r, t in rows:
                first.setdefault(min(range(len(ages_out[i])), key=lambda k: abs(ages_out[i][k] - np.round(t, p))), r)
            sub = df.loc[df_ids == i]
            for fi, f in enumerate(feats):
                if f not in df.columns or list(feats).count(f) != 1:
                    continue
                obs = sub[f].to_numpy(dtype=float)
                exp = np.array([draws[fi][first[k]] for k in range(len(obs))], dtype=float)
                if not np.allclose(obs, exp, rtol=0, atol=1e-6, equal_nan=True):
                    problems.append(("kept value is not the draw of the first generated visit with that rounded age", f"individual {i}, feature {f}",
                                     exp.tolist()[:8], obs.tolist()[:8]))
                    break
    if ip_ok:
        pop = c09_ref.population("logistic", model.dimension, model.source_dimension,
                                 {k: v.detach().numpy() for k, v in model.parameters.items()})
        mfeats = list(model.features)
        for i, rows in by_id.items():
            row = ip.loc[[x for x in ip.index if str(x) == i][0]]
            src = [float(row[f"sources_{k}"]) for k in range(model.source_dimension)]
            y, tol = c09_ref.trajectory(pop, float(row["xi"]), float(row["tau"]), src, [t for _, t in rows])
            y = np.clip(y, 0.00000001, 0.9999999)
            ridx = [r for r, _ in rows]
            bad = None
            for fi, f in enumerate(feats):
                if f not in mfeats:
                    continue
                k = mfeats.index(f)
                got = mus[fi][ridx]
                if not np.all(np.abs(got - y[:, k]) <= tol[:, k] + 1e-6):
                    other = [k2 for k2 in range(len(mfeats)) if k2 != k and np.all(np.abs(got - y[:, k2]) <= tol[:, k2] + 1e-6)]
                    bad = (f, k, other, got, y[:, k])
                    break
            if bad:
                f, k, other, got, exp = bad
                if other:
                    problems.append(("column of a requested feature holds the trajectory of another feature of the model",
                                     f"column {f} holds feature {mfeats[other[0]]}", exp.tolist()[:6], got.tolist()[:6]))
                else:
                    problems.append(("noise-free value is not the model's trajectory for the individual parameters reported for that individual",
                                     f"individual {i}, feature {f}", exp.tolist()[:6], got.tolist()[:6]))
                break
    return problems, info


def _read_beta_calls(calls, n_feats):
    """(ids, times, [mu per feature], [draw per feature]) or None when the calls do not have the expected form."""
    try:
        if len(calls) != n_feats or n_feats == 0:
            return None
        mus, draws, index = [], [], None
        for a, k, out in calls:
            if len(a) != 2 or k:
                return None
            al, be = a
            if not isinstance(al, pd.Series) or not isinstance(be, pd.Series) or al.index.nlevels != 2:
                return None
            if index is None:
                index = al.index
            elif not al.index.equals(index):
                return None
            al, be = al.to_numpy(dtype=float), be.to_numpy(dtype=float)
            out = np.atleast_1d(np.asarray(out, dtype=float))  # scipy returns a scalar for a single visit
            if out.shape != al.shape:
                return None
            mus.append(al / (al + be))
            draws.append(out)
        return list(index.get_level_values(0)), [float(t) for t in index.get_level_values(1)], mus, draws
    except Exception:  # noqa: BLE001 - unreadable recording: the oracles relying on it are skipped (counted)
        return None


# ------------------------------------------------------------------------------------------------
# one case


def design_kind(case):
    v = case["visit"]
    if isinstance(v, dict) and v.get("visit_type") == "dataframe":
        return "visit table"
    return "random design"


def run_case(case, acc=None, memo=None):
    """Returns (violations, outcome, nontrivial); violations = [dict(signature, message, expected, observed)]"""
    ex = execute(case)
    if acc is not None:
        acc.evaluation()
    vio = []
    rec = ex["rec"]
    if ex["valid"] is None and ex["kind"] == "raise" and isinstance(ex["exc"], LeaspyAlgoInputError) \
            and rec.n_draw_calls == 0 and ex["rng_untouched"]:
        return vio, "open-status:refused:LeaspyAlgoInputError:nodraw", True
    if ex["valid"] is False:
        why = ex["why"]
        drew = rec.n_draw_calls > 0 or not ex["rng_untouched"]
        if ex["kind"] == "completed":
            vio.append(dict(signature=f"simulate|invalid design accepted|{why}", message=f"documented requirement violated ({why}) but the simulation ran",
                            expected="LeaspyAlgoInputError", observed="completed"))
            outcome = "invalid:accepted"
        elif ex["kind"] == "noterm":
            vio.append(dict(signature=f"simulate|invalid design accepted and does not run to completion|{why}", message=str(ex["exc"]),
                            expected="LeaspyAlgoInputError", observed="no termination"))
            outcome = "invalid:noterm"
        else:
            e = ex["exc"]
            name = type(e).__name__
            if not isinstance(e, LeaspyAlgoInputError):
                vio.append(dict(signature=f"simulate|invalid design refused with {name} instead of LeaspyAlgoInputError|{why}",
                                message=f"{name}: {str(e)[:300]}", expected="LeaspyAlgoInputError", observed=name))
            if drew:
                vio.append(dict(signature=f"simulate|invalid design refused only after random draws|{why}",
                                message=f"{name} raised after draws {rec.calls} (generator state untouched: {ex['rng_untouched']})",
                                expected="no draw", observed=rec.calls))
            outcome = f"invalid:refused:{name}:{'run' if ex['in_run'] else 'constructor'}:{'draws' if drew else 'nodraw'}"
        return vio, outcome, True

    kind = failure_kind(ex)
    if kind is not None:
        label, n_extra = attribute(case, ex, memo)
        if acc is not None:
            acc.evaluation(n_extra)
            acc.count("attribution_runs", n_extra)
        e = ex["exc"]
        vio.append(dict(signature=f"simulate|valid design {kind}|{label}", message=f"{type(e).__name__}: {str(e)[:300]}",
                        expected="runs to completion", observed=kind))
        return vio, f"valid:{kind}", False

    problems, info = check_completed(case, ex)
    if acc is not None and info.get("mu_skipped"):
        acc.count("mu_oracle_skipped")
    dk = design_kind(case)
    # the very same request objects used a second time (a loop over seeds / models): the design is as valid as before,
    # so it still runs to completion - and, same seed and same model parameters, it gives the same table
    if not problems:
        try:
            with warnings.catch_warnings(), contextlib.redirect_stdout(io.StringIO()):
                warnings.simplefilter("ignore")
                with time_limit(WALL_LIMIT):
                    res2 = get_model(case["model"]).simulate(algorithm="simulate", seed=case["seed"], features=ex["feats_given"],
                                                             visit_parameters=ex["vp_given"])
            if acc is not None:
                acc.evaluation()
            d1, d2 = ex["result"].data.to_dataframe(), res2.data.to_dataframe()
            if not (list(d1.columns) == list(d2.columns) and d1.shape == d2.shape and d1.astype(str).equals(d2.astype(str))):
                problems.append(("second run with the same request objects and seed gives another table", "first vs second", d1.head(6).to_dict("list"),
                                 d2.head(6).to_dict("list")))
        except Exception as e2:  # noqa: BLE001
            problems.append((f"valid design raises {type(e2).__name__} when the same request objects are used a second time", str(e2)[:300],
                             "runs to completion", type(e2).__name__))
    for mismatch, msg, exp, obs in problems:
        feature = dk
        if mismatch.startswith("column of a requested feature"):
            feature = _label_features(case["features"])
        vio.append(dict(signature=f"simulate|{mismatch}|{feature}", message=f"{mismatch}: {msg}", expected=exp, observed=obs))
    nontrivial = info["n_ind"] >= 2 or info["max_visits"] >= 2
    vis = "1" if info["max_visits"] <= 1 else ("2-9" if info["max_visits"] < 10 else "10+")
    outcome = f"valid:completed:{dk}:ind={min(info['n_ind'], 3)}{'+' if info['n_ind'] > 3 else ''}:visits={vis}:dedup={int(info['dedup'])}"
    return vio, outcome, nontrivial


# ------------------------------------------------------------------------------------------------
# enumeration


def _seeds(seed):
    return sorted({0, 1, int(seed)})


def M(dim=2, ns=1, noise="gaussian-diagonal", src="loaded", level="catalogue"):
    return {"dim": dim, "ns": ns, "noise": noise, "src": src, "level": level}


SC, DG = "gaussian-scalar", "gaussian-diagonal"
MODELS_ALL = [
    M(),
    M(noise=SC),
    M(ns=0),
    M(dim=3, ns=2),
    M(dim=1, ns=0, noise=SC),
    M(level="small"),
    M(level="large"),
    M(dim=3, ns=1, noise=SC),
    M(src="fitted"),
    M(src="fitted", noise=SC),
    M(src="fitted", ns=0),
    M(src="fitted", dim=3, ns=2),
]

SPACINGS = [None, 0, 0.0005, 1 / 365, 0.1, 1, 2]
FULL_GRID = dict(
    patient_number=[1, 2, 5],
    first=[(0.0, 0.4), (-2, 0)],
    follow=[(3, 0.5), (0, 0), (2, 0)],
    dist_mean=[-1, 0, 0.5, 1],
    dist_std=[0, 0.2],
    spacing=SPACINGS,
)
SMALL_GRID = dict(
    patient_number=[1, 2],
    first=[(0.0, 0.4)],
    follow=[(3, 0.5)],
    dist_mean=[-1, 0.5],
    dist_std=[0.2],
    spacing=[None, 0, 1],
)


def random_designs(grid):
    out = []
    for n, fv, fu, dm, ds, sp in itertools.product(grid["patient_number"], grid["first"], grid["follow"], grid["dist_mean"],
                                                   grid["dist_std"], grid["spacing"]):
        v = {"visit_type": "random", "patient_number": n, "first_visit_mean": fv[0], "first_visit_std": fv[1],
             "time_follow_up_mean": fu[0], "time_follow_up_std": fu[1], "distance_visit_mean": dm, "distance_visit_std": ds}
        if sp is not None:
            v["min_spacing_between_visits"] = sp
        out.append(v)
    return out


TABLE_TIMES = [70.0, 70.0004, 71.123456789]


def enumerated_tables(max_rows):
    cells = [(i, t) for i in (0, 1) for t in TABLE_TIMES]
    out = []
    for n in range(1, max_rows + 1):
        for rows in itertools.product(cells, repeat=n):
            out.append({"ids": [r[0] for r in rows], "times": [r[1] for r in rows]})
    return out


HAND_TABLES = [
    {"ids": [0, 0, 1], "times": [70.0, 71.0, 72.0]},
    {"ids": [0, 0, 1], "times": [70, 71, 72], "int_times": True},
    {"ids": [0, 0, 1], "times": [70.0, 71.0, 72.0], "extra": True},
    {"ids": [1, 0, 1, 0, 2, 2, 1, 0], "times": [75.5, 71.25, 70.125, 69.0, 80.0, 60.0, 72.75, 73.0]},
    {"ids": [0, 0, 0, 1, 1], "times": [70.123456789, 71.987654321, 72.000499999, 70.0014999, 70.0015001]},
    {"ids": [0, 0, 0, 1, 1], "times": [0.0, 70.0, 200.0, -50.0, 500.0]},
    {"ids": [f"s{k}" for k in range(12)], "times": [60.0 + 1.5 * k for k in range(12)]},
    {"ids": [f"s{k % 12}" for k in range(24)], "times": [90.0 - 1.25 * k for k in range(24)]},
]


def table_visit(t, id_type):
    return {"visit_type": "dataframe", "table": dict(t, id_type=id_type)}


def invalid_designs():
    """Every listed single violation of a documented requirement: [(features, visit)]"""
    out = []
    R = BASE_RANDOM

    def rnd(**kw):
        v = dict(R)
        v.update(kw)
        return v

    # missing keys
    for k in R:
        out.append(("all", {x: y for x, y in R.items() if x != k}))
    # other types
    for k in RANDOM_KEYS + ["min_spacing_between_visits"]:
        for bad in ("a", None, "@list"):
            out.append(("all", rnd(**{k: bad})))
    out.append(("all", rnd(patient_number=2.0)))
    out.append(("all", rnd(patient_number=2.5)))
    # values
    for n in (0, -1):
        out.append(("all", rnd(patient_number=n)))
    for k in RANDOM_KEYS:
        if k.endswith("_std"):
            for bad in (-0.1, -1):
                out.append(("all", rnd(**{k: bad})))
    for bad in (-1, -0.001):
        out.append(("all", rnd(min_spacing_between_visits=bad)))
    for dm, ds in ((0, 0), (-1, 0), (-0.5, 0.0)):
        out.append(("all", rnd(distance_visit_mean=dm, distance_visit_std=ds)))
    # visit type / container
    out.append(("all", rnd(visit_type="regular")))
    out.append(("all", rnd(visit_type=None)))
    out.append(("all", None))
    out.append(("all", {}))
    out.append(("all", "random"))
    # features
    for f in ({"raw": "Y0"}, {"tuple": ["Y0", "Y1"]}, {"raw": []}, {"raw": ["Y0", 3]}, {"raw": ["Y0", " "]}, {"raw": ["", "Y1"]},
              {"raw": None}, {"raw": [None, "Y1"]}, {"raw": {"Y0": 1, "Y1": 2}}):
        out.append((f, dict(R)))
        out.append((f, table_visit(BASE_TABLE, "str")))
    # tables
    T = BASE_TABLE
    out.append(("all", table_visit(dict(T, times=[70.0, "@nan", 72.0]), "str")))
    out.append(("all", table_visit(dict(T, times=["@nan", "@nan", "@nan"]), "str")))
    out.append(("all", table_visit(dict(T, times=[70.0, None, 72.0]), "str")))
    out.append(("all", table_visit(dict(T, cols=[None, "TIME"]), "str")))
    out.append(("all", table_visit(dict(T, cols=["ID", None]), "str")))
    out.append(("all", table_visit(dict(T, cols=["id", "TIME"]), "str")))
    out.append(("all", table_visit(dict(T, cols=["ID", "AGE"]), "str")))
    for form in ("dict", "records", "none"):
        out.append(("all", table_visit(dict(T, **{"as": form}), "str")))
    out.append(("all", {"visit_type": "dataframe"}))
    return out


def _tier_plan(tier):
    """[(block name, model, features, [visits], seeds-mode)]"""
    plan = []
    base = M()
    full = random_designs(FULL_GRID)
    small = random_designs(SMALL_GRID)
    id_types = ["str", "numstr", "int"]
    if tier == "quick":
        plan.append(("random-full", base, "all", full, "all"))
        for m in MODELS_ALL[1:]:
            plan.append(("random-small", m, "all", small, "first"))
        for f in ("reordered", "subset"):
            plan.append(("random-small", base, f, small, "first"))
            plan.append(("random-small", M(dim=3, ns=2), f, small, "first"))
        tabs = [table_visit(t, it) for it in id_types for t in enumerated_tables(3)]
        plan.append(("tables-enumerated", base, "all", tabs, "all"))
        hand = [table_visit(t, it) for it in id_types + ["cat", "cat_unused"] for t in HAND_TABLES if not (isinstance(t["ids"][0], str) and it not in ("str", "cat", "cat_unused"))]
        for m in MODELS_ALL:
            plan.append(("tables-hand", m, "all", hand, "first"))
        for f in ("reordered", "subset"):
            plan.append(("tables-hand", base, f, hand, "first"))
    else:
        for m in MODELS_ALL:
            plan.append(("random-full", m, "all", full, "all"))
        for f in ("reordered", "subset", "subset_last"):
            plan.append(("random-full", M(dim=3, ns=2), f, full, "first"))
            plan.append(("random-small", base, f, small, "all"))
        tabs4 = [table_visit(t, it) for it in id_types for t in enumerated_tables(4)]
        tabs3 = [table_visit(t, it) for it in id_types for t in enumerated_tables(3)]
        plan.append(("tables-enumerated", base, "all", tabs4, "all"))
        for m in (M(noise=SC, src="fitted"), M(dim=3, ns=2), M(src="fitted", dim=3, ns=2)):
            plan.append(("tables-enumerated", m, "all", tabs3, "first"))
        hand = [table_visit(t, it) for it in id_types + ["cat", "cat_unused"] for t in HAND_TABLES if not (isinstance(t["ids"][0], str) and it not in ("str", "cat", "cat_unused"))]
        for m in MODELS_ALL:
            for f in ("all", "reordered", "subset"):
                if m["dim"] == 1 and f != "all":
                    continue
                plan.append(("tables-hand", m, f, hand, "all"))
    return plan


CHUNK = {"random-full": 84, "random-small": 60, "tables-enumerated": 130, "tables-hand": 60}


def bounds(tier):
    plan = _tier_plan(tier)
    return {
        "models": [list(_model_key(m)) for m in MODELS_ALL],
        "random_grid_full": {k: [list(x) if isinstance(x, tuple) else x for x in v] for k, v in FULL_GRID.items()},
        "random_grid_small": {k: [list(x) if isinstance(x, tuple) else x for x in v] for k, v in SMALL_GRID.items()},
        "tables": f"every table with <= {3 if tier == 'quick' else 4} rows over 2 identifiers x ages {TABLE_TIMES} x identifier type "
                  f"(str / numeric-looking str / int) + {len(HAND_TABLES)} hand-written tables",
        "invalid_designs": len(invalid_designs()),
        "other_model_kinds": f"an otherwise valid request (random design and visit table, full and partial feature list) on every other model kind {list(OTHER_KINDS)}: "
                             "refused with the algorithm-input error before any draw",
        "blocks": [[b, list(_model_key(m)), f, len(v), s] for b, m, f, v, s in plan],
        "draw_budget": DRAW_BUDGET,
        "seeds": "{0, 1, VERIF_SEED} ('all') or {0} ('first')",
    }


def shards(tier, seed):
    out = []
    inv_models = [M()] if tier == "quick" else MODELS_ALL
    n_inv = len(invalid_designs())
    for mi, m in enumerate(inv_models):
        for lo in range(0, n_inv, 70):
            out.append({"kind": "invalid", "model": m, "lo": lo, "hi": min(n_inv, lo + 70), "seed": 0})
    out.append({"kind": "invalid-model", "seed": 0})
    plan = _tier_plan(tier)
    for bi, (block, m, f, visits, smode) in enumerate(plan):
        step = CHUNK[block]
        for s in (_seeds(seed) if smode == "all" else [0]):
            for lo in range(0, len(visits), step):
                out.append({"kind": "valid-space", "tier": tier, "block": bi, "name": block, "lo": lo, "hi": min(len(visits), lo + step), "seed": s})
    # simplest first, and one shard of every kind of space at the head (the evidence samples come from the first shards)
    seen, head, tail = set(), [], []
    for sh in out:
        k = sh.get("name", sh["kind"])
        (tail if k in seen else head).append(sh)
        seen.add(k)
    return head + tail


def _cases_of(shard):
    if shard["kind"] == "invalid-model":
        # an otherwise valid request (both design families, 2 feature lists) on every other model kind
        for kind in OTHER_KINDS:
            m = dict(M(dim=4, ns=2) if kind == "mixture_logistic" else M(), kind=kind)
            for v in (dict(BASE_RANDOM), {"visit_type": "dataframe", "table": dict(BASE_TABLE)}):
                for f in ("all", "subset"):
                    yield {"model": m, "features": f, "visit": v, "seed": shard["seed"]}
        return
    if shard["kind"] == "invalid":
        inv = invalid_designs()
        for f, v in inv[shard["lo"]:shard["hi"]]:
            if shard["model"]["dim"] == 1 and isinstance(f, dict):
                continue
            yield {"model": shard["model"], "features": f, "visit": v, "seed": shard["seed"]}
    else:
        block, m, f, visits, _ = _tier_plan(shard["tier"])[shard["block"]]
        for v in visits[shard["lo"]:shard["hi"]]:
            yield {"model": m, "features": f, "visit": v, "seed": shard["seed"]}


def run_shard(shard):
    warnings.filterwarnings("ignore")
    acc = Acc()
    memo = {}
    for case in _cases_of(shard):
        vio, outcome, nontrivial = run_case(case, acc, memo)
        acc.outcome(outcome)
        if nontrivial:
            acc.nontriv(digest(case))
        wanted = "invalid:refused:LeaspyAlgoInputError" if shard["kind"].startswith("invalid") else "valid:completed"
        if outcome.startswith(wanted) and "visits=1:" not in outcome and not acc.samples:
            acc.sample({"case": case, "outcome": outcome})
        for v in vio:
            acc.violation(v["signature"], v["message"], case, expected=v["expected"], observed=v["observed"])
    return acc.to_dict()


def replay(case):
    warnings.filterwarnings("ignore")
    vio, _, _ = run_case(case, None, None)
    return [{"signature": v["signature"], "message": v["message"]} for v in vio]


def self_check():
    """The transcription of the documented requirements agrees with the documentation's own examples; wrappers are removed."""
    doc_example = {"patient_number": 200, "visit_type": "random", "first_visit_mean": 0.0, "first_visit_std": 0.4,
                   "time_follow_up_mean": 11, "time_follow_up_std": 0.5, "distance_visit_mean": 2 / 12,
                   "distance_visit_std": 0.75 / 12, "min_spacing_between_visits": 1 / 365}
    assert documented_validity(["a", "b"], doc_example) == (True, None)
    assert documented_precision(doc_example) == 3
    assert documented_precision(dict(doc_example, min_spacing_between_visits=1)) == 0
    assert documented_precision(dict(doc_example, min_spacing_between_visits=0.1)) == 1
    assert documented_precision(dict(doc_example, min_spacing_between_visits=0.0005)) is None
    tab = {"visit_type": "dataframe", "df_visits": pd.DataFrame({"ID": ["p1", "p1", "p2"], "TIME": [50.0, 51.0, 52.0]})}
    assert documented_validity(["a"], tab) == (True, None)
    for f, v in invalid_designs():
        case = {"model": M(), "features": f, "visit": v, "seed": 0}

        class _M:
            features = ["Y0", "Y1"]

        feats, vp = materialize(case, _M)
        assert documented_validity(feats, vp)[0] is False, (f, v)
    assert documented_validity(["a"], dict(doc_example, distance_visit_mean=-1))[0] is None
    before = np.random.normal
    with Recorder().installed():
        assert np.random.normal is not before
    assert np.random.normal is before

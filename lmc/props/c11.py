"""C11 -- seeded runs are reproducible and independent of logging and process history.

E-GRID over (algorithm x model kind x seed x logging configuration x route) crossed with E-HIST over a menu of prior
activities in the same interpreter, plus a comparison between NEW interpreters started under different
PYTHONHASHSEED values.

Oracle: the observation (outcome class + byte-level digest of model.parameters & fit_metrics / individual parameters /
simulated table) of every accepted case equals the observation of the *reference run*: same (algorithm, model, seed),
no logging option at all, executed in a new interpreter (PYTHONHASHSEED=0) that has done nothing before.
A logging combination refused at settings time with LeaspyAlgoInputError is an allowed outcome; every accepted one
must run to the end ("turning logging on never aborts the run").
"""

from __future__ import annotations

import itertools
import json

from .. import c11_lib as L
from ..core import Acc

ID = "C11"
LEVEL = "exploration"
RULE = (
    "one case = (algorithm in {fit x 3 population samplers, 3 personalisations, simulate}, model kind, seed, logging "
    "configuration from the product of print/save/plot/patient-plot periodicities x sourcewise x output-path mode, "
    "route = AlgorithmSettings.set_logs or keyword arguments, prior activity in the interpreter, PYTHONHASHSEED of the "
    "interpreter); every case is executed through the public fit/personalize/simulate; a case is distinct by that "
    "tuple and non-trivial when it differs from the reference run (logging option given, prior activity, other "
    "interpreter / hash seed); compared byte-for-byte with the reference run in a new interpreter"
)
ASSUMPTIONS = [
    "tiny data (5 individuals, 3 features, 2 sources), n_iter = 6 (fit: 3 memory-less iterations + 3 with memory), samplers' "
    "adaptation window 4, CPU, one torch thread",
    "a LeaspyConvergenceError that the reference run raises too (degenerate fit on the tiny data, e.g. seed 24 on the joint model) "
    "is an outcome to be reproduced identically, not a violation",
    "models are built from hand-written parameters (BaseModel.load) and then fitted / personalised / simulated",
    "prior activities use OTHER model objects (what a fit leaves inside the same model object is C13's subject)",
    "personalize / simulate ignore the output manager by design: their logging grid is the 2-valued one "
    "(a 15-configuration diagonal for scipy_minimize) instead of the full product",
    "full logging product at seed 0 only (thorough); the other seeds use the 2-valued grid",
    "matplotlib Agg backend; pool workers and reference interpreters run under PYTHONHASHSEED=0; other hash seeds only in "
    "the dedicated new-interpreter comparison",
    "quick tier: the new-interpreter comparison runs several (algorithm, model) pairs one after the other in one interpreter per hash seed",
    "between interpreters with different hash seeds the fitted model.parameters are compared; a difference confined to "
    "model.fit_metrics (last bit of a float32 sum, value-dependent symptom of the set-order defect reported through "
    "scipy_minimize) is counted in the evidence instead of being a separate signature",
    "a result mismatch is attributed to logging / prior activity only when the plain call in the same interpreter agrees with "
    "the reference interpreter; otherwise it is reported as 'same call in another interpreter'",
]

HASHSEEDS = [0, 1, 2, 3, 4]
CASE_TIMEOUT = 600


def seed_alphabet(seed):
    out = []
    for s in (0, 1, int(seed)):
        if s not in out:
            out.append(s)
    return out


# ------------------------------------------------------------------------------------------
# logging configurations

def _log(pr, sv, pl, pt, sw, path, nb=None):
    return {"print_periodicity": pr, "save_periodicity": sv, "plot_periodicity": pl, "plot_patient_periodicity": pt,
            "plot_sourcewise": sw, "path": path, "nb_of_patients_to_plot": nb}


def _with_nb(grid, values):
    """nb_of_patients_to_plot (default 5 = the whole 5-individual cohort) crossed with every configuration asking for patient
    plots: with 1 or 2 the cohort is larger than the plotted subset."""
    out = []
    for g in grid:
        out.append(g)
        if g["plot_patient_periodicity"]:
            out += [dict(g, nb_of_patients_to_plot=nb) for nb in values]
    return out


def n_active(log):
    return sum(1 for k in L.LOG_KEYS if log.get(k)) + (log.get("path", "absent") != "absent")


def log_grid(level):
    """List of logging configurations, simplest first."""
    if level == "full":
        grid = [_log(*c) for c in itertools.product((None, 1, 3), (None, 1, 2), (None, 2, 3), (None, 2), (False, True),
                                                    L.PATH_MODES)]
        grid = _with_nb(grid, (1, 2)) + [_log(None, None, None, None, False, "absent", 2), _log(None, 1, None, None, False, "fresh", 1)]
    elif level == "two":
        grid = [_log(*c) for c in itertools.product((None, 1), (None, 1), (None, 2), (None, 2), (False, True),
                                                    ("absent", "fresh"))]
        for path in ("existing_overwrite", "existing_empty", "existing_nonempty"):
            grid.append(_log(None, 1, None, None, False, path))
            grid.append(_log(1, 1, 2, 2, True, path))
        # (the convergence plot does not look at nb_of_patients_to_plot: in this grid it is crossed with the other options only)
        grid = [g for g in grid if g["plot_periodicity"]] + _with_nb([g for g in grid if not g["plot_periodicity"]], (2,)) \
            + [_log(None, None, None, None, False, "absent", 2)]
    elif level == "diag":  # every option alone (with an output folder), all together, the path modes
        grid = [
            _log(None, None, None, None, False, "absent"),
            _log(1, None, None, None, False, "absent"),
            _log(None, None, None, None, True, "absent"),
            _log(None, None, None, 2, False, "absent"),
            _log(None, 1, None, None, False, "absent"),
            _log(None, None, None, None, False, "fresh"),
            _log(1, None, None, None, False, "fresh"),
            _log(None, 1, None, None, False, "fresh"),
            _log(None, None, 2, None, False, "fresh"),
            _log(None, None, None, 2, False, "fresh"),
            _log(None, None, None, 2, False, "fresh", 2),
            _log(None, None, None, None, False, "absent", 2),
            _log(None, 1, 2, None, False, "fresh"),
            _log(3, 1, 3, 2, True, "existing_overwrite", 1),
            _log(None, 1, None, None, False, "existing_nonempty"),
        ]
    else:
        raise ValueError(level)
    order = {json.dumps(g, sort_keys=True): i for i, g in enumerate(grid)}
    return sorted(grid, key=lambda g: (n_active(g), order[json.dumps(g, sort_keys=True)]))


def log_cost(algo, log):
    """Rough CPU seconds of one case (used only to cut the enumeration into shards)."""
    base = 3.0 if algo == "pers_scipy" else 0.2
    if algo not in L.FIT_SAMPLERS or log is None:
        return base
    if log.get("plot_periodicity") and log.get("save_periodicity") and log["plot_periodicity"] % log["save_periodicity"] == 0 \
            and log.get("path") != "existing_nonempty":
        return 6.0
    if log.get("plot_patient_periodicity") and (log.get("path") not in ("absent", "existing_nonempty") or log.get("save_periodicity")):
        return 1.5
    return base


CHEAP_LOG = _log(3, 2, None, None, False, "fresh")
PLOT_LOG = _log(None, 2, 2, 2, True, "fresh")


def chunk(items, cost, budget):
    out, cur, tot = [], [], 0.0
    for it in items:
        c = cost(it)
        if cur and tot + c > budget:
            out.append(cur)
            cur, tot = [], 0.0
        cur.append(it)
        tot += c
    if cur:
        out.append(cur)
    return out


def self_check():
    assert len(log_grid("full")) == 540 + 2 * 270 + 2 and len(log_grid("two")) == 70 + 16 + 1 and len(log_grid("diag")) == 15
    assert len({json.dumps(g, sort_keys=True) for g in log_grid("full")}) == len(log_grid("full"))
    assert n_active(log_grid("full")[0]) == 0  # simplest first


# ------------------------------------------------------------------------------------------
# shards

def bounds(tier):
    common = {
        "algorithms": L.ALGOS, "models": {k: f"{v['kind']} dim {v['dim']} sources {v['ns']}" for k, v in L.MODELS.items()},
        "seeds": "{0, 1, VERIF_SEED}", "n_iter": L.N_ITER, "prior activities": list(L.PRIORS),
        "plot_dims": f"fit(Gibbs) with save + convergence plots (+ patient plots), sourcewise or not, on logistic models of every (dimension 1..4, sources 0..dimension-1): "
                     "same bytes as the same fit without logging",
        "algo_object": "one seeded algorithm object (algorithm_factory) run three times (new model copies, random numbers consumed in between): "
                       "each run returns the bytes of the public call",
        "same_object": "a model object fitted in the process (Gibbs, with and without annealing), then the seeded personalize (3 algorithms) / "
                       "simulate call made twice on it: identical bytes",
        "n_jobs": f"personalize(scipy_minimize, seed=0, n_jobs in {[1, 2] if tier == 'quick' else [1, 2, 3]}) on {NJOBS_MODELS[tier]} in a new non-daemonic "
                  f"interpreter: cohorts {NJOBS_COHORTS} one after the other, each personalised twice in a row (worker pool reused)",
        "cohorts": "5 individuals; fits also on 7 individuals (more than the default nb_of_patients_to_plot) x 4 logging configurations",
        "hash seeds of new interpreters": HASHSEEDS,
        "logging alphabets": "print {None,1,3} x save {None,1,2} x plot {None,2,3} x patient plots {None,2} x sourcewise {F,T} x "
                             "path {absent, fresh, existing+overwrite, existing empty, existing non-empty} = 540 (full), every patient-plot "
                             "configuration also with nb_of_patients_to_plot in {1, 2} (1082 in all); "
                             "2-valued grid = 64 + 6 path-mode extras, patient-plot ones without convergence plot also with nb_of_patients_to_plot = 2 (87); "
                             "diagonal = 15",
    }
    if tier == "quick":
        common.update({
            "logging grid": "fit(Gibbs) on the logistic model: 2-valued grid at seed 0 (set_logs route); diagonal for every other "
                            "(algorithm, model) and for the keyword route of fit(Gibbs) at VERIF_SEED",
            "histories": "9 prior activities x 3 seeds x {no logging, print+save} (scipy_minimize: 6 activities, seed 0, no logging)",
            "interpreters": "every (algorithm, model) at seed 0 under 5 hash seeds (3 groups of pairs, one interpreter per group and hash seed)",
        })
    else:
        common.update({
            "logging grid": "fit(Gibbs) x 2 models: full product (540) at seed 0 and 2-valued grid at the other seeds and for the keyword "
                            "route; fit(FastGibbs / Metropolis-Hastings): 2-valued grid at seed 0, diagonal at the other seeds and "
                            "for the keyword route; personalize(mode/mean), simulate: 2-valued grid x 3 seeds; scipy_minimize: diagonal",
            "histories": "9 prior activities x 3 seeds x {no logging, print+save, save+plots+patient plots (fit)}",
            "interpreters": "every (algorithm, model, seed) alone in a new interpreter under each of 5 hash seeds",
        })
    return common


PRIOR_RUNS = {"fit_other": ("fit_gibbs", CHEAP_LOG), "personalize_other": ("pers_mean", None)}
# patient plots on the 7-individual cohort (more individuals than the default nb_of_patients_to_plot = 5)
COHORT7_LOGS = [None, _log(None, None, None, 2, False, "fresh"), _log(1, 1, None, 1, False, "fresh"), _log(None, 2, 2, 2, True, "fresh", 3)]


def case_cost(case):
    c = log_cost(case["algo"], case.get("log"))
    if case["model"] == "joint" and case["algo"] == "simulate":
        c = 0.1
    prior = case.get("prior", "nothing")
    if prior == "same_case":
        c *= 2
    elif prior in ("same_other_seed", "same_settings"):
        c += log_cost(case["algo"], None)
    elif prior == "custom_options":
        c += log_cost(case["algo"], None) * len(L.custom_options_for(case["algo"]))
    elif prior in PRIOR_RUNS:
        c += 0.5
    return c


def shards(tier, seed):
    seeds = seed_alphabet(seed)
    quick = tier == "quick"
    out = []
    # ---- new interpreters under different hash seeds (long shards first)
    if quick:
        for group in (["pers_scipy"], list(L.FIT_SAMPLERS), ["pers_mode", "pers_mean", "simulate"]):
            out.append({"kind": "interp", "cases": [{"algo": a, "model": m, "seed": 0} for a in group for m in L.MODELS]})
    else:
        for algo in L.ALGOS:
            for model in L.MODELS:
                for s in seeds:
                    out.append({"kind": "interp", "cases": [{"algo": algo, "model": model, "seed": s}]})

    for m in NJOBS_MODELS[tier]:
        out.append({"kind": "njobs", "model": m, "n_jobs": [1, 2] if quick else [1, 2, 3]})
    names = list(L.EXTRA_MODELS)
    for lo in range(0, len(names), 3):
        out.append({"kind": "plot_dims", "models": names[lo:lo + 3]})
    for algo in list(L.PERSONALIZE) + ["simulate"]:
        for m in L.MODELS:
            if algo == "simulate" and m != "logistic":
                continue
            out.append({"kind": "same_object", "algo": algo, "model": m, "seeds": [0] if quick else seeds})
    for algo in list(L.FIT_SAMPLERS) + list(L.PERSONALIZE) + ["simulate"]:
        for m in L.MODELS:
            if (algo == "simulate" and m != "logistic") or (quick and algo in ("fit_fastgibbs", "fit_mh") and m != "logistic"):
                continue
            out.append({"kind": "algo_object", "algo": algo, "model": m, "seeds": [0] if quick else seeds})

    budget = 25.0 if quick else 60.0

    def emit(algo, cases):
        for part in chunk(cases, case_cost, budget):
            out.append({"kind": "cases", "algo": algo, "cases": part})

    def hist(algo, model, ss, logs, priors):
        return [{"seed": s, "log": log, "route": "settings", "prior": p} for s in ss for log in logs for p in priors
                if not (p == "same_settings" and log is not None)]  # one settings object = one logs folder, filled by the first run

    def grid(s, level, route):
        return [{"seed": s, "log": g, "route": route, "prior": "nothing"} for g in log_grid(level)]

    # ---- per algorithm: histories, then logging grids (simplest first)
    for algo in L.ALGOS:
        todo = []
        for model in L.MODELS:
            fit = algo in L.FIT_SAMPLERS
            if algo == "pers_scipy" and quick:
                cases = hist(algo, model, [0], [None], ["nothing", "rng7", "fit_other", "dtype_flip", "same_case", "custom_options"])
            else:
                logs = [None, CHEAP_LOG] + ([PLOT_LOG] if fit and not quick else [])
                cases = hist(algo, model, seeds, logs, list(L.PRIORS))
            todo += [dict(c, algo=algo, model=model) for c in cases]
        for model in L.MODELS:
            fit = algo in L.FIT_SAMPLERS
            if quick:
                cases = grid(0, "two" if (algo == "fit_gibbs" and model == "logistic") else "diag", "settings")
                if algo == "fit_gibbs":
                    cases += grid(seeds[-1], "diag", "kwargs")
            elif algo == "fit_gibbs":
                cases = grid(0, "full", "settings")
                for s in seeds[1:]:
                    cases += grid(s, "two", "settings")
                cases += grid(seeds[-1], "two", "kwargs")
            elif fit:
                cases = grid(0, "two", "settings")
                for s in seeds[1:]:
                    cases += grid(s, "diag", "settings")
                cases += grid(seeds[-1], "diag", "kwargs")
            else:
                level = "diag" if algo == "pers_scipy" else "two"
                cases = []
                for s in seeds:
                    cases += grid(s, level, "settings")
                cases += grid(0, "diag", "kwargs")
            todo += [dict(c, algo=algo, model=model) for c in cases]
            if fit:
                ss = [0] if quick else seeds
                todo += [{"seed": s_, "log": g, "route": "settings", "prior": "nothing", "algo": algo, "model": model, "cohort": 7}
                         for s_ in ss for g in (COHORT7_LOGS[:3] if quick else COHORT7_LOGS)]
                if algo == "fit_gibbs":
                    # 10 individuals, 9 or 10 of them plotted (more than the 8 colours of the usual qualitative palettes)
                    todo += [{"seed": 0, "log": g, "route": "settings", "prior": "nothing", "algo": algo, "model": model, "cohort": 10}
                             for g in (None, _log(None, None, None, 2, False, "fresh", 9), _log(None, 2, 2, 2, False, "fresh", 10))]
                    # a relative logs folder, the working directory being another one when the run starts
                    todo += [{"seed": 0, "log": g, "route": "settings", "prior": "nothing", "algo": algo, "model": model}
                             for g in (_log(None, 2, None, None, False, "relative_chdir"), _log(1, 1, 2, 2, False, "relative_chdir"))]
            # the settings read from a JSON file (AlgorithmSettings.save / algorithm_settings_path), every seed of the alphabet
            todo += [{"seed": s_, "log": None, "route": "file", "prior": p_, "algo": algo, "model": model}
                     for s_ in seeds for p_ in ("nothing", "rng7")]
        emit(algo, todo)
    return out


# ------------------------------------------------------------------------------------------
# judging one observation against the reference observation

CONVERGENCE_PLOT_FRAMES = {
    "save_plot_convergence_model_parameters", "_set_title_for_parameter", "_set_legend_for_parameters",
    "_compute_files_sourcewise", "_concatenate_and_save_sourcewise_parameters", "_concatenate_parameters",
    "_get_files_related_to_parameters", "_extract_parameter_name_and_index",
}


def raise_feature(case, obs):
    log = case.get("log")
    names = [f.split(":")[-1] for f in obs.get("frames", [])]
    model = case["model"]
    if not L.logging_is_active(log):
        return f"no logging, {obs.get('where', '?')}"
    if any(n in CONVERGENCE_PLOT_FRAMES for n in names):
        return f"convergence plot ({'sourcewise' if log.get('plot_sourcewise') else 'not sourcewise'}), {model} model"
    if "save_plot_patient_reconstructions" in names:
        return f"patient plots, {model} model"
    if "save_model_parameters_convergence" in names:
        return f"saving the convergence tables, {model} model"
    if "print_algo_statistics" in names or "print_model_statistics" in names or "print_time" in names:
        return "console print"
    if names and names[-1] == "iteration" and log.get("path", "absent") == "absent" and not log.get("save_periodicity"):
        return "logging options without an output folder"
    return f"logging on, {obs.get('where', '?')}"


def differing_parts(obs, ref):
    a, b = obs.get("values") or {}, ref.get("values") or {}
    return sorted(k for k in set(a) | set(b) if a.get(k) != b.get(k))


PRIOR_CLASS = {
    "rng1": "after consuming random numbers", "rng7": "after consuming random numbers",
    "dtype_flip": "after switching the default dtype back and forth",
    "fit_other": "after another run in the same interpreter", "personalize_other": "after another run in the same interpreter",
    "same_case": "after another run in the same interpreter", "same_other_seed": "after another run in the same interpreter",
    "same_settings": "after another run in the same interpreter",
    "custom_options": "after the same algorithm run with non-default nested options",
}
PLAIN = "same call in another interpreter"


def is_plain(case):
    return case.get("prior", "nothing") == "nothing" and not L.logging_is_active(case.get("log"))


def context_feature(case, baseline_differs=False):
    """Minimal input feature of a result mismatch.  When the plain call (no logging, no prior activity) already differs
    between this interpreter and the reference interpreter, everything else in the interpreter is a consequence of that."""
    if case.get("route") == "file" and not baseline_differs:
        return "settings read from a JSON file"
    if baseline_differs or is_plain(case):
        return PLAIN
    prior = case.get("prior", "nothing")
    if prior != "nothing":
        return PRIOR_CLASS[prior]
    return "logging on"


def judge(case, obs, ref, baseline_differs=False):
    """Returns (outcome label, list of (signature, message, expected, observed))."""
    site = L.algo_site(case["algo"])
    out = []
    if "prior_failed" in obs:
        pf = obs["prior_failed"]
        out.append((f"prior activity|{pf.get('exc')}|{case.get('prior')}", f"the prior activity itself failed: {pf}", None, pf))
    if obs["kind"] == "refused" and obs["stage"] == "settings" and L.logging_is_active(case.get("log")):
        return "refused at settings time: LeaspyAlgoInputError", out
    if obs["kind"] == "raise" and obs.get("exc") == NOT_CONVERGED and ref["kind"] == "raise" and ref.get("exc") == NOT_CONVERGED \
            and obs["stage"] == ref["stage"]:
        # the documented outcome of a fit that degenerates on the tiny data set (e.g. seed 24, joint model): reproduced identically
        return f"did not converge like the reference run: {NOT_CONVERGED}", out
    if obs["kind"] == "raise":
        feat = raise_feature(case, obs) if obs["stage"] == "run" else f"at settings time, {'logging on' if L.logging_is_active(case.get('log')) else 'no logging'}"
        out.append((f"{site}|{obs['exc']}|{feat}",
                    f"{obs['exc']}: {obs.get('msg')} (in {obs.get('where')}); the reference run gives {ref['kind']} {ref.get('digest', '')}",
                    {"kind": ref["kind"], "digest": ref.get("digest")}, {k: obs.get(k) for k in ("kind", "exc", "msg", "where")}))
        return f"raise:{obs['exc']}", out
    if obs["kind"] != ref["kind"] or obs.get("stage") != ref.get("stage"):
        out.append((f"{site}|outcome {obs['kind']}@{obs['stage']} instead of {ref['kind']}@{ref['stage']}|{context_feature(case, baseline_differs)}",
                    f"{obs.get('exc')}: {obs.get('msg')}", {k: ref.get(k) for k in ("kind", "stage", "exc")},
                    {k: obs.get(k) for k in ("kind", "stage", "exc", "msg")}))
        return f"{obs['kind']}@{obs['stage']}", out
    if obs["kind"] == "refused":
        return f"refused at {obs['stage']} time like the reference run: {obs['exc']}", out
    if obs["digest"] != ref["digest"]:
        parts = differing_parts(obs, ref)
        out.append((f"{site}|result differs from the reference run|{context_feature(case, baseline_differs)}",
                    f"differing parts: {parts[:8]}", {p: ref["values"].get(p) for p in parts[:4]},
                    {p: obs["values"].get(p) for p in parts[:4]}))
        return "ok:other digest", out
    return "ok:" + obs["digest"], out


def reference_for(cases_keys):
    """Reference observations: each (algo, model, seed) run without logging in ONE new interpreter (hash seed 0)."""
    keys = []
    for k in cases_keys:
        if k not in keys:
            keys.append(k)
    res = L.run_in_new_interpreter([{"algo": a, "model": m, "seed": s, "cohort": n} for (a, m, s, n) in keys], hashseed=0)
    return dict(zip(keys, res))


def case_key(case):
    return json.dumps({k: case.get(k) for k in ("algo", "model", "seed", "log", "route", "prior", "hashseed", "interp", "cohort")},
                      sort_keys=True)


def nontrivial(case):
    return L.logging_is_active(case.get("log")) or case.get("prior", "nothing") != "nothing" or case.get("interp") is not None \
        or case.get("route") == "kwargs"


def _run_and_judge(acc, case, ref, baseline_differs=False):
    from ..core import time_limit

    with time_limit(CASE_TIMEOUT):
        obs = L.run_case(case)
    acc.evaluation()
    if case.get("prior") in ("fit_other", "personalize_other", "same_case", "same_other_seed", "same_settings"):
        acc.evaluation()
    label, viols = judge(case, obs, ref, baseline_differs)
    acc.outcome(label)
    if nontrivial(case):
        acc.nontriv(case_key(case))
    if obs["kind"] == "ok" and obs.get("files"):
        acc.count("runs that wrote log files")
        if any(f.endswith(".pdf") for f in obs["files"]):
            acc.count("runs that wrote plots")
    if L.logging_is_active(case.get("log")) and len(acc.samples) < 2 and obs["kind"] == "ok" and obs.get("files"):
        acc.sample({"case": case, "outcome": label, "reference": ref.get("digest"), "files written": obs["files"][:6]})
    for sig, msg, exp, got in viols:
        acc.violation(sig, msg, dict(case, check="case"), expected=exp, observed=got)
    return obs


def plain_case(c):
    p = {"algo": c["algo"], "model": c["model"], "seed": c["seed"], "log": None, "route": "settings", "prior": "nothing"}
    if "cohort" in c:
        p["cohort"] = c["cohort"]
    return p


def ref_key(c):
    return (c["algo"], c["model"], c["seed"], c.get("cohort", 5))


NOT_CONVERGED = "LeaspyConvergenceError"


def same_observation(obs, ref):
    return obs["kind"] == ref["kind"] and obs.get("stage") == ref.get("stage") and obs.get("digest") == ref.get("digest") \
        and obs.get("exc") == ref.get("exc")


def only_fit_metrics(parts):
    """model.fit_metrics['nll_regul_ind_sum' / 'nll_tot'] are float32 sums whose order follows the iteration order of a set
    (the defect reported through personalize(scipy_minimize), where it always changes the result); whether the last bit of
    the metric changes depends on the values, so this symptom is counted, not used as a violation signature."""
    return bool(parts) and all(isinstance(p, str) and p.startswith("fit_metrics[") for p in parts)


def interp_signature(algo, obs, base):
    site = L.algo_site(algo)
    if obs["kind"] != base["kind"] or obs.get("stage") != base.get("stage") or obs.get("exc") != base.get("exc"):
        return f"{site}|outcome differs across PYTHONHASHSEED|no logging", [obs.get("exc"), obs.get("msg")]
    parts = differing_parts(obs, base)
    if algo in L.FIT_SAMPLERS:
        what = "parameters differ"
    elif algo in L.PERSONALIZE:
        what = "individual parameters differ"
    else:
        what = "simulated result differs"
    return f"{site}|{what} across PYTHONHASHSEED|no logging", parts


def run_interp(acc, shard):
    cases = shard["cases"]
    results = L.run_in_new_interpreters([(cases, h) for h in HASHSEEDS], concurrency=3)
    base = results[0]
    for h, res in zip(HASHSEEDS, results):
        for c, obs, b in zip(cases, res, base):
            algo = c["algo"]
            acc.evaluation()
            full = dict(c, interp="new", hashseed=h)
            acc.nontriv(case_key(full))
            acc.outcome((obs.get("digest") and "ok:" + obs["digest"]) or f"{obs['kind']}@{obs['stage']}")
            if h == HASHSEEDS[0]:
                if obs["kind"] == "raise" and obs.get("exc") != NOT_CONVERGED:
                    acc.violation(f"{L.algo_site(algo)}|{obs['exc']}|no logging, {obs.get('where')}", obs.get("msg"),
                                  {"check": "interp", "cases": cases, "hashseeds": [h]})
                continue
            if not same_observation(obs, b):
                sig, parts = interp_signature(algo, obs, b)
                if only_fit_metrics(parts):
                    acc.count("fits whose fit_metrics (not parameters) differ across PYTHONHASHSEED")
                    continue
                acc.violation(sig, f"PYTHONHASHSEED={h} vs {HASHSEEDS[0]}: differing parts {parts[:8]}",
                              {"check": "interp", "cases": cases, "hashseeds": [HASHSEEDS[0], h], "index": cases.index(c)},
                              expected={p: (b.get("values") or {}).get(p) for p in parts[:4]},
                              observed={p: (obs.get("values") or {}).get(p) for p in parts[:4]})
    if cases[0] == {"algo": "pers_scipy", "model": "logistic", "seed": 0}:
        acc.sample({"new interpreters": cases, "digest per PYTHONHASHSEED": {str(h): [o.get("digest") or o["kind"] for o in r]
                                                                             for h, r in zip(HASHSEEDS, results)}})
    # the pool worker (which has its own, longer history) must agree with the new interpreter too
    for c, b in zip(cases, base):
        _run_and_judge(acc, dict(c, interp="pool worker after new interpreter"), b)


NJOBS_MODELS = {"quick": ["logistic_d2_s1_diag"], "thorough": ["logistic_d2_s1_diag", "linear_d2_s1_diag", "joint_d1_s0_scalar"]}
# the first cohort comes back after two other ones: same seeded call at three different points of the interpreter's history
NJOBS_COHORTS = [["a", "b", "c"], ["c", "d", "e"], ["d", "a"], ["a", "b", "c"]]


def run_njobs(acc, shard):
    """personalize(scipy_minimize, seed=0, n_jobs=k) with k >= 2 (a configuration of the algorithm like any other): in a
    new non-daemonic interpreter every cohort is personalised twice in a row and the first cohort once more at the end, with
    worker processes that have served other calls in between; every repetition must return the same bytes."""
    from . import c07

    model = shard["model"]
    n_jobs_list = shard["n_jobs"]
    res = c07.njobs_subprocess(model, NJOBS_COHORTS, n_jobs_list)
    for nj in n_jobs_list:
        if nj > 1 and res["effective"][str(nj)] != nj:
            raise RuntimeError(f"harness: joblib would run n_jobs={nj} with {res['effective'][str(nj)]} workers")
        runs = res["results"][str(nj)]
        feat = "n_jobs=1" if nj == 1 else "n_jobs>1"
        for c, ids in enumerate(NJOBS_COHORTS):
            got = runs[c]
            case = {"check": "njobs", "model": model, "n_jobs": n_jobs_list, "cohort": ids, "focus_n_jobs": nj}
            acc.evaluation(2)
            acc.nontriv(json.dumps(case, sort_keys=True))
            if "exc" in got:
                acc.violation(f"personalize(scipy_minimize)|{got['exc'][0]}|{feat}", got["exc"][1], case)
                acc.outcome(f"njobs:raise:{got['exc'][0]}")
                continue
            again = got.get("again") or {}
            if "exc" in again or again.get("params") != got["params"] or again.get("order") != got["order"]:
                acc.violation(f"personalize(scipy_minimize)|result differs when the same seeded call is repeated|{feat}",
                              f"cohort {ids}, n_jobs={nj}: first {got['params']}, then {again.get('params', again.get('exc'))}", case)
                acc.outcome("njobs:repeat differs")
                continue
            acc.outcome(f"njobs:repeat identical:{feat}")
        first, last = runs[0], runs[len(NJOBS_COHORTS) - 1]
        if "exc" not in first and "exc" not in last and first["params"] != last["params"]:
            case = {"check": "njobs", "model": model, "n_jobs": n_jobs_list, "cohort": NJOBS_COHORTS[0], "focus_n_jobs": nj}
            acc.violation(f"personalize(scipy_minimize)|result differs after other cohorts were personalised in the process|{feat}",
                          f"cohort {NJOBS_COHORTS[0]}, n_jobs={nj}: {first['params']} at first, {last['params']} after two other cohorts", case)


def run_plot_dims(acc, shard):
    """Convergence / patient plots for every (dimension, number of sources) of the catalogue, sourcewise or not: the page
    layout of the plot files depends on the number of curves; the logged fit must run to the end and give the bytes of the
    same fit without logging (both in this interpreter)."""
    for name in shard["models"]:
        plain = L.execute("fit_gibbs", name, 0, None)
        acc.evaluation()
        for sw in (False, True):
            for nb in (None, 2):
                log = _log(None, 2, 2, 2 if nb else None, sw, "fresh", nb)
                case = {"check": "plot_dims", "algo": "fit_gibbs", "model": name, "seed": 0, "log": log}
                obs = L.execute("fit_gibbs", name, 0, log)
                acc.evaluation()
                acc.nontriv(json.dumps(case, sort_keys=True))
                label, viols = judge(dict(case, route="settings", prior="nothing"), obs, plain, False)
                acc.outcome("plot_dims:" + label.split(":")[0])
                if obs["kind"] == "ok" and any(f.endswith(".pdf") for f in obs.get("files", [])):
                    acc.count("runs that wrote plots")
                for sig, msg, exp, got in viols:
                    acc.violation(sig, f"[{name}] {msg}", case, expected=exp, observed=got)


def run_same_object(acc, shard):
    """The history 'fitted earlier in the process' on the SAME model object: the object is fitted (seeded), then the seeded
    personalize / simulate call is made twice in a row on it; the two answers must be the same bytes (a repeated seeded call)."""
    import io
    from contextlib import redirect_stdout

    algo, model_name = shard["algo"], shard["model"]
    for seed in shard["seeds"]:
        for fit_algo in ("fit_gibbs", "fit_annealing"):
            case = {"check": "same_object", "algo": algo, "model": model_name, "seed": seed, "fit": fit_algo}
            acc.evaluation(2)
            acc.nontriv(json.dumps(case, sort_keys=True))
            model, ds = L.make_model_and_data(model_name, 0, 5)
            site = L.algo_site(algo)
            try:
                with redirect_stdout(io.StringIO()):
                    name_f, kw_f = L.algo_kwargs(fit_algo, 5)
                    model.fit(ds, name_f, **kw_f)
            except Exception as e:  # noqa: BLE001 - the fit is only the history here (judged by the main grid)
                acc.outcome(f"same_object:fit raised {type(e).__name__}")
                continue
            digests, values = [], []
            failed = None
            shared_table = None
            if algo == "simulate" and fit_algo == "fit_annealing":
                # second simulate variant: a visit table (identifiers not in sorted order) - the SAME DataFrame object is
                # given to both calls, as a user looping over seeds or models does
                import pandas as pd

                shared_table = pd.DataFrame({"ID": ["P3", "P3", "P1", "P2", "P2", "P1"], "TIME": [71.0, 73.5, 64.0, 80.25, 78.0, 66.5]})
                case = dict(case, design="visit table object shared by the two calls")
            for rep in range(2):
                name, kw = L.algo_kwargs(algo, seed)
                if shared_table is not None:
                    kw["visit_parameters"] = {"visit_type": "dataframe", "df_visits": shared_table}
                try:
                    with redirect_stdout(io.StringIO()):
                        res = model.personalize(ds, name, **kw) if algo in L.PERSONALIZE else model.simulate(algorithm=name, **kw)
                    parts = L.observe_result(algo, model, res)
                    digests.append(L.digest_parts(parts))
                    values.append({l: L._readable(v) for l, v in parts})
                except Exception as e:  # noqa: BLE001
                    failed = (rep, e)
                    break
            if failed is not None:
                rep, e = failed
                acc.violation(f"{site}|{type(e).__name__}|{'second' if rep else 'first'} call on a model fitted in the process",
                              f"{type(e).__name__}: {str(e)[:300]}", case)
                acc.outcome(f"same_object:raise:{type(e).__name__}")
                continue
            if digests[0] != digests[1]:
                parts = sorted(k for k in set(values[0]) | set(values[1]) if values[0].get(k) != values[1].get(k))
                acc.violation(f"{site}|result differs when the same seeded call is repeated|model object fitted earlier in the process",
                              f"differing parts: {parts[:8]}", case, expected={k: values[0].get(k) for k in parts[:3]},
                              observed={k: values[1].get(k) for k in parts[:3]})
                acc.outcome("same_object:repeat differs")
            else:
                acc.outcome("same_object:repeat identical")


def run_algo_object(acc, shard):
    """ONE seeded algorithm object (`algorithm_factory(settings)`), run several times in a row: the run re-seeds, so every run
    returns the bytes of the first one - which are also the bytes of the public call that builds its own algorithm object.
    (fit: each run on a new copy of the model; between two runs random numbers are consumed from the three generators.)"""
    import io
    import random
    from contextlib import redirect_stdout

    import numpy as np
    import torch
    from leaspy.algo import AlgorithmSettings, algorithm_factory

    algo, model_name = shard["algo"], shard["model"]
    site = L.algo_site(algo)
    for seed in shard["seeds"]:
        case = {"check": "algo_object", "algo": algo, "model": model_name, "seed": seed}
        acc.evaluation(4)
        acc.nontriv(json.dumps(case, sort_keys=True))
        digests, values = [], []
        failed = None
        try:
            with redirect_stdout(io.StringIO()), L.quiet():
                name, kw = L.algo_kwargs(algo, seed)
                # reference: the public call
                model, ds = L.make_model_and_data(model_name, 0, 5)
                if algo in L.FIT_SAMPLERS:
                    res = model.fit(ds, name, **kw)
                elif algo in L.PERSONALIZE:
                    res = model.personalize(ds, name, **kw)
                else:
                    res = model.simulate(algorithm=name, **kw)
                parts = L.observe_result(algo, model, res)
                digests.append(L.digest_parts(parts))
                values.append({l: L._readable(v) for l, v in parts})
                name, kw = L.algo_kwargs(algo, seed)
                algorithm = algorithm_factory(AlgorithmSettings(name, **kw))
                for rep in range(3):
                    model, ds = L.make_model_and_data(model_name, 0, 5)
                    from leaspy.io.data import Dataset
                    res = algorithm.run(model) if algo == "simulate" else algorithm.run(model, Dataset(ds) if not isinstance(ds, Dataset) else ds)
                    parts = L.observe_result(algo, model, res)
                    digests.append(L.digest_parts(parts))
                    values.append({l: L._readable(v) for l, v in parts})
                    random.random(), np.random.rand(3 + rep), torch.rand(2 + rep)
        except Exception as e:  # noqa: BLE001
            failed = e
        if failed is not None:
            which = ["public call", "first run", "second run", "third run"][len(digests)] if len(digests) < 4 else "?"
            acc.violation(f"{site}|{type(failed).__name__}|{which} of one seeded algorithm object",
                          f"{type(failed).__name__}: {str(failed)[:300]}", case)
            acc.outcome(f"algo_object:raise:{type(failed).__name__}")
            continue
        for k, which in ((1, "first"), (2, "second"), (3, "third")):
            if digests[k] != digests[0]:
                parts = sorted(p_ for p_ in set(values[0]) | set(values[k]) if values[0].get(p_) != values[k].get(p_))
                acc.violation(f"{site}|result differs from the public seeded call|{which} run of one seeded algorithm object",
                              f"differing parts: {parts[:8]}", case, expected={p_: values[0].get(p_) for p_ in parts[:3]},
                              observed={p_: values[k].get(p_) for p_ in parts[:3]})
                acc.outcome(f"algo_object:{which} run differs")
                break
        else:
            acc.outcome("algo_object:identical")


def run_shard(shard):
    acc = Acc()
    L.ensure_env()
    try:
        if shard["kind"] == "plot_dims":
            run_plot_dims(acc, shard)
        elif shard["kind"] == "same_object":
            run_same_object(acc, shard)
        elif shard["kind"] == "algo_object":
            run_algo_object(acc, shard)
        elif shard["kind"] == "njobs":
            run_njobs(acc, shard)
        elif shard["kind"] == "interp":
            run_interp(acc, shard)
        elif shard["kind"] == "cases":
            keys = [ref_key(c) for c in shard["cases"]]
            refs = reference_for(keys)
            acc.evaluation(len(refs))
            differs = {}
            for c in shard["cases"]:
                key = ref_key(c)
                if key not in differs:  # the plain call in THIS interpreter first
                    differs[key] = not same_observation(_run_and_judge(acc, plain_case(c), refs[key]), refs[key])
                    if c == plain_case(c):
                        continue
                _run_and_judge(acc, c, refs[key], differs[key])
        else:
            raise ValueError(shard)
    finally:
        cleanup()
    return acc.to_dict()


def cleanup():
    """Every case removes its own directory; the scratch root goes away with the last process that finds it empty."""
    try:
        L.SCRATCH.rmdir()
    except OSError:
        pass


def replay(case):
    L.ensure_env()
    out = []
    if case.get("check") == "plot_dims":
        acc = Acc()
        run_plot_dims(acc, {"models": [case["model"]]})
        cleanup()
        return [{"signature": v["signature"], "message": v["message"]} for v in acc.violations.values()]
    if case.get("check") == "same_object":
        acc = Acc()
        run_same_object(acc, {"algo": case["algo"], "model": case["model"], "seeds": [case["seed"]]})
        return [{"signature": v["signature"], "message": v["message"]} for v in acc.violations.values()]
    if case.get("check") == "algo_object":
        acc = Acc()
        run_algo_object(acc, {"algo": case["algo"], "model": case["model"], "seeds": [case["seed"]]})
        return [{"signature": v["signature"], "message": v["message"]} for v in acc.violations.values()]
    if case.get("check") == "njobs":
        acc = Acc()
        run_njobs(acc, {"model": case["model"], "n_jobs": case["n_jobs"]})
        return [{"signature": v["signature"], "message": v["message"]} for v in acc.violations.values()]
    if case.get("check") == "interp":
        hs = case["hashseeds"]
        results = L.run_in_new_interpreters([(case["cases"], h) for h in hs], concurrency=2)
        base = results[0]
        for h, res in zip(hs, results):
            for c, obs, b in zip(case["cases"], res, base):
                if h == hs[0]:
                    if obs["kind"] == "raise" and obs.get("exc") != NOT_CONVERGED:
                        out.append({"signature": f"{L.algo_site(c['algo'])}|{obs['exc']}|no logging, {obs.get('where')}",
                                    "message": str(obs.get("msg"))})
                    continue
                if not same_observation(obs, b):
                    sig, parts = interp_signature(c["algo"], obs, b)
                    if only_fit_metrics(parts):
                        continue
                    out.append({"signature": sig, "message": f"PYTHONHASHSEED={h} vs {hs[0]} ({c['model']}): differing parts {parts[:8]}"})
        cleanup()
        return out
    c = {k: v for k, v in case.items() if k != "check"}
    key = ref_key(c)
    ref = reference_for([key])[key]
    differs = False
    if c != plain_case(c) and c.get("interp") is None:
        differs = not same_observation(L.run_case(plain_case(c)), ref)
    obs = L.run_case(c)
    _, viols = judge(c, obs, ref, differs)
    cleanup()
    return [{"signature": s, "message": m} for s, m, _, _ in viols]

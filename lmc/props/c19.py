"""C19 -- temperature and proposal-scale schedules stay within their documented envelopes.

E-HIST over two small machines, both stepped on the real objects:
 (T) the annealing machine (k, temperature): every configuration of a grid is constructed through
     AlgorithmSettings -> algorithm_factory, `_initialize_annealing()` is called, then `_update_temperature()`
     for k = 1..n_iter exactly as `_iteration` does; a subset additionally runs a complete tiny fit.
 (S) the adaptive proposal scale: every binary acceptance history (prefix-shared tree) up to 3 windows is fed
     through the real `_update_acceptation_rate` + `_update_std` of every sampler class, and a subset through
     `sample()` with scripted uniforms.
"""

from __future__ import annotations

import itertools
import warnings

import torch

import leaspy.models  # noqa: F401
from leaspy.algo import AlgorithmSettings
from leaspy.algo.base import algorithm_factory
from leaspy.exceptions import LeaspyAlgoInputError, LeaspyInputError

from .. import seams
from ..core import Acc

ID = "C19"
LEVEL = "model_checking"
RULE = (
    "(T) every annealing configuration of the grid is a run of the real (iteration, temperature) machine; each update "
    "is a transition, a configuration is non-trivial when its temperature trace is distinct; (S) every node of the "
    "binary acceptance-history tree is a state of the real sampler (std, counter, window), every append a transition; "
    "distinct (setting, history) pairs are counted"
)
ASSUMPTIONS = [
    "default (linear plateau) annealing scheme only; the undocumented oscillating scheme is not covered",
    "reference plateau length = max(1, annealing_iterations // (n_plateau - 1))",
    "observation points: algo.temperature after _initialize_annealing and after the update that ends iteration k",
    "acceptance histories enumerated up to 3 windows (<= 2^12 per setting); 1-2 blocks",
]

T0S = [1.1, 1.5, 2, 3, 5, 7, 10]
PLATEAUS = [1, 2, 3, 4, 5, 7, 10]
FRACS = [0.1, 0.3, 0.5, 0.77, 1.0]


def bounds(tier):
    return {
        "n_iter": "1..25" if tier == "quick" else "1..100",
        "T0": T0S, "plateaus": PLATEAUS, "fractions": FRACS, "counts": "0, 1, P-2, P-1, n_iter",
        "windows": "1..4" if tier == "quick" else "1..5", "history_length": "<= 3 windows (<= 12 steps), 1-2 blocks",
    }


def make_algo(n_iter, annealing):
    with warnings.catch_warnings():
        warnings.simplefilter("ignore")
        settings = AlgorithmSettings("mcmc_saem", n_iter=n_iter, progress_bar=False, seed=0, annealing=annealing)
        return algorithm_factory(settings)


def run_temperature_config(cfg):
    """Returns (outcome label, trace, list of (signature, message))."""
    n_iter, T0, P = cfg["n_iter"], cfg["T0"], cfg["P"]
    if not cfg["on"]:
        ann = {"do_annealing": False}
    else:
        ann = {"do_annealing": True, "initial_temperature": T0, "n_plateau": P}
        if cfg.get("count") is not None:
            ann.update(n_iter=cfg["count"])
            if not cfg.get("keep_default_frac"):
                ann.update(n_iter_frac=None)  # otherwise the default ratio stays in the settings: the explicit count has priority
        else:
            ann.update(n_iter_frac=cfg["frac"])
    problems = []
    try:
        if cfg.get("reused_after") is not None:
            # ONE settings object: an algorithm is first built for another number of iterations, then the number of
            # iterations is changed in the settings and the algorithm under test is built from the same object
            with warnings.catch_warnings():
                warnings.simplefilter("ignore")
                settings = AlgorithmSettings("mcmc_saem", n_iter=cfg["reused_after"], progress_bar=False, seed=0, annealing=ann)
                algorithm_factory(settings)._initialize_annealing()
                settings.parameters["n_iter"] = n_iter
                algo = algorithm_factory(settings)
        else:
            algo = make_algo(n_iter, ann)
        algo._initialize_annealing()
    except (LeaspyAlgoInputError, LeaspyInputError) as e:
        # documented requirements: initial temperature > 1, at least one plateau, a count >= 0 or a ratio in [0, 1]
        valid = cfg["on"] and cfg["T0"] is not None and cfg["T0"] > 1 and cfg["P"] is not None and cfg["P"] >= 1 and (
            (cfg.get("count") is not None and cfg["count"] >= 0) or (cfg.get("count") is None and cfg.get("frac") is not None and 0 <= cfg["frac"] <= 1))
        if valid:
            problems.append(("annealing setup|valid configuration refused|" + ("explicit count of annealing iterations" if cfg.get("count") is not None else "ratio"),
                             f"{cfg}: {e}"))
        return "refused", None, problems
    except Exception as e:
        return "refused-with-other-exception", None, [(f"annealing setup|{type(e).__name__} instead of LeaspyAlgoInputError|", f"{type(e).__name__}: {e}")]
    if not cfg["on"]:
        trace = []
        for k in range(1, n_iter + 1):
            algo.current_iteration = k
            algo._update_temperature()
            trace.append(algo.temperature)
            if algo.temperature != 1.0 or algo.temperature_inv != 1.0:
                problems.append(("no annealing|temperature differs from 1|", f"k={k} T={algo.temperature}"))
                break
        return "off", trace, problems
    A_impl = algo.algo_parameters["annealing"]["n_iter"]
    # the documented number of annealing iterations: the explicit count when given (priority), else the ratio of the iterations
    A = cfg["count"] if cfg.get("count") is not None else int(cfg["frac"] * n_iter)
    if A_impl != A:
        problems.append(("annealing setup|number of annealing iterations differs from the configured one|" +
                         ("explicit count" + (", default ratio kept" if cfg.get("keep_default_frac") else "") if cfg.get("count") is not None else "ratio")
                         + (", settings object used before for another number of iterations" if cfg.get("reused_after") is not None else ""),
                         f"{cfg}: algorithm holds {A_impl}, configured {A}"))
    feature = "n_plateau=1" if P == 1 else ("annealing iterations < n_plateau-1" if A < P - 1 else ("0 annealing iterations" if A == 0 else "regular"))
    if A == 0:
        feature = "0 annealing iterations"
    if P == 1:
        feature = "n_plateau=1"
    if algo.temperature != T0:
        problems.append((f"_initialize_annealing|temperature does not start at the initial value|{feature}", f"T={algo.temperature} T0={T0}"))
    if algo.temperature_inv != 1 / algo.temperature:
        problems.append((f"_initialize_annealing|temperature_inv is not 1/temperature|{feature}", ""))
    L = max(1, A // (P - 1)) if P > 1 else None
    prev = algo.temperature
    trace = [prev]
    for k in range(1, n_iter + 1):
        algo.current_iteration = k
        try:
            algo._update_temperature()
        except Exception as e:
            problems.append((f"_update_temperature|accepted configuration raises {type(e).__name__}|{feature}", f"k={k}: {e}"))
            return "raised", trace, problems
        T = algo.temperature
        trace.append(T)
        if T > prev:
            problems.append((f"_update_temperature|temperature increases|{feature}", f"k={k} {prev}->{T}"))
        if T < 1:
            problems.append((f"_update_temperature|temperature below 1|{feature}", f"k={k} T={T}"))
        if T != prev and L is not None and k % L != 0:
            problems.append((f"_update_temperature|temperature changes inside a plateau|{feature}", f"k={k} L={L} {prev}->{T}"))
        if T != prev and L is None:
            problems.append((f"_update_temperature|temperature changes with one plateau|{feature}", f"k={k}"))
        if k >= A and T != 1.0:
            problems.append((f"_update_temperature|temperature is not exactly 1 once the annealing iterations are over|{feature}",
                             f"k={k} A={A} T={T!r}"))
        if algo.temperature_inv != 1.0 / T:
            problems.append((f"_update_temperature|temperature_inv is not 1/temperature|{feature}", f"k={k}"))
        prev = T
    # keep one problem per signature
    seen, out = set(), []
    for s, m in problems:
        if s not in seen:
            seen.add(s)
            out.append((s, m))
    return "ran", trace, out


def temperature_configs(tier):
    n_max = 25 if tier == "quick" else 100
    for n_iter in range(1, n_max + 1):
        yield {"on": False, "n_iter": n_iter, "T0": None, "P": None}
        for T0 in T0S + [1.0, 0.5]:
            for P in PLATEAUS + [0, -1]:
                if (T0 in (1.0, 0.5) or P in (0, -1)) and n_iter not in (1, 10):
                    continue  # refusal cases: two iteration counts are enough
                for frac in FRACS:
                    yield {"on": True, "n_iter": n_iter, "T0": T0, "P": P, "frac": frac, "count": None}
                for count in sorted({0, 1, max(P - 2, 0), max(P - 1, 0), n_iter}):
                    yield {"on": True, "n_iter": n_iter, "T0": T0, "P": P, "frac": None, "count": count}
                if T0 == T0S[0] and P >= 1:
                    # the settings object served before, for an algorithm with another number of iterations
                    for frac in (0.5, 1.0):
                        for prev in sorted({1, n_iter // 2, 2 * n_iter + 3} - {0, n_iter}):
                            yield {"on": True, "n_iter": n_iter, "T0": T0, "P": P, "frac": frac, "count": None, "reused_after": prev}
                    # an explicit count while the default ratio stays in the settings (the count has priority)
                    for count in sorted({0, 2, max(n_iter // 3, 1)}):
                        yield {"on": True, "n_iter": n_iter, "T0": T0, "P": P, "frac": None, "count": count, "keep_default_frac": True}


# ------------------------------------------------------------------------------------------
# proposal scale

from leaspy.samplers.gibbs import (  # noqa: E402
    IndividualGibbsSampler,
    PopulationFastGibbsSampler,
    PopulationGibbsSampler,
    PopulationMetropolisHastingsSampler,
)

SAMPLER_SETTINGS = {
    "ind1": lambda kw: IndividualGibbsSampler("xi", (1,), n_patients=1, scale=1.0, **kw),
    "ind2": lambda kw: IndividualGibbsSampler("xi", (1,), n_patients=2, scale=1.0, **kw),
    "pop_gibbs1": lambda kw: PopulationGibbsSampler("g", (1,), scale=torch.tensor([1.0]), **kw),
    "pop_gibbs2": lambda kw: PopulationGibbsSampler("g", (2,), scale=torch.tensor([1.0, 2.0]), **kw),
    "pop_fast2": lambda kw: PopulationFastGibbsSampler("betas", (2, 2), scale=torch.ones(2, 2), **kw),
    "pop_mh": lambda kw: PopulationMetropolisHastingsSampler("betas", (2, 2), scale=torch.ones(2, 2), **kw),
    # very small / very large variables: the scale is a positive finite number at every magnitude a float32 can hold,
    # and it is changed by the configured factor there too
    "ind_tiny": lambda kw: IndividualGibbsSampler("xi", (1,), n_patients=2, scale=1e-7, **kw),
    "pop_tiny": lambda kw: PopulationGibbsSampler("g", (2,), scale=torch.tensor([1e-6, 3e-8]), **kw),
    "pop_huge": lambda kw: PopulationGibbsSampler("g", (1,), scale=torch.tensor([1e30]), **kw),
}


def explore_scale(setting, w, band, factor, acc, max_steps):
    kw = dict(acceptation_history_length=w, mean_acceptation_rate_target_bounds=band, adaptive_std_factor=factor)
    s0 = SAMPLER_SETTINGS[setting](kw)
    n_blocks = s0.std.numel()
    steps = min(3 * w, max_steps // n_blocks if n_blocks > 1 else max_steps)
    lo, hi = band
    case_base = {"machine": "scale", "setting": setting, "w": w, "band": list(band), "factor": factor}
    # DFS over the binary tree of acceptance vectors; state = (std, counter, window) copied at each node
    stack = [((), s0.std.clone(), 0, s0.acceptation_history.clone(), [[] for _ in range(n_blocks)])]
    acc.state()
    vectors = list(itertools.product((0.0, 1.0), repeat=n_blocks))
    while stack:
        hist, std, counter, window, ref_hist = stack.pop()
        if len(hist) >= steps:
            continue
        for vec in vectors:
            s0.std = std.clone()
            s0._counter = counter
            s0.acceptation_history = window.clone()
            a = torch.tensor(vec, dtype=torch.float32).reshape(s0.std.shape)
            s0._update_acceptation_rate(a)
            s0._update_std()
            acc.transition()
            acc.evaluation()
            h2 = hist + (vec,)
            n = len(h2)
            ref2 = [r + [x] for r, x in zip(ref_hist, vec)]
            new_std = s0.std.reshape(-1)
            old_std = std.reshape(-1)
            case = dict(case_base, history=[list(v) for v in h2])
            acc.nontriv(repr((setting, w, band, factor, h2)))
            for b in range(n_blocks):
                exp = old_std[b]
                label = "kept"
                if n % w == 0:
                    mean = sum(ref2[b][-w:]) / w
                    mean32 = torch.tensor(ref2[b][-w:], dtype=torch.float32).mean()
                    if bool(mean32 < lo) != (mean < lo) or bool(mean32 > hi) != (mean > hi):
                        label = "tie"  # float32 mean on the other side of the bound than the exact mean: either accepted
                        exp = None
                    elif mean < lo:
                        exp = old_std[b] * (1 - factor)
                        label = "decreased"
                    elif mean > hi:
                        exp = old_std[b] * (1 + factor)
                        label = "increased"
                acc.outcome(f"scale:{label}")
                got = new_std[b]
                if not (torch.isfinite(got) and got > 0):
                    acc.violation(f"_update_std|proposal scale not positive and finite|{setting}", f"std={got}", case)
                elif exp is not None and got != exp:
                    if n % w != 0:
                        sig = f"_update_std|scale changes outside a multiple of the history length|{type(s0).__name__}"
                    elif label == "kept":
                        sig = f"_update_std|scale changes although the mean acceptance rate is inside the band|{type(s0).__name__}"
                    else:
                        sig = f"_update_std|scale not {label} by exactly the configured factor|{type(s0).__name__}"
                    acc.violation(sig, f"step {n} block {b}: std {float(old_std[b])!r} -> {float(got)!r}, expected {float(exp)!r}", case,
                                  expected=float(exp), observed=float(got))
            acc.state()
            stack.append((h2, s0.std.clone(), s0._counter, s0.acceptation_history.clone(), ref2))
    if len(acc.samples) < 4:
        acc.sample(dict(case_base, history="all binary histories up to %d steps" % steps))


def replay_scale(case):
    kw = dict(acceptation_history_length=case["w"], mean_acceptation_rate_target_bounds=tuple(case["band"]),
              adaptive_std_factor=case["factor"])
    acc = Acc()
    # re-explore only this history: run the explorer restricted to the prefix path
    s0 = SAMPLER_SETTINGS[case["setting"]](kw)
    w, (lo, hi), factor = case["w"], case["band"], case["factor"]
    n_blocks = s0.std.numel()
    ref = [[] for _ in range(n_blocks)]
    out = []
    for n, vec in enumerate(case["history"], 1):
        old = s0.std.clone().reshape(-1)
        s0._update_acceptation_rate(torch.tensor(vec, dtype=torch.float32).reshape(s0.std.shape))
        s0._update_std()
        for b in range(n_blocks):
            ref[b].append(vec[b])
            exp = old[b]
            if n % w == 0:
                mean = sum(ref[b][-w:]) / w
                if mean < lo:
                    exp = old[b] * (1 - factor)
                elif mean > hi:
                    exp = old[b] * (1 + factor)
            if s0.std.reshape(-1)[b] != exp:
                out.append({"signature": "_update_std|mismatch", "message": f"step {n} block {b}: {float(s0.std.reshape(-1)[b])!r} expected {float(exp)!r}"})
    return out


# ------------------------------------------------------------------------------------------

def shards(tier, seed):
    out = []
    n_max = 25 if tier == "quick" else 100
    for lo_n in range(1, n_max + 1, 5):
        out.append({"machine": "temperature", "n_lo": lo_n, "n_hi": min(lo_n + 4, n_max), "tier": tier})
    windows = [1, 2, 3, 4] if tier == "quick" else [1, 2, 3, 4, 5]
    for setting in SAMPLER_SETTINGS:
        for w in windows:
            out.append({"machine": "scale", "setting": setting, "w": w, "tier": tier})
    out.append({"machine": "fit", "tier": tier})
    out.append({"machine": "personalize", "tier": tier})
    out.append({"machine": "scale_binding", "tier": tier})
    return out


def run_shard(shard):
    acc = Acc()
    if shard["machine"] == "temperature":
        for cfg in temperature_configs(shard["tier"]):
            if not (shard["n_lo"] <= cfg["n_iter"] <= shard["n_hi"]):
                continue
            label, trace, problems = run_temperature_config(cfg)
            acc.evaluation()
            acc.state()
            acc.transition(cfg["n_iter"] if label in ("ran", "off", "raised") else 1)
            acc.outcome(f"T:{label}")
            if trace is not None:
                acc.nontriv(repr(trace))
            if cfg["n_iter"] == 12 and cfg.get("P") == 4:
                acc.sample({"config": cfg, "trace": trace})
            for sig, msg in problems:
                acc.violation(sig, msg, {"machine": "temperature", "config": cfg})
    elif shard["machine"] == "scale":
        extreme = shard["setting"].endswith(("_tiny", "_huge"))
        for band in ((0.2, 0.4), (0.3, 0.6)):
            for factor in ((0.1, 0.5, 0.9) if not extreme else (0.5, 0.9)):
                if factor == 0.9 and (band != (0.2, 0.4) or (shard["w"] > 2 and shard["tier"] == "quick")):
                    continue
                explore_scale(shard["setting"], shard["w"], band, factor, acc, max_steps=12)
    elif shard["machine"] == "personalize":
        run_personalize_binding(acc, shard["tier"])
    elif shard["machine"] == "scale_binding":
        run_scale_binding(acc, shard["tier"])
    else:
        run_fit_binding(acc, shard["tier"])
    return acc.to_dict()


def run_fit_binding(acc, tier):
    """Complete tiny fits: every accepted annealing configuration runs to completion and the temperature seen by
    the samplers follows the machine (temperature_inv passed to sample() == 1/temperature before the update)."""
    from ..models import MODEL_SPECS, build_model, cohort_dataset

    spec = MODEL_SPECS["logistic_d2_s1_diag"]
    ds = cohort_dataset(["a", "b", "d"], spec)
    grid = [(n, P, c) for n in (3, 6) for P in (2, 4, 10) for c in (None, 0, 1, 2)]
    if tier == "thorough":
        grid += [(n, P, c) for n in (10, 12) for P in (2, 3, 5, 10) for c in (None, 1, 5)]
    for n_iter, P, count in grid:
        ann = {"do_annealing": True, "initial_temperature": 3, "n_plateau": P}
        if count is not None:
            ann.update(n_iter=count, n_iter_frac=None)
        case = {"machine": "fit", "n_iter": n_iter, "annealing": ann}
        model = build_model(spec)
        acc.evaluation()
        acc.state()
        acc.transition(n_iter)
        with warnings.catch_warnings():
            warnings.simplefilter("ignore")
            try:
                settings = AlgorithmSettings("mcmc_saem", n_iter=n_iter, progress_bar=False, seed=0, annealing=ann)
                algo = algorithm_factory(settings)
            except (LeaspyAlgoInputError, LeaspyInputError):
                acc.outcome("fit:refused")
                continue
            seen_inv = []
            orig = type(algo)._update_temperature

            def spy(self, _orig=orig):
                seen_inv.append((self.current_iteration, self.temperature_inv, self.temperature))
                _orig(self)

            try:
                type(algo)._update_temperature = spy
                algo.run(model, ds)
                acc.outcome("fit:completed")
                acc.nontriv(repr((n_iter, P, count, [round(t, 6) for _, _, t in seen_inv])))
                if len(seen_inv) != n_iter:
                    acc.violation("fit|temperature not updated once per iteration|", f"{len(seen_inv)} updates for {n_iter} iterations", case)
                # the same algorithm object run a second time (fresh model) must follow the same schedule from T0
                first = list(seen_inv)
                del seen_inv[:]
                algo.run(build_model(spec), ds)
                acc.transition(n_iter)
                if [t for _, _, t in seen_inv] != [t for _, _, t in first]:
                    acc.violation("fit|temperature schedule of a second run of the same algorithm object differs from the first|",
                                  f"first {[t for _, _, t in first]} second {[t for _, _, t in seen_inv]}", case)
                if algo.temperature != 1.0:
                    A = algo.algo_parameters["annealing"]["n_iter"]
                    feature = "0 annealing iterations" if A == 0 else ("annealing iterations < n_plateau-1" if A < P - 1 else "regular")
                    acc.violation(f"fit|temperature is not exactly 1 at the end of the run|{feature}", f"T={algo.temperature!r}", case)
            except (LeaspyAlgoInputError,) as e:
                acc.outcome("fit:refused-late")
                acc.violation("fit|accepted configuration refused during the run|", str(e), case)
            except Exception as e:
                A = n_iter // 2 if count is None else count
                feature = "annealing iterations < n_plateau-1" if A < P - 1 else "regular"
                acc.outcome("fit:raised")
                acc.violation(f"fit|accepted configuration raises {type(e).__name__}|{feature}", f"{type(e).__name__}: {e}", case)
            finally:
                type(algo)._update_temperature = orig


def run_scale_binding(acc, tier):
    """Real runs (sampling personalisations and fits) with short acceptance windows; every sampler's `_update_acceptation_rate`
    / `_update_std` calls are recorded.  ONE algorithm object is run twice (second cohort of the same size).  In each run, for each
    sampler: the scale starts from the value a new algorithm object starts from, moves only inside `_update_std`, only at calls
    whose rank in the run is a multiple of the window, by the configured factor, per block, according to the mean of the last
    `window` acceptance vectors recorded in that run."""
    from leaspy.samplers.base import AbstractSampler
    from leaspy.samplers import gibbs as G
    from ..models import MODEL_SPECS, build_model, cohort_dataset

    spec = MODEL_SPECS["logistic_d2_s1_diag"]
    cohorts = [cohort_dataset(["a", "b", "d"], spec), cohort_dataset(["c", "a", "b"], spec)]
    owner = next(c for c in G.IndividualGibbsSampler.__mro__ if "_update_std" in vars(c))
    grid = [(name, n, w, f) for name in ("mode_posterior", "mean_posterior", "mcmc_saem") for n, w in ((7, 3), (5, 2), (4, 1), (8, 4))
            for f in (0.5,)]
    if tier == "thorough":
        grid += [(name, n, w, 0.1) for name in ("mode_posterior", "mcmc_saem") for n, w in ((11, 3), (9, 4), (10, 5))]
    lo, hi = 0.2, 0.4
    for name, n_iter, w, factor in grid:
        case = {"machine": "scale_binding", "algorithm": name, "n_iter": n_iter, "w": w, "factor": factor}
        kws = {"acceptation_history_length": w, "adaptive_std_factor": factor, "mean_acceptation_rate_target_bounds": (lo, hi)}
        log = []  # (sampler id, name, kind, payload)
        o_std, o_acc = owner._update_std, AbstractSampler._update_acceptation_rate

        def spy_std(self, _o=o_std):
            before = self.std.clone()
            _o(self)
            log.append((id(self), self.name, "std", (before, self.std.clone())))

        def spy_acc(self, accepted, _o=o_acc):
            log.append((id(self), self.name, "acc", accepted.detach().clone().float()))
            _o(self, accepted)

        with warnings.catch_warnings():
            warnings.simplefilter("ignore")
            extra = {"sampler_pop_params": dict(kws)} if name == "mcmc_saem" else {}
            algo = algorithm_factory(AlgorithmSettings(name, n_iter=n_iter, progress_bar=False, seed=0, sampler_ind_params=dict(kws), **extra))
            runs = []
            try:
                owner._update_std, AbstractSampler._update_acceptation_rate = spy_std, spy_acc
                for r in range(2):
                    del log[:]
                    algo.run(build_model(spec), cohorts[r])
                    runs.append(list(log))
                    acc.transition(n_iter)
            except Exception as e:
                acc.outcome("scale_binding:raised")
                acc.violation(f"{name}|run with a short acceptance window raises {type(e).__name__}|run {len(runs) + 1} of one algorithm object", str(e), case)
                continue
            finally:
                owner._update_std, AbstractSampler._update_acceptation_rate = o_std, o_acc
        acc.evaluation()
        acc.state()
        starts = []
        for r, entries in enumerate(runs):
            per = {}
            for sid, nm, kind, payload in entries:
                per.setdefault(nm, {"ids": set(), "std": [], "acc": []})
                per[nm]["ids"].add(sid)
                per[nm][kind].append(payload)
            starts.append({nm: d["std"][0][0] for nm, d in per.items() if d["std"]})
            for nm, d in sorted(per.items()):
                which = f"{name}, run {r + 1} of one algorithm object"
                if len(d["std"]) != len(d["acc"]) or not d["std"]:
                    acc.outcome("scale_binding:calls not paired")
                    continue
                acc.nontriv(repr((name, n_iter, w, factor, r, nm, [a.reshape(-1).tolist() for a in d["acc"]])))
                prev_after = None
                for n, ((before, after), a) in enumerate(zip(d["std"], d["acc"]), 1):
                    if prev_after is not None and not torch.equal(before, prev_after):
                        acc.violation(f"sampler[{which}]|scale changes outside the adaptation step|", f"{nm} before call {n}: {prev_after.reshape(-1).tolist()} -> {before.reshape(-1).tolist()}", case)
                    prev_after = after
                    if not bool((torch.isfinite(after) & (after > 0)).all()):
                        acc.violation(f"sampler[{which}]|proposal scale not positive and finite|", f"{nm} call {n}: {after}", case)
                    if n % w != 0:
                        acc.outcome("scale_binding:kept")
                        if not torch.equal(before, after):
                            acc.violation(f"sampler[{which}]|scale changes outside a multiple of the history length|",
                                          f"{nm}: call {n} of the run, window {w}: {before.reshape(-1).tolist()} -> {after.reshape(-1).tolist()}", case)
                        continue
                    window = torch.stack([x.reshape(before.shape) for x in d["acc"][n - w:n]])
                    mean64 = window.double().mean(dim=0)
                    mean32 = window.mean(dim=0)
                    exp = torch.where(mean64 < lo, before * (1 - factor), torch.where(mean64 > hi, before * (1 + factor), before))
                    tie = ((mean32 < lo) != (mean64 < lo)) | ((mean32 > hi) != (mean64 > hi))
                    acc.outcome("scale_binding:adapted" if not torch.equal(before, after) else "scale_binding:inside the band")
                    bad = (after != exp) & ~tie
                    if bool(bad.any()):
                        acc.violation(f"sampler[{which}]|scale not changed by exactly the configured factor for the blocks outside the band|",
                                      f"{nm}: call {n}, window {w}, mean acceptance {mean64.reshape(-1).tolist()}: {before.reshape(-1).tolist()} -> "
                                      f"{after.reshape(-1).tolist()}, expected {exp.reshape(-1).tolist()}", case)
        for nm in sorted(set(starts[0]) & set(starts[1])):
            if starts[0][nm].shape == starts[1][nm].shape and not torch.equal(starts[0][nm], starts[1][nm]):
                acc.violation(f"sampler[{name}, run 2 of one algorithm object]|scale does not start from the initial value|",
                              f"{nm}: first run starts at {starts[0][nm].reshape(-1).tolist()}, second at {starts[1][nm].reshape(-1).tolist()}", case)
        acc.outcome("scale_binding:completed")


def run_personalize_binding(acc, tier):
    """The sampling-based personalizations use the same annealing mixin: during a real `personalize` the temperature
    must be updated once per iteration and follow exactly the trace of the stepped machine."""
    from ..models import MODEL_SPECS, build_model, cohort_dataset

    spec = MODEL_SPECS["logistic_d2_s1_diag"]
    ds = cohort_dataset(["a", "b"], spec)
    grid = [(algo, n, P, frac, burn) for algo in ("mean_posterior", "mode_posterior") for n in (6, 9)
            for P in (2, 3) for frac in (0.5, 1.0) for burn in (0.0, 0.5)]
    if tier == "quick":
        grid = [g for g in grid if g[1] == 6]
    for name, n_iter, P, frac, burn in grid:
        ann = {"do_annealing": True, "initial_temperature": 3, "n_plateau": P, "n_iter_frac": frac}
        case = {"machine": "personalize", "algorithm": name, "n_iter": n_iter, "annealing": ann, "burn_in_frac": burn}
        acc.evaluation()
        acc.state()
        acc.transition(n_iter)
        with warnings.catch_warnings():
            warnings.simplefilter("ignore")

            def build():
                return algorithm_factory(AlgorithmSettings(name, n_iter=n_iter, progress_bar=False, seed=0,
                                                           n_burn_in_iter_frac=burn, annealing=ann))
            ref_algo = build()
            expected = []
            try:
                ref_algo._initialize_annealing()
                for k in range(1, n_iter + 1):
                    ref_algo.current_iteration = k
                    ref_algo._update_temperature()
                    expected.append((k, ref_algo.temperature))
            except Exception as e:  # the stepped machine itself fails on an accepted configuration (also reported by the temperature part)
                acc.violation(f"personalize|accepted annealing configuration raises {type(e).__name__}|{name}", f"stepping the schedule: {e}", case)
                acc.outcome("personalize:raised")
                continue
            algo = build()
            seen = []
            orig = type(algo)._update_temperature

            def spy(self, _orig=orig):
                _orig(self)
                seen.append((self.current_iteration, self.temperature))

            try:
                type(algo)._update_temperature = spy
                algo.run(build_model(spec), ds)
            except Exception as e:
                acc.violation(f"personalize|accepted annealing configuration raises {type(e).__name__}|{name}", str(e), case)
                acc.outcome("personalize:raised")
                continue
            finally:
                type(algo)._update_temperature = orig
        acc.outcome("personalize:completed")
        acc.nontriv(repr((name, n_iter, P, frac, burn, seen)))
        if seen != expected:
            kind = "not updated once per iteration" if len(seen) != n_iter else "trace differs from the stepped schedule"
            acc.violation(f"personalize|temperature {kind}|{name}", f"seen {seen} expected {expected}", case)


def replay(case):
    if case.get("machine") == "personalize":
        acc = Acc()
        run_personalize_binding(acc, "thorough")
        return [{"signature": v["signature"], "message": v["message"]} for v in acc.violations.values()]
    if case.get("machine") == "temperature":
        label, trace, problems = run_temperature_config(case["config"])
        return [{"signature": s, "message": f"{m} trace={trace}"} for s, m in problems]
    if case.get("machine") == "scale":
        return replay_scale(case)
    if case.get("machine") == "scale_binding":
        acc = Acc()
        run_scale_binding(acc, "thorough")
        return [{"signature": v["signature"], "message": v["message"]} for v in acc.violations.values()
                if all(v["case"].get(k) == case.get(k) for k in ("algorithm", "n_iter", "w", "factor"))]
    acc = Acc()
    run_fit_binding(acc, "thorough")
    return [{"signature": v["signature"], "message": v["message"]} for v in acc.violations.values()
            if v["case"].get("n_iter") == case["n_iter"] and v["case"].get("annealing") == case["annealing"]]

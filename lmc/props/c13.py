"""C13 -- estimate, personalize and simulate leave the model and the caller's inputs untouched.

E-HIST (explicit-state model checking): breadth-first search over sequences of *public* calls

    fit(cohort)  /  estimate  /  personalize x {scipy_minimize, mode_posterior, mean_posterior} x cohort x input form
    /  simulate (logistic)  /  save + load (exploration continues on the loaded object)

on one model object.  States are deduplicated on a canonical key: digest of the raw content of the object the
property speaks about (parameters, hyperparameters, population variables, set/unset status and digests of every data
and individual latent variable held by ``model.state``, structural attributes).  Every transition is executed on the
real implementation through the public API, and surrounded by deep snapshots.

Oracles around every estimate / personalize / simulate call X made after history H:

* parameters, hyperparameters, population variables and structural attributes are bit-identical before and after;
* after X every data variable and every individual latent variable of ``model.state`` is either unset or holds
  bit for bit what it held before X (nothing of the call is left behind);
* the DataFrame / Data / Dataset / AlgorithmSettings / IndividualParameters / time-point objects handed over are
  deep-equal (bit level, dtypes, labels, order) to snapshots taken before the call;
* X repeated with the very same caller objects (settings reuse) gives the bit-identical answer;
* differential: the answer of X equals bit for bit the answer of X on an object *without history* holding exactly the
  same parameters (the model loaded from the file saved just before X; when the file does not give the parameters
  back bit for bit - float64 after a joint fit, 0-d noise_std - the exact tensors are assigned to the loaded object),
  the starting points handed to ``scipy.optimize.minimize`` (recorded through a wrapper) are the same, and an
  exception is only accepted when the history-free object raises the same exception class.

Settings come in two variants: "default" (only the number of iterations) and "custom" = settings objects carrying
nested containers the algorithms complete or read (annealing on with its length left unset, sampler parameters, custom
solver options + use_jacobian=False for scipy_minimize); the snapshots are deep (nested containers included).

Process isolation: module/class-level state of the library is part of "which calls were made earlier".  Every explored
state lives in a process that executed exactly the state's history (fork of a template process that imported leaspy and
never ran it), every checked transition runs in its own fork of that process, and every reference answer is computed in
a fork of a pristine template in which nothing else was ever run; each shard is explored from a fresh interpreter.
"""

from __future__ import annotations

import os

from .. import c13_lib as L
from ..core import Acc
from ..models import MODEL_SPECS as _CATALOGUE_SPECS

# + a logistic model with a very small noise level (5e-4: nearly noise-free data), explored with a reduced menu
TINY_NOISE = "logistic_d2_s1_diag_tiny_noise"
MODEL_SPECS = dict(_CATALOGUE_SPECS, **{TINY_NOISE: dict(_CATALOGUE_SPECS["logistic_d2_s1_diag"], noise_level=5e-4)})

ID = "C13"
LEVEL = "model_checking"
RULE = (
    "explicit-state BFS over sequences of public calls (fit / estimate / personalize x 3 algorithms x cohort x input form / "
    "simulate / save+load) on one model object, every transition executed on the implementation; a state is distinct when "
    "its canonical key (digest of parameters, hyperparameters, population variables, set/unset status + digests of the data "
    "and individual latent variables held by model.state, structural attributes) is new; a transition is non-trivial when the "
    "call returned (or the fit completed) and all oracles (model snapshot, input snapshots, repeated call, history-free "
    "reference with identical parameters) were evaluated on it; non-trivial cases are counted per (model, state key, operation)"
)
ASSUMPTIONS = [
    "models are hand-written parameter sets loaded through BaseModel.load(dict); fits are tiny (cohorts A or D, 3 individuals, n_iter=3), "
    "MCMC personalizations use n_iter=10, scipy_minimize its defaults; personalization cohorts A (3 individuals), B (2), C (1)",
    "every call is given an explicit seed (the property speaks of 'parameters, inputs and the seed'); n_jobs=1",
    "fit is only a history-making operation: nothing is demanded of fit itself (a fit started on an object that still holds "
    "another cohort's latent values fails - that history is pruned and counted as an outcome)",
    "merging states with equal keys assumes the public calls read nothing else from the object (cached derived values are "
    "covered by C01); process-level state of the library is not part of the key: instead every explored state lives in a "
    "process that executed exactly its history (fork of a pristine template), every shard starts from its first operation "
    "whatever the key (so every ordered pair of operations is executed), and every reference answer comes from a process in "
    "which nothing else was ever run",
    "the history-free reference holds bit-identical parameters; whether save/load preserves parameters is C12's subject",
    "PYTHONHASHSEED=0, one torch thread; simulate only exists for the logistic kind; joint data cannot be given as a raw table",
]

ALGOS = ("scipy_minimize", "mode_posterior", "mean_posterior")

QUICK_SPECS = ("logistic_d2_s1_diag", "joint_d2_s1_diag", "logistic_d2_s0_diag", TINY_NOISE)
# thorough: depth 4 on the logistic and the joint model, depth 3 (thorough menu) on five more configurations of all kinds
THOROUGH_SPECS = (
    "logistic_d2_s1_diag", "joint_d2_s1_diag", "linear_d2_s1_diag", "shared_d2_s1_diag",
    "logistic_d2_s0_diag", "logistic_d2_s1_scalar", "joint_d1_s0_scalar", TINY_NOISE,
)
THOROUGH_DEPTH = {n: (4 if i < 2 else 3) for i, n in enumerate(THOROUGH_SPECS)}


def menu(spec, tier):
    """Operations: ["fit", cohort, form, variant], ["personalize", algo, cohort, form, variant], ... (see c13_lib).
    variant "custom" = settings carrying nested containers (annealing on / sampler parameters / solver options)."""
    forms = L.forms_for(spec)
    if "noise_level" in spec:
        # reduced menu: the calls that read the noise level (simulate) or could be disturbed by a change of it
        return [["simulate", "dataframe"], ["simulate", "random"], ["estimate"], ["personalize", "scipy_minimize", "C", forms[0], "default"], ["reload"]]
    ops = [["fit", "A", forms[0], "default"], ["fit", "D", forms[2 % len(forms)], "custom"], ["estimate"]]
    k = 0
    for algo in ALGOS:
        for cohort, variant in (("A", "default"), ("B", "custom")):
            if tier == "quick" and (algo, cohort) == ("mode_posterior", "A"):
                continue  # (mean_posterior on A is kept: a sampling personalization of a cohort of the fitted cohort's size)
            if tier == "quick" and algo == "mean_posterior":
                variant = "default"
            ops.append(["personalize", algo, cohort, forms[k % len(forms)], variant])
            k += 1
    # a single-individual cohort
    ops.append(["personalize", "scipy_minimize", "C", forms[k % len(forms)], "default"])
    if tier != "quick":
        ops.append(["personalize", "mode_posterior", "C", forms[(k + 1) % len(forms)], "default"])
        # every input form for one optimiser-based and one sampler-based personalization (default settings)
        for algo in ("scipy_minimize", "mode_posterior"):
            for f in forms:
                ops.append(["personalize", algo, "B", f, "default"])
    if spec["kind"] == "logistic":
        ops.append(["simulate", "dataframe"])
        ops.append(["simulate", "dataframe_int"])
        if tier != "quick":
            ops.append(["simulate", "random"])
    ops.append(["reload"])
    return ops


def bounds(tier):
    if tier == "quick":
        return {
            "models": list(QUICK_SPECS),
            "depth": 3,
            "menu": "fit(A), fit(D, annealing on), estimate, personalize: scipy(A), scipy(B, custom solver options), scipy(C), "
                    "mode(B, annealing on + custom sampler parameters + population samplers requested), mean(B), simulate[table with string | integer identifiers] (logistic), save+load; "
                    "input forms rotate over DataFrame with columns / DataFrame indexed by (ID, TIME) / Data / Dataset",
            "seeds": "algorithm seed 0 (+ VERIF_SEED on the first model)",
            "benchmark_kinds": "lme (random slope on / off) and constant (last / mean): every sequence of length <= 2 of personalize(A), personalize(B), "
                               "estimate x 3 request shapes, save+load on one model object",
        }
    return {
        "models": list(THOROUGH_SPECS),
        "depth": dict(THOROUGH_DEPTH),
        "menu": "fit(A), fit(D, annealing on), estimate, personalize: 3 algorithms x (cohort A default settings, cohort B custom "
                "settings = annealing on + sampler parameters + population samplers requested / custom solver options) + scipy/mode on the single-individual cohort C + every input form for scipy_minimize/B and "
                "mode_posterior/B, simulate[table with string ids | table with integer ids | random] (logistic), save+load",
        "seeds": "algorithm seed 0 (+ VERIF_SEED on the first two models)",
        "benchmark_kinds": "lme (random slope on / off) and constant (last / mean): every sequence of length <= 3 of personalize(A), personalize(B), "
                           "estimate x 3 request shapes, save+load on one model object",
    }


def shards(tier, seed):
    specs = QUICK_SPECS if tier == "quick" else THOROUGH_SPECS
    out = []
    for i, name in enumerate(specs):
        depth = 3 if tier == "quick" else THOROUGH_DEPTH[name]
        seeds = [0]
        if seed not in seeds and i < (1 if tier == "quick" else 2):
            seeds.append(int(seed))
        for s in seeds:
            m = menu(MODEL_SPECS[name], tier)
            # one shard per first operation (+ one for the transitions leaving the initial state)
            out.append({"model": name, "tier": tier, "seed": s, "depth": depth, "first": None})
            for op in m:
                out.append({"model": name, "tier": tier, "seed": s, "depth": depth, "first": op})
    from .. import c13_bench as B

    for b in B.CONFIGS:
        out.append({"bench": b, "depth": 2 if tier == "quick" else 3, "tier": tier})
    return out


# ------------------------------------------------------------------------------------------------------------
# Process layout of one shard (see c13_lib, "process isolation"):
#   worker (pool)  --subprocess-->  controller: fresh interpreter, never runs leaspy, does the BFS bookkeeping
#   controller --fork--> reference template (pristine)  --fork per request--> one reference call
#   controller --fork--> expansion template (pristine)  --fork per state--> replays the state's history
#                                                            --fork per operation--> the checked transition

def _record(acc, r, case, key_before, op):
    acc.evaluation()
    acc.transition()
    acc.outcome(r["outcome"])
    if r["nontrivial"]:
        acc.nontriv({"model": case["model"], "seed": case["seed"], "state": key_before, "op": op})
    for sig, msg, exp, obs in r["violations"]:
        acc.violation(sig, f"[{case['model']}, history {case['history']}] {msg}", case, expected=exp, observed=obs)


def explore(shard):
    """Runs in the controller process (fresh interpreter)."""
    acc = Acc()
    spec = MODEL_SPECS[shard["model"]]
    seed = shard["seed"]
    ops = menu(spec, shard["tier"])
    with L.workdir() as wd:
        ex = L.Explorer(spec, ops, wd)  # before anything else: both templates must be pristine
        try:
            start = [] if shard["first"] is None else [shard["first"]]
            max_len = 1 if shard["first"] is None else shard["depth"]  # longest history (with the checked operation)
            frontier = [start]
            seen = set()
            for depth in range(len(start), max_len):
                nxt = []
                for hist in frontier:
                    out = ex.expand(spec, hist, ops, seed, wd)
                    if "prefix_error" in out:
                        if hist != start:
                            raise RuntimeError(f"harness: history {hist} was executable when discovered, not when replayed")
                        acc.evaluation()
                        acc.outcome(f"prefix not executable: {L.op_label(hist[0])} raises {out['prefix_error']}")
                        acc.nontriv({"prefix": hist, "model": shard["model"], "seed": seed})
                        acc.nontriv({"prefix-failed": hist, "model": shard["model"], "seed": seed})
                        return acc.to_dict()
                    kb = out["key"]
                    if hist == start:
                        seen.add(kb)
                        acc.state()
                    for op, r in zip(ops, out["results"]):
                        case = {"model": shard["model"], "seed": seed, "history": hist, "op": op}
                        _record(acc, r, case, kb, op)
                        if r["nontrivial"] and len(acc.samples) < 2 and (len(hist) >= 2 or shard["first"] is None):
                            acc.sample({**case, "outcome": r["outcome"]})
                        if not r["ok"] or r["key_after"] in seen:
                            continue
                        seen.add(r["key_after"])
                        acc.state()
                        if depth + 1 < max_len:
                            nxt.append(hist + [op])
                frontier = nxt
        finally:
            ex.close()
    return acc.to_dict()


def run_shard(shard):
    """Every shard is explored in a fresh interpreter (pool workers are re-used, and process-level state of the
    library is part of what the property quantifies over)."""
    import json
    import subprocess
    import sys

    if "bench" in shard:
        # benchmark kinds (stateless models): small in-process BFS, see lmc/c13_bench.py
        from .. import c13_bench as B

        acc = Acc()
        with L.workdir() as wd:
            B.explore(shard["bench"], shard["depth"], wd, acc)
        return acc.to_dict()

    env = dict(os.environ, PYTHONHASHSEED="0", OMP_NUM_THREADS="1", MKL_NUM_THREADS="1", OPENBLAS_NUM_THREADS="1")
    root = os.path.dirname(os.path.dirname(os.path.dirname(os.path.abspath(__file__))))
    env["PYTHONPATH"] = os.pathsep.join([p for p in (env.get("PYTHONPATH"), root) if p])
    p = subprocess.run([sys.executable, "-m", "lmc.c13_inner"], input=json.dumps(shard), capture_output=True, text=True,
                       env=env, cwd=root)
    if p.returncode != 0:
        raise RuntimeError(f"C13 controller failed (exit {p.returncode}):\n{p.stderr[-4000:]}")
    return json.loads(p.stdout)


def replay(case):
    if "bench" in case:
        from .. import c13_bench as B

        with L.workdir() as wd:
            return B.replay(case, wd)
    L.start_ref_server()  # before anything of leaspy is run in this process
    try:
        spec = MODEL_SPECS[case["model"]]
        with L.workdir() as wd:
            model = L.materialize(spec, case["history"], case["seed"], wd)
            tr = L.check_transition(model, spec, case["op"], case["seed"], wd)
    finally:
        L.stop_ref_server()
    return [{"signature": s, "message": m} for s, m, _, _ in tr.violations]


def self_check():
    """Harness self-check (failure = harness error): the recording wrapper around scipy.optimize.minimize is seen by
    leaspy, alters nothing, and the deep canonical form tells apart what it must."""
    import numpy as np
    import pandas as pd

    spec = MODEL_SPECS["logistic_d2_s0_diag"]
    op = ["personalize", "scipy_minimize", "C", "data", "default"]
    out = []
    for recorder in (L.Recorder(), None):
        res = L.call(L.build_model(spec), op, L.make_inputs(spec, op, 0), recorder)
        out.append(L.result_canon(op, res))
        if recorder is not None and len(recorder.x0) != 1:
            raise RuntimeError("C13 self-check: the minimize wrapper did not see exactly one optimisation")
    if out[0] != out[1]:
        raise RuntimeError("C13 self-check: recording the optimiser's starting point changed the result")
    a = pd.DataFrame({"ID": ["x", "y"], "TIME": [1.0, 2.0]})
    variants = [a.copy(), a.iloc[::-1], a.astype({"TIME": "float32"}), a.set_index("ID"), a.assign(TIME=[1.0, np.nan]),
                a.rename(columns={"TIME": "T"}), a.reset_index(drop=True).rename(index={1: 5})]
    forms = [repr(L.canon(v)) for v in variants]
    if forms[0] != repr(L.canon(a)) or len(set(forms)) != len(forms):
        raise RuntimeError("C13 self-check: canonical form of tables is not discriminating")

"""C14 -- data ingestion yields one canonical tensor form and rejects malformed input.

E-GRID: every small table (visit / event / joint / covariate layouts) x every row permutation x missing-data
patterns x identifier types x columns-or-index form is ingested by the real ``Data.from_dataframe`` + ``Dataset``
and compared, tensor by tensor, with a pure-Python reference (dict ID -> sorted visits); the dataset is converted
back with ``Dataset.to_pandas`` and re-ingested; every catalogue malformation is applied at every row position and
must be refused with ``LeaspyDataInputError``; the caller's frame is compared with a pristine rebuild every time.
"""

from __future__ import annotations

import itertools
import warnings

import numpy as np
import pandas as pd

from leaspy.exceptions import LeaspyDataInputError
from leaspy.io.data import Data, Dataset

from .. import c14_tables as T
from ..core import Acc, digest

ID = "C14"
LEVEL = "exploration"
RULE = (
    "a case = (layout, identifier type, columns/index form, age alphabet, rows in table order, missing-entry bit "
    "mask, event / covariate alphabet, optional malformation at one row); cases are enumerated without repetition "
    "(all shapes up to the row bound x all row permutations x the stated pattern sets), so each is distinct; a case is "
    "non-trivial when the table has >= 2 rows and its row order is not the canonical (individual, age) order, or some "
    "entry is missing, or a malformation is applied"
)
ASSUMPTIONS = [
    "<= 3 individuals, <= 3 visits each, 2 features; ages carry <= 6 decimals (the documented 6-digit rounding is the identity) "
    "and the ages of one individual are distinct in single precision",
    "a row whose feature values are all missing is dropped in the visit layout (documented drop_full_nan=True) and kept as a "
    "visit without observation in the joint / covariate layouts (there the row is not 'full of nans'); individuals are "
    "ordered by first appearance among the rows that are kept",
    "'changes nothing' after Dataset.to_pandas() + re-ingestion is read per individual (to_pandas sorts its rows by ID, "
    "so the order of individuals becomes the order of that regenerated table); ages may move by the 6-digit rounding "
    "plus one single-precision ulp, values / mask / events / covariates must be bit-identical",
    "rejection is demanded only for the malformation families named by the property (duplicate visits, missing or "
    "infinite ages, non-numeric or infinite values, invalid identifiers, inconsistent events or covariates); tables that a "
    "reader documents as refused for another reason (no row left, no observed event, single covariate level) may be "
    "refused or accepted",
    "default reader options (drop_full_nan=True, sort_index=False, nb_events not given); pandas / numpy / torch as installed",
]

LAYOUT_DEFAULT = {"idtype": "str", "form": "columns", "ages": "A0"}


# ------------------------------------------------------------------------------------------
# one case


def _exc_name(e):
    return type(e).__name__


def _frames_identical(a: pd.DataFrame, b: pd.DataFrame) -> bool:
    try:
        pd.testing.assert_frame_equal(a, b, check_exact=True, check_categorical=True)
        return list(a.columns) == list(b.columns) and list(a.index.names) == list(b.index.names)
    except AssertionError:
        return False


def _np(t):
    return t.detach().cpu().numpy()


def _eq(obs, exp) -> bool:
    obs = np.asarray(obs)
    exp = np.asarray(exp)
    return obs.shape == exp.shape and bool(np.array_equal(obs.astype(np.float64), exp.astype(np.float64)))


def _brief(a):
    return np.asarray(a).tolist()


def _check_data(data, ref, order, layout):
    """Data-level observations (individual containers) against the reference, for the individuals in `order`."""
    out = []
    if dict(data.iter_to_idx) != dict(enumerate(order)):
        out.append(("Data.iter_to_idx", "does not enumerate the individuals in their order", list(enumerate(order)), dict(data.iter_to_idx)))
    if layout != "event":
        if list(data.headers) != T.FEATURES:
            out.append(("Data.headers", "feature names differ", T.FEATURES, list(data.headers)))
        nv = sum(len(ref["ind"][lab]["visits"]) for lab in order)
        if data.n_visits != nv:
            out.append(("Data.n_visits", "visit count differs", nv, data.n_visits))
        for lab in order:
            ind = data.individuals[lab]
            ages = [a for a, _ in ref["ind"][lab]["visits"]]
            vals = [v for _, v in ref["ind"][lab]["visits"]]
            got_t = np.asarray(ind.timepoints, dtype=np.float64)
            if got_t.tolist() != ages:
                kind = "visits not sorted by age" if sorted(got_t.tolist()) == ages else "ages differ"
                out.append(("IndividualData.timepoints", kind, ages, got_t.tolist()))
            elif not np.array_equal(np.asarray(ind.observations, dtype=np.float64), np.asarray(vals, dtype=np.float64).reshape(len(ages), len(T.FEATURES)), equal_nan=True):
                out.append(("IndividualData.observations", "values not aligned with ages", vals, _brief(ind.observations)))
    return out


def _check_dataset(ds, ref, order, layout, *, age_tol=False):
    """Tensor-level observations against the reference, individuals taken in `order`."""
    out = []
    exp = T.expected_tensors(ref, order)
    if ds.n_individuals != len(order):
        out.append(("Dataset.n_individuals", "count differs", len(order), ds.n_individuals))
    if layout != "event":
        for name, e in (("n_visits_per_individual", exp["n_visits_per_individual"]), ("n_visits_max", exp["n_visits_max"]),
                        ("n_visits", exp["n_visits"]), ("dimension", len(T.FEATURES))):
            o = getattr(ds, name)
            if o != e:
                out.append((f"Dataset.{name}", "count differs", e, o))
        if out:
            return out
        tp = _np(ds.timepoints)
        if tp.shape != exp["timepoints"].shape:
            out.append(("Dataset.timepoints", "shape differs", list(exp["timepoints"].shape), list(tp.shape)))
            return out
        if age_tol:
            tol = 5e-7 + np.spacing(np.abs(exp["timepoints"]).astype(np.float32)).astype(np.float64)
            ok = bool((np.abs(tp.astype(np.float64) - exp["timepoints"].astype(np.float64)) <= tol).all())
        else:
            ok = _eq(tp, exp["timepoints"])
        if not ok:
            rows_sorted = _eq(np.sort(np.where(tp == 0, np.inf, tp), axis=1), np.sort(np.where(exp["timepoints"] == 0, np.inf, exp["timepoints"]), axis=1))
            kind = "visits not sorted by age" if rows_sorted and not age_tol else "ages differ"
            out.append(("Dataset.timepoints", kind, _brief(exp["timepoints"]), _brief(tp)))
            return out
        mask = _np(ds.mask)
        if not _eq(mask, exp["mask"]):
            out.append(("Dataset.mask", "mask is not 1 exactly on the present entries of real visits", _brief(exp["mask"]), _brief(mask)))
        vals = _np(ds.values)
        if not _eq(vals, exp["values"]):
            out.append(("Dataset.values", "values not aligned with ages / not the single-precision image of the table", _brief(exp["values"]), _brief(vals)))
        for name, key in (("n_observations_per_ind_per_ft", "n_obs_ind_ft"), ("n_observations_per_ft", "n_obs_ft")):
            o = _np(getattr(ds, name))
            if not _eq(o, exp[key]):
                out.append((f"Dataset.{name}", "observation count differs", _brief(exp[key]), _brief(o)))
        if ds.n_observations != exp["n_obs"]:
            out.append(("Dataset.n_observations", "observation count differs", exp["n_obs"], ds.n_observations))
    if layout in ("event", "joint"):
        et, eb = _np(ds.event_time), _np(ds.event_bool)
        if not _eq(et, exp["event_time"]):
            out.append(("Dataset.event_time", "event times differ", _brief(exp["event_time"]), _brief(et)))
        if not _eq(eb, exp["event_bool"]):
            out.append(("Dataset.event_bool", "event indicators differ", _brief(exp["event_bool"]), _brief(eb)))
    if layout == "covariate":
        cv = _np(ds.covariates)
        if not _eq(cv, exp["covariates"]):
            out.append(("Dataset.covariates", "covariates differ", _brief(exp["covariates"]), _brief(cv)))
    return out


def _order_finding(site, observed, expected):
    """None when the orders agree; otherwise (finding, usable) where usable tells whether the sets agree."""
    observed = list(observed)
    if observed == expected:
        return None, True
    if len(observed) == len(expected) and sorted(map(repr, observed)) == sorted(map(repr, expected)) and set(observed) == set(expected):
        kind = (
            "individuals sorted by ID instead of order of first appearance"
            if observed == sorted(expected)
            else "individuals not in order of first appearance"
        )
        return (site, kind, expected, observed), True
    return (site, "set of individuals differs from the table's", expected, observed), False


def _first_appearance(index_level):
    seen = []
    for x in index_level:
        if x not in seen:
            seen.append(x)
    return seen


def _flatten_one_tuples(df):
    """(used only to keep checking after a reported failure) ('COV',) -> 'COV'."""
    if any(isinstance(c, tuple) and len(c) == 1 for c in df.columns):
        df = df.copy()
        df.columns = [c[0] if isinstance(c, tuple) and len(c) == 1 else c for c in df.columns]
        return df
    return None


def check_case(case):
    """Run one case on the implementation.  Returns (outcome label, findings, number of executions).

    finding = (site, kind, expected, observed)
    """
    layout = case["layout"]
    fk = T.factory_kws(case)
    df = T.build_frame(case)
    pristine = T.build_frame(case)
    findings = []
    n_exec = 1
    try:
        with warnings.catch_warnings():
            warnings.simplefilter("ignore")
            data = Data.from_dataframe(df, layout, factory_kws=dict(fk))
            if case.get("mal"):
                Dataset(data)  # "silently accepted" = a tensor dataset comes out
        outcome, exc = "accepted", None
    except LeaspyDataInputError as e:
        outcome, exc = "rejected:LeaspyDataInputError", e
    except Exception as e:  # noqa: BLE001 -- the exception class is the observation
        outcome, exc = f"raised:{_exc_name(e)}", e

    if not _frames_identical(df, pristine):
        findings.append(("Data.from_dataframe", "caller's table modified", "table identical to a pristine rebuild", "differs"))

    # ---------------- malformed input: must be refused with the data-input error
    if case.get("mal"):
        if outcome != "rejected:LeaspyDataInputError":
            what = "accepted" if exc is None else f"raises {_exc_name(exc)} instead of LeaspyDataInputError"
            findings.append(("Data.from_dataframe", f"malformed input {what}", "LeaspyDataInputError", None if exc is None else repr(exc)[:300]))
        return "malformed:" + outcome, findings, n_exec

    # ---------------- well-formed table
    ref = T.reference(case)
    if ref["reject"]:
        # refusal documented by the reader for a reason that the property does not name: either way is fine
        if outcome.startswith("raised:"):
            findings.append(("Data.from_dataframe", f"raises {_exc_name(exc)}", f"accepted or LeaspyDataInputError ({ref['reject']})", repr(exc)[:300]))
        return "documented-refusal:" + outcome, findings, n_exec
    if exc is not None:
        kind = "valid table rejected" if outcome.startswith("rejected") else f"raises {_exc_name(exc)}"
        findings.append(("Data.from_dataframe", kind, "accepted", repr(exc)[:300]))
        return outcome, findings, n_exec

    order = ref["order"]
    f, usable = _order_finding("Data.individuals", data.individuals.keys(), order)
    if f:
        findings.append(f)
    if not usable:
        return outcome, findings, n_exec
    obs_order = list(data.individuals.keys())
    try:
        fs = _check_data(data, ref, obs_order, layout)
    except Exception as e:  # noqa: BLE001
        fs = [("Data", f"raises {_exc_name(e)}", "readable containers", repr(e)[:300])]
    findings.extend(fs)
    if fs:
        return outcome, findings, n_exec

    try:
        with warnings.catch_warnings():
            warnings.simplefilter("ignore")
            ds = Dataset(data)
    except Exception as e:  # noqa: BLE001
        findings.append(("Dataset", f"raises {_exc_name(e)}", "tensor dataset", repr(e)[:300]))
        return outcome, findings, n_exec
    if list(ds.indices) != obs_order:
        findings.append(("Dataset.indices", "order differs from Data.individuals", obs_order, list(ds.indices)))
        return outcome, findings, n_exec
    fs = _check_dataset(ds, ref, obs_order, layout)
    findings.extend(fs)
    if fs:
        return outcome, findings, n_exec

    # ---------------- back to a table and in again
    try:
        with warnings.catch_warnings():
            warnings.simplefilter("ignore")
            back = ds.to_pandas()
    except Exception as e:  # noqa: BLE001
        findings.append(("Dataset.to_pandas", f"raises {_exc_name(e)}", "a table", repr(e)[:300]))
        return outcome, findings, n_exec
    back_pristine = back.copy(deep=True)
    n_exec += 1
    ds2 = None
    for attempt in (0, 1):
        try:
            with warnings.catch_warnings():
                warnings.simplefilter("ignore")
                ds2 = Dataset(Data.from_dataframe(back, layout, factory_kws=dict(fk)))
            break
        except Exception as e:  # noqa: BLE001
            if attempt == 0:
                findings.append(("reingest(Dataset.to_pandas())", f"raises {_exc_name(e)}", "same dataset", repr(e)[:300] + f" | columns={list(back.columns)!r}"))
                flat = _flatten_one_tuples(back)
                if flat is None:
                    return outcome, findings, n_exec
                back, back_pristine = flat, flat.copy(deep=True)  # keep checking the content behind the reported failure
                n_exec += 1
            else:
                return outcome, findings, n_exec
    if not _frames_identical(back, back_pristine):
        findings.append(("reingest(Dataset.to_pandas())", "caller's table modified", "unchanged", "differs"))
    order2 = _first_appearance(back_pristine.index.get_level_values("ID"))
    f, usable = _order_finding("reingest(Dataset.to_pandas())", ds2.indices, order2)
    if f:
        findings.append(f)
    if usable:
        if set(order2) != set(obs_order):
            findings.append(("reingest(Dataset.to_pandas())", "set of individuals changed", obs_order, order2))
        else:
            findings.extend(
                ("reingest(Dataset.to_pandas())>" + s, k, e, o)
                for (s, k, e, o) in _check_dataset(ds2, ref, list(ds2.indices), layout, age_tol=True)
            )
    return outcome, findings, n_exec


# ------------------------------------------------------------------------------------------
# signatures: "<site>|<kind>|<minimal input feature>"


def _attrs(case):
    a = []
    if case["layout"] != "visit":
        a.append(f"layout={case['layout']}")
    for k, dflt in LAYOUT_DEFAULT.items():
        if case[k] != dflt:
            a.append(f"{k}={case[k]}")
    if case.get("nan", 0):
        a.append("missing entries")
    if case.get("ev") not in (None, "E0"):
        a.append(f"ev={case['ev']}")
    if case.get("ncov") not in (None, 1):
        a.append(f"ncov={case['ncov']}")
    return a


def _reductions(case):
    """Simpler variants of a case, one attribute at a time (the rows and their order are never touched)."""
    for k, dflt in LAYOUT_DEFAULT.items():
        if case[k] != dflt:
            yield {**case, k: dflt}
    if case["idtype"] in ("cat_int", "cat_unused"):
        yield {**case, "idtype": "cat"}
    if case.get("nan", 0):
        yield {**case, "nan": 0}
    if case.get("ev") not in (None, "E0"):
        yield {**case, "ev": "E0"}
    if case.get("ncov") not in (None, 1):
        yield {**case, "ncov": 1}
    if case["layout"] in ("joint", "covariate"):
        c = {**case, "layout": "visit"}
        c.pop("ev", None)
        c.pop("ncov", None)
        yield c


_FEATURE_CACHE = {}


def minimal_feature(case, site, kind, acc=None):
    """Greedy one-attribute-at-a-time reduction: which non-default attributes of the case does (site, kind) need?"""
    key = (site, kind, tuple(_attrs(case)))
    if key in _FEATURE_CACHE:
        return _FEATURE_CACHE[key]
    cur = case
    progress = True
    while progress:
        progress = False
        for cand in _reductions(cur):
            _, fs, n = check_case(cand)
            if acc is not None:
                acc.count("reduction_runs", n)
            if any(s == site and k == kind for (s, k, _, _) in fs):
                cur = cand
                progress = True
                break
    feat = ",".join(_attrs(cur)) or "any table"
    _FEATURE_CACHE[key] = feat
    return feat


def signatures(case, findings, acc=None):
    out = []
    for site, kind, exp, obs in findings:
        if case.get("mal"):
            name = T.crossed_malformation_name(case) if case["mal"]["name"] in ("id_x_dtype", "cell_x_dtype") else case["mal"]["name"]
            feat = name if kind.startswith("malformed input") else "malformed table"
        else:
            feat = minimal_feature(case, site, kind, acc)
        out.append((f"{site}|{kind}|{feat}", exp, obs))
    return out


def replay(case):
    _, findings, _ = check_case(case)
    return [
        {"signature": sig, "message": f"expected {str(exp)[:400]} ; observed {str(obs)[:400]}"}
        for sig, exp, obs in signatures(case, findings)
    ]


# ------------------------------------------------------------------------------------------
# enumeration


def shapes(max_rows, *, min_inds=1, max_inds=3, max_visits=3, exact_rows=None):
    out = []
    for n in range(min_inds, max_inds + 1):
        for sh in itertools.product(range(1, max_visits + 1), repeat=n):
            if sum(sh) <= max_rows and (exact_rows is None or sum(sh) == exact_rows):
                out.append(list(sh))
    return sorted(out, key=lambda s: (sum(s), len(s), s))


def rows_of(shape):
    return [[k, j] for k, n in enumerate(shape) for j in range(n)]


def mixed_pattern(n_rows):
    """first canonical row entirely missing, second row without Y1, last row without Y0"""
    if n_rows == 1:
        return 0b10
    if n_rows == 2:
        return 0b0111
    return 0b11 | (0b10 << 2) | (0b01 << (2 * (n_rows - 1)))


def _nan_set(name, n_rows):
    if name == "none":
        return [0]
    if name == "mixed":
        return [mixed_pattern(n_rows)]
    if name == "none+mixed":
        return [0, mixed_pattern(n_rows)]
    if name == "all":
        return list(range(2 ** (2 * n_rows)))
    raise ValueError(name)


MALFORM_ORDERS = {
    "canonical": [[0, 0], [0, 1], [1, 0], [1, 1], [2, 0]],
    "reversed": [[2, 0], [1, 1], [1, 0], [0, 1], [0, 0]],
    "interleaved": [[1, 1], [0, 0], [2, 0], [0, 1], [1, 0]],
}


def bounds(tier):
    q = tier == "quick"
    return {
        "individuals": "<= 3", "visits_per_individual": "<= 3", "features": 2,
        "rows_all_permutations": "<= 5 rows (all 1..3 x 1..3 shapes), visit / joint / covariate layouts, patterns {none, mixed} (5-row joint / covariate tables: mixed only); <= 4 rows again with age alphabet A1, events E1, 2 covariates" if q
        else "<= 6 rows (all shapes), visit / joint / covariate layouts, patterns {none, mixed}, age alphabets A0 and A1, event alphabets E0 and E1, 1 and 2 covariates",
        "missing_patterns_all": "every pattern of every shape with <= 3 rows x every permutation" if q else "every pattern of every shape with <= 4 rows (covariate layout: <= 3 rows) x every permutation",
        "identifier_types": sorted(T.ID_TYPES), "forms": ["columns", "index"] + ["columns + " + f.replace("_", " ") for f in T.LABEL_FORMS],
        "event_layout": "1..3 individuals, all row orders, indicator alphabets E0..E4",
        "crossed_malformations": "every identifier malformation (missing nan/None/NA, empty, negative, float, fractional, mixed) x every identifier dtype "
        "(object text, numeric-looking text, int64, string, Int64, category of text / of int / with unused categories) x columns/index form, and "
        "every bad cell (missing, +inf, -inf, text) x column role (TIME, value, event time, event indicator, covariate) x container dtype "
        "(float64, float32, Float64, Int64, object, string, category): at every row position, in every layout, 2 row orders; "
        "combinations that pandas cannot represent are skipped and counted (counter not_constructible_total)",
        "malformations": f"{len(T.MALFORMATIONS)} kinds x every row position x row/individual scope x 3 row orders x 2 missing patterns, 5-row base table (3 rows in the event layout)",
    }


def shards(tier, seed):
    q = tier == "quick"
    out = []
    voffs = [0.0] + ([seed / 1024.0] if seed else [])

    def perm(layout, shape, nans, **kw):
        n = sum(shape)
        parts = 1 if n <= 5 else 4
        for p in range(parts):
            out.append({"family": "perm", "layout": layout, "shape": shape, "nans": nans, "part": [p, parts],
                        **LAYOUT_DEFAULT, **kw})

    # (1) every row permutation
    for layout in ("visit", "joint", "covariate"):
        extra = {"joint": {"ev": "E0"}, "covariate": {"ncov": 1}}.get(layout, {})
        for sh in shapes(5 if q else 6, min_inds=2 if layout == "covariate" else 1):
            for voff in voffs if layout == "visit" else [0.0]:  # the seed extends the value alphabet (visit layout)
                # quick tier: the 5-row tables of the two slower layouts are run with the mixed pattern only
                nans = "mixed" if q and layout != "visit" and sum(sh) == 5 else "none+mixed"
                perm(layout, sh, nans, voff=voff, **extra)
        extra = {"joint": {"ev": "E1"}, "covariate": {"ncov": 2}}.get(layout, {})
        for sh in shapes(4 if q else 6, min_inds=2 if layout == "covariate" else 1):
            perm(layout, sh, "mixed", **{**extra, "ages": "A1"})
    # (2) every missing-data pattern
    for layout in ("visit", "joint", "covariate"):
        extra = {"joint": {"ev": "E0"}, "covariate": {"ncov": 1}}.get(layout, {})
        for sh in shapes(3 if q or layout == "covariate" else 4, min_inds=2 if layout == "covariate" else 1):
            n = sum(sh)
            parts = 1 if n <= 3 else 4
            for p in range(parts):
                out.append({"family": "nan", "layout": layout, "shape": sh, "nans": "all", "part": [p, parts], **LAYOUT_DEFAULT, **extra})
    # (3) identifier types x form
    for idtype in T.ID_TYPES:
        for form in ("columns", "index"):
            for layout in ("visit", "joint", "covariate"):
                extra = {"joint": {"ev": "E1"}, "covariate": {"ncov": 2}}.get(layout, {})
                # [1, 2, 1] / [1, 2, 2] with the mixed pattern: the only visit of individual 0 has no value at all
                for sh in (([[2, 1, 1], [1, 2, 1]] if idtype.startswith("cat") else [[2, 1, 1]]) if q else [[2, 1, 1], [1, 2, 1], [1, 2, 2]]):
                    out.append({"family": "perm", "layout": layout, "shape": sh, "nans": "mixed", "part": [0, 1],
                                "idtype": idtype, "form": form, "ages": "A0", **extra})
            out.append({"family": "event", "idtype": idtype, "form": form})
    # (3b) row labels of the table (ID / TIME as columns): reversed, sparse, text, all equal
    for form in T.LABEL_FORMS:
        for layout in ("visit", "joint", "covariate"):
            extra = {"joint": {"ev": "E1"}, "covariate": {"ncov": 2}}.get(layout, {})
            for sh in ([[2, 1, 1]] if q else [[2, 1, 1], [1, 2, 2]]):
                out.append({"family": "perm", "layout": layout, "shape": sh, "nans": "mixed", "part": [0, 1],
                            "idtype": "str", "form": form, "ages": "A0", **extra})
        out.append({"family": "event", "idtype": "str", "form": form})
    # (3c) joint layout: individuals sharing the same event time and indicator (every row order)
    for ev in ("E5", "E6"):
        for sh in ([[1, 1], [2, 1, 1]] if q else [[1, 1], [1, 1, 1], [2, 1, 1], [1, 2, 2]]):
            out.append({"family": "perm", "layout": "joint", "shape": sh, "nans": "mixed", "part": [0, 1],
                        "idtype": "str", "form": "columns", "ages": "A0", "ev": ev})
    # (4) malformations
    for layout in ("visit", "event", "joint", "covariate"):
        for order in MALFORM_ORDERS:
            out.append({"family": "malform", "layout": layout, "order": order})
    # (5) identifier malformation x identifier dtype x form, bad cell x column role x container dtype: every row, every layout
    for layout in ("visit", "event", "joint", "covariate"):
        for order in ("canonical", "interleaved"):
            out.append({"family": "crossed", "what": "id", "layout": layout, "order": order})
            out.append({"family": "crossed", "what": "cell", "layout": layout, "order": order})
    key = lambda s: (sum(s["shape"]) if "shape" in s else 3, s["family"])  # noqa: E731
    return sorted(out, key=key)


def _cases_of(shard):
    fam = shard["family"]
    if fam in ("perm", "nan"):
        sh = shard["shape"]
        base = rows_of(sh)
        p, parts = shard["part"]
        common = {k: shard[k] for k in ("layout", "idtype", "form", "ages", "ev", "ncov", "voff") if k in shard}
        if not common.get("voff"):
            common.pop("voff", None)
        for i, rows in enumerate(itertools.permutations(base)):
            if i % parts != p:
                continue
            for nan in _nan_set(shard["nans"], len(base)):
                yield {**common, "rows": [list(r) for r in rows], "nan": nan, "mal": None}
    elif fam == "event":
        for n in (1, 2, 3):
            for rows in itertools.permutations([[k, 0] for k in range(n)]):
                for ev in T.EVENTS:
                    yield {"layout": "event", "idtype": shard["idtype"], "form": shard["form"], "ages": "A0",
                           "rows": [list(r) for r in rows], "nan": 0, "ev": ev, "mal": None}
    elif fam == "malform":
        layout = shard["layout"]
        rows = MALFORM_ORDERS[shard["order"]]
        if layout == "event":
            rows = [r for r in rows if r[1] == 0]
        for nan in ([0] if layout == "event" else [0, mixed_pattern(len(rows))]):
            for ev in (["E0", "E1"] if layout in ("event", "joint") else [None]):
                base = {"layout": layout, **LAYOUT_DEFAULT, "rows": rows, "nan": nan}
                if ev:
                    base["ev"] = ev
                if layout == "covariate":
                    base["ncov"] = 1
                yield {**base, "mal": None}  # the base table itself is well formed
                for name, (_, _, modes) in T.MALFORMATIONS.items():
                    for mode in modes:
                        for i in range(len(rows)):
                            if T.malformation_applies(base, name, i, mode):
                                yield {**base, "mal": {"name": name, "row": i, "mode": mode}}
    elif fam == "crossed":
        layout = shard["layout"]
        rows = MALFORM_ORDERS[shard["order"]]
        if layout == "event":
            rows = [r for r in rows if r[1] == 0]
        base = {"layout": layout, "ages": "A0", "rows": rows, "nan": 0 if layout == "event" else mixed_pattern(len(rows))}
        if layout in ("event", "joint"):
            base["ev"] = "E1"
        if layout == "covariate":
            base["ncov"] = 1
        if shard["what"] == "id":
            for idtype in T.ID_TYPES:
                for form in ("columns", "index"):
                    for kind, scope in T.ID_MALFORMATIONS.items():
                        for i in range(len(rows) if scope == "row" else 1):
                            yield {**base, "idtype": idtype, "form": form,
                                   "mal": {"name": "id_x_dtype", "kind": kind, "row": i, "mode": scope}}
        else:
            for role, (layouts, _, _) in T.CELL_ROLES.items():
                if layout not in layouts:
                    continue
                for form in (("columns", "index") if role == "TIME" else ("columns",)):
                    for bad in T.CELL_BAD:
                        for container in T.CELL_CONTAINERS:
                            for i in range(len(rows)):
                                yield {**base, "idtype": "str", "form": form,
                                       "mal": {"name": "cell_x_dtype", "role": role, "bad": bad, "container": container, "row": i, "mode": "row"}}
    else:  # pragma: no cover
        raise ValueError(fam)


def _nontrivial(case):
    rows = [tuple(r) for r in case["rows"]]
    return bool(case.get("mal")) or (len(rows) >= 2 and (rows != sorted(rows) or case.get("nan", 0) != 0))


def run_shard(shard):
    acc = Acc()
    # one written-out case per shard (the runner keeps the first four): a permuted table with missing entries, or a malformed one
    want_sample = shard.get("idtype", "str") == "str" and shard.get("form", "columns") == "columns"
    if shard["family"] == "malform":
        want_sample = shard["order"] == "interleaved" and shard["layout"] == "joint"
    for case in _cases_of(shard):
        try:
            outcome, findings, n_exec = check_case(case)
        except T.NotConstructible:
            # the combination cannot be written down in pandas: skipped explicitly, and counted
            acc.count("not_constructible:" + T.crossed_malformation_name(case))
            acc.count("not_constructible_total")
            continue
        acc.evaluation(n_exec)
        acc.outcome(outcome)
        acc.count("cases:" + shard["family"] + ":" + case["layout"])
        if _nontrivial(case):
            acc.nontriv(digest(case))
            rows = [tuple(r) for r in case["rows"]]
            if want_sample and len(rows) >= 3 and rows != sorted(rows) and (case["mal"] or case["nan"] or case["layout"] == "event"):
                frame = T.build_frame(case).reset_index()
                acc.sample({"case": case, "columns": [str(c) for c in frame.columns], "table": frame.astype(str).values.tolist(), "outcome": outcome})
                want_sample = False
        for sig, exp, obs in signatures(case, findings, acc):
            acc.violation(sig, f"expected {str(exp)[:500]} ; observed {str(obs)[:500]}", case, expected=exp, observed=obs)
    return acc.to_dict()


# ------------------------------------------------------------------------------------------
# harness self-check: the reference on a hand-written table


def self_check():
    case = {"layout": "joint", "idtype": "str", "form": "columns", "ages": "A0", "ev": "E0",
            "rows": [[1, 1], [0, 0], [1, 0]], "nan": 0b000100, "mal": None}
    # canonical rows: (0,0) (1,0) (1,1); bit 2 = row (1,0), feature Y0
    ref = T.reference(case)
    assert ref["order"] == ["S10", "S2"], ref["order"]
    assert [a for a, _ in ref["ind"]["S10"]["visits"]] == [60.0, 61.5]
    v = ref["ind"]["S10"]["visits"][0][1]
    assert v[0] != v[0] and v[1] == 0.61, v
    exp = T.expected_tensors(ref, ref["order"])
    assert exp["mask"].tolist() == [[[0.0, 1.0], [1.0, 1.0]], [[1.0, 1.0], [0.0, 0.0]]]
    assert exp["timepoints"].tolist() == [[60.0, 61.5], [np.float32(70.1).item(), 0.0]]
    assert exp["event_bool"].tolist() == [[False], [True]] and exp["event_time"].tolist() == [[75.5], [80.0]]
    assert exp["n_obs"] == 5 and exp["n_visits"] == 3
    df = T.build_frame(case)
    assert df["ID"].tolist() == ["S10", "S2", "S10"] and df["TIME"].tolist() == [61.5, 70.1, 60.0]

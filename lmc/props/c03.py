"""C03 -- every sampler step is a Metropolis-Hastings transition for the documented target.

E-ENV: the real `sample()` of every sampler kind is run under scripted environment answers (normal and uniform draws,
shuffle order): the default script plus all scripts with <= k deviations from it, tie scripts (u = alpha, its float
neighbours) and locality pairs (one individual's draws changed).  Three recording spies (never altering anything):
the RNG seam, `State.put`, and the sampler's own metropolis step (alpha in, decision out).

Monitors per decision:
 (1) the proposal is put on the sampler's variable, on the targeted block only, and equals std[block] * z exactly;
 (2) alpha == exp(-(d_attach + temperature_inv * d_regul)) with both differences evaluated from scratch before/after;
 (3) decision == (u < alpha) including exact ties; one uniform element consumed per decision, block-size normals;
 (4) per-individual locality: another individual's draws do not change this individual's decision or value;
 (5) after the step every value equals its from-scratch evaluation on where(accepted, proposed, before).
"""

from __future__ import annotations

import itertools
import math

import torch

import leaspy.models  # noqa: F401
from leaspy.variables.state import State

from .. import seams, statemc
from ..core import Acc
from ..models import MODEL_SPECS, build_model, cohort_dataset, fresh_state
from ..oracle import same_tensor
from ..samplers_util import POP_KINDS, latent_variables, make_sampler, pop_blocks

ID = "C03"
LEVEL = "model_checking"
RULE = (
    "deviation-bounded enumeration of environment scripts (default answers + <=k deviations over small z/u alphabets, "
    "tie scripts, shuffle orders, locality pairs) x sampler kind x latent variable x model kind x start state x inverse "
    "temperature; every sample() call is a transition of the real sampler+state; a case is non-trivial when its "
    "(sampler, variable, temperature, start, decision pattern, deviation class) is new"
)
ASSUMPTIONS = [
    "draw alphabets: z in {-1.5, 0, 0.7, 2.5}, u in {0, 0.3, 1-2^-24} + ties; nothing is claimed about the chain's invariant law",
    "mixture model: individual samplers in both tiers (cluster-responsibility-weighted regularity as documented target), population samplers in the thorough tier",
    "alpha compared with the from-scratch formula at rtol 1e-5 (bit-equal on the reference tree); decisions compared exactly with u < alpha(implementation)",
    "start states: prior mode, a perturbed state, the states after one and two scripted sweeps",
]

Z_ALPHABET = [-1.5, 0.0, 0.7, 2.5]
U_ALPHABET = [0.0, 0.3, 1.0 - 2.0 ** -24]
TEMPS = {"quick": [1.0, 0.5, 0.1], "thorough": [1.0, 0.5, 1.0 / 3.0, 0.1]}


def bounds(tier):
    return {"deviations": "2 for <=2 decisions else 1" if tier == "quick" else 2, "temperatures": TEMPS[tier],
            "starts": ["mode", "perturbed", "after1sweep", "sharp (tiny noise, tight priors, 20-50x proposal scale: overflowing ratios)"] + ([] if tier == "quick" else ["after2sweeps"]),
            "models": "representative kinds" if tier == "quick" else "all catalogue kinds incl. mixture"}


# ------------------------------------------------------------------------------------------

def universe(model_name, ids):
    spec = MODEL_SPECS[model_name]
    model = build_model(spec)
    ds = cohort_dataset(ids, spec)
    st = fresh_state(model, ds)
    dag = st.dag
    base = {k: st._values[k] for k in dag.sorted_variables_names if dag[k].is_settable and st._values[k] is not None}
    u = statemc.Universe(dag, {}, {}, len(ids), base=base)
    u.pop_vars, u.ind_vars = latent_variables(st)
    return u


def perturb(u, st, ref):
    """A deterministic non-mode start: every latent variable shifted by a fixed pattern."""
    for i, v in enumerate(u.ind_vars + u.pop_vars):
        val = ref.indep[v]
        d = torch.linspace(0.3, -0.2, val.numel()).reshape(val.shape).to(val.dtype) * (4.0 if v == "tau" else 1.0)
        if v in u.pop_vars:
            d = d * 0.2
        new = val + d
        with st.auto_fork(None):
            st[v] = new.clone()
        ref.indep[v] = new
        ref.fork = None


class Spies:
    def __init__(self):
        self.puts = []
        self.steps = []


def spied_sample(st, sampler, env, T_inv):
    spies = Spies()
    orig_put = State.put

    def put(self, variable_name, variable_value, *, indices=(), accumulate=False):
        before = self._values[variable_name]
        before = None if before is None else before.clone()
        orig_put(self, variable_name, variable_value, indices=indices, accumulate=accumulate)
        spies.puts.append((variable_name, variable_value.clone(), tuple(indices), accumulate, before,
                           self._values[variable_name].clone()))

    is_ind = hasattr(sampler, "n_patients")
    step_name = "_group_metropolis_step" if is_ind else "_metropolis_step"
    orig_step = getattr(sampler, step_name)

    def step(alpha):
        out = orig_step(alpha)
        spies.steps.append((torch.as_tensor(alpha).clone(), torch.as_tensor(out).clone()))
        return out

    State.put = put
    setattr(sampler, step_name, step)
    try:
        with seams.seam(env):
            sampler.sample(st, temperature_inv=T_inv)
    finally:
        State.put = orig_put
        delattr(sampler, step_name)
    return spies


def _alpha_ref(u, indep_before, indep_after, v, is_ind, T_inv):
    a_name, r_name = ("nll_attach_ind", f"nll_regul_{v}_ind") if is_ind else ("nll_attach", f"nll_regul_{v}")
    targets = [a_name, r_name] + (["nll_regul_ind_sum_ind"] if is_ind else [])
    b = u.evaluate(indep_before, targets)
    a = u.evaluate(indep_after, targets)
    from leaspy.utils.weighted_tensor import WeightedTensor

    def t(x):
        return x.weighted_value if isinstance(x, WeightedTensor) else x

    def regul(vals):
        r = t(vals[r_name])
        if is_ind and r.ndim == 2:
            # mixture model: one regularity term per cluster, weighted by the individual's cluster responsibilities
            # (softmax of minus the per-cluster total regularity), as documented in the individual sampler
            tot = vals["nll_regul_ind_sum_ind"]
            tot = tot.value if isinstance(tot, WeightedTensor) else tot
            probs = torch.nn.Softmax(dim=1)(torch.clamp(-tot, -100.0))
            r = (probs * r).sum(dim=1)
        return r

    return torch.exp(-1 * ((regul(a) - regul(b)) * T_inv + (t(a[a_name]) - t(b[a_name]))))


def analyse_individual_from_observables(u, v, sampler, std_before, zc, uc, cur, indep, T_inv, st_after):
    """Fallback of `analyse` for the individual sampler when the internals are organised differently: only the draws
    consumed (environment log) and the values after the step are used; the acceptance ratio is the from-scratch one, so a
    uniform draw within its float32 rounding is not judged."""
    cls = type(sampler).__name__
    n = u.n_ind
    probs = []
    z_all = [x for c in zc for x in c[3]]
    u_all = [x for c in uc for x in c[3]]
    numel = n
    for d in sampler.shape:
        numel *= d
    if len(z_all) != numel or len(u_all) != n or st_after is None:
        probs.append((f"{cls}.sample|wrong number of proposals or draws|", f"normal elements={len(z_all)} (block size {numel}) uniform elements={len(u_all)} for {n} decisions"))
        return probs, None, None
    z = torch.tensor(z_all, dtype=torch.float32).reshape((n, *sampler.shape))
    prop = cur + std_before[(slice(None),) + (None,) * sampler.ndim] * z
    fin = st_after._values[v]
    indep_after = dict(indep)
    indep_after[v] = prop
    alpha_ref = _alpha_ref(u, indep, indep_after, v, True, T_inv).to(torch.float64).reshape(-1)
    sampler._lmc_alpha_from_scratch = alpha_ref.to(torch.float32)  # stands for the (unseen) implementation ratios downstream
    uu = torch.tensor(u_all, dtype=torch.float64)
    out = []
    for i in range(n):
        if same_tensor(fin[i], prop[i]) and not same_tensor(prop[i], cur[i]):
            out.append(True)
        elif same_tensor(fin[i], cur[i]):
            out.append(False)
        else:
            probs.append((f"{cls}.sample|value after the step is neither the proposal nor the previous value|", f"individual {i}: {fin[i].tolist()}"))
            return probs, None, None
        a = float(alpha_ref[i])
        if a == a and abs(float(uu[i]) - a) > 1e-5 * max(abs(a), 1e-30) and out[i] != (float(uu[i]) < a):
            probs.append((f"{cls}.sample|decision differs from u < alpha|no tie", f"individual {i}: u={float(uu[i])!r} alpha (from scratch)={a!r} accepted={out[i]}"))
        if a != a and out[i]:
            probs.append((f"{cls}.sample|decision differs from u < alpha|acceptance ratio is NaN", f"individual {i} accepted"))
    acc_rec = sampler.acceptation_history[-1].to(torch.bool)
    if acc_rec.tolist() != out:
        probs.append((f"{cls}.sample|acceptance record differs from the decisions|", f"{acc_rec.tolist()} vs {out}"))
    mask = torch.tensor(out).reshape((n,) + (1,) * (cur.ndim - 1))
    return probs, out, torch.where(mask, prop, cur)


def analyse(u, kind, v, sampler, std_before, env, spies, ref_before, T_inv, st_after=None):
    """Check monitors (1)-(3) for one sample() call. Returns (problems, decisions(list of bool), new reference value)."""
    is_ind = v in u.ind_vars
    probs = []
    cls = type(sampler).__name__
    zc, uc, sc = env.calls("z"), env.calls("u"), env.calls("s")
    cur = ref_before.indep[v]
    indep = dict(ref_before.indep)
    decisions = []
    if is_ind:
        n = u.n_ind
        if len(spies.puts) != 1 or len(zc) != 1 or len(uc) != 1 or len(spies.steps) != 1:
            # The step is not organised as the spies expect (one State.put, one call of the group metropolis step).  That is
            # not a violation by itself: judge the step from what the property can observe - the draws handed out by the
            # environment and the values held by the state afterwards.
            return analyse_individual_from_observables(u, v, sampler, std_before, zc, uc, cur, indep, T_inv, st_after)
        name, val, idx, accumulate, before, after = spies.puts[0]
        z = torch.tensor(zc[0][3], dtype=torch.float32).reshape((n, *sampler.shape))
        exp_delta = std_before[(slice(None),) + (None,) * sampler.ndim] * z
        if name != v or idx != () or not accumulate:
            probs.append((f"{cls}.sample|proposal not an accumulating update of the sampled variable|", f"{name} {idx} {accumulate}"))
        if zc[0][2] != (n, *sampler.shape):
            probs.append((f"{cls}.sample|number of normal draws differs from the block size|", f"{zc[0][2]}"))
        elif not same_tensor(val, exp_delta):
            probs.append((f"{cls}.sample|proposal is not std * z on the targeted block|", f"{val.tolist()} vs {exp_delta.tolist()}"))
        prop = cur + exp_delta
        if not same_tensor(after, prop):
            probs.append((f"{cls}.sample|proposed value differs from current + std * z|", ""))
        indep_after = dict(indep)
        indep_after[v] = prop
        alpha_ref = _alpha_ref(u, indep, indep_after, v, True, T_inv)
        alpha, out = spies.steps[0]
        if len(uc[0][3]) != n:
            probs.append((f"{cls}.sample|not one uniform draw per decision|", f"{len(uc[0][3])} for {n} individuals"))
            return probs, None, None
        uu = torch.tensor(uc[0][3], dtype=torch.float32)
        if alpha.shape != (n,) or not torch.allclose(alpha.to(torch.float64), alpha_ref.to(torch.float64), rtol=1e-5, atol=1e-30, equal_nan=True):
            tclass = "temperature 1" if T_inv == 1.0 else "tempered"
            probs.append((f"{cls}.sample|acceptance ratio differs from exp(-(d_attach + T_inv * d_regul))|{tclass}",
                          f"alpha={alpha.tolist()} reference={alpha_ref.tolist()} T_inv={T_inv}"))
        exp_dec = uu < alpha
        if not torch.equal(out.to(torch.bool), exp_dec):
            tie = bool((uu == alpha).any())
            probs.append((f"{cls}.sample|decision differs from u < alpha|{'tie' if tie else 'no tie'}", f"u={uu.tolist()} alpha={alpha.tolist()} got={out.tolist()}"))
        acc_rec = sampler.acceptation_history[-1].to(torch.bool)
        if not torch.equal(acc_rec, out.to(torch.bool)):
            probs.append((f"{cls}.sample|acceptance record differs from the decisions|", ""))
        mask = out.to(torch.bool).reshape((n,) + (1,) * (cur.ndim - 1))
        new = torch.where(mask, prop, cur)
        return probs, [bool(x) for x in out.tolist()], new
    # population samplers
    blocks = pop_blocks(sampler)
    order = [blocks[i] for i in sc[0][3]] if sc else blocks
    if sorted(order) != sorted(blocks):
        probs.append((f"{cls}.sample|blocks visited are not a permutation of all blocks|", f"{order}"))
        return probs, None, None
    if not (len(spies.puts) == len(zc) == len(uc) == len(spies.steps) == len(blocks)):
        probs.append((f"{cls}.sample|wrong number of proposals or draws|", f"puts={len(spies.puts)} z={len(zc)} u={len(uc)} blocks={len(blocks)}"))
        return probs, None, None
    acc_rec = sampler.acceptation_history[-1]
    for j, idx in enumerate(order):
        name, val, pidx, accumulate, before, after = spies.puts[j]
        shape_idx = tuple(sampler.shape[len(idx):])
        if zc[j][2] != shape_idx:
            probs.append((f"{cls}.sample|number of normal draws differs from the block size|", f"{zc[j][2]} vs {shape_idx}"))
            return probs, None, None
        z = torch.tensor(zc[j][3], dtype=torch.float32).reshape(shape_idx)
        exp_delta = std_before[idx] * z
        if name != v or tuple(pidx) != tuple(idx) or not accumulate:
            probs.append((f"{cls}.sample|proposal not an accumulating update of the targeted block|", f"{name} {pidx} vs {idx}"))
        if not same_tensor(val, exp_delta):
            probs.append((f"{cls}.sample|proposal is not std * z on the targeted block|", f"{val.tolist()} vs {exp_delta.tolist()}"))
        prop = cur + exp_delta if idx == () else cur.index_put(tuple(map(torch.tensor, idx)), exp_delta, accumulate=True)
        if not same_tensor(after, prop):
            probs.append((f"{cls}.sample|proposed value differs from current + std * z on the block only|", ""))
        indep_after = dict(indep)
        indep_after[v] = prop
        alpha_ref = _alpha_ref(u, indep, indep_after, v, False, T_inv)
        alpha, out = spies.steps[j]
        if len(uc[j][3]) != 1:
            probs.append((f"{cls}.sample|not one uniform draw per decision|", f"{len(uc[j][3])}"))
            return probs, None, None
        uu = torch.tensor(uc[j][3][0], dtype=torch.float32)
        if not torch.allclose(alpha.to(torch.float64).reshape(()), alpha_ref.to(torch.float64).reshape(()), rtol=1e-5, atol=1e-30, equal_nan=True):
            tclass = "temperature 1" if T_inv == 1.0 else "tempered"
            probs.append((f"{cls}.sample|acceptance ratio differs from exp(-(d_attach + T_inv * d_regul))|{tclass}",
                          f"block {idx}: alpha={alpha.tolist()} reference={alpha_ref.tolist()} T_inv={T_inv}"))
        exp_dec = bool(uu < alpha)
        if bool(out) != exp_dec:
            probs.append((f"{cls}.sample|decision differs from u < alpha|{'tie' if bool(uu == alpha) else 'no tie'}",
                          f"block {idx}: u={uu.item()!r} alpha={alpha.item()!r} got={bool(out)}"))
        rec = acc_rec[idx]
        if bool(rec.all() if rec.ndim else rec) != bool(out) and not probs:
            probs.append((f"{cls}.sample|acceptance record differs from the decisions|", f"block {idx}"))
        decisions.append(bool(out))
        if bool(out):
            cur = prop
            indep = indep_after
    return probs, decisions, cur


def run_case(u, kind, v, T_inv, start, script, ids_label=None, want_alphas=False):
    """One scripted sample() from a given start state. Returns dict(problems, decisions, alphas, value rows, log)."""
    st, ref = statemc.initial(u, "REF")
    if start == "perturbed":
        perturb(u, st, ref)
    elif start.startswith("after"):
        n_sweeps = int(start[5])
        for s_i in range(n_sweeps):
            for w in sorted(u.ind_vars + u.pop_vars):
                k2 = "gibbs" if w in u.ind_vars else kind if kind in POP_KINDS else "gibbs"
                smp = make_sampler(k2, st, w, u.n_ind if w in u.ind_vars else None)
                env0 = seams.Scripted({"z": 0.7 if s_i == 0 else -0.4, "u": 0.3})
                with seams.seam(env0):
                    smp.sample(st, temperature_inv=1.0)
        for w in u.ind_vars + u.pop_vars:
            ref.indep[w] = st._values[w].clone()
        ref.fork = None
    is_ind = v in u.ind_vars
    if start == "sharp":
        # a state far from equilibrium: tiny noise and tight priors, so that moves change the attachment and the
        # regularity by hundreds of nats (acceptance ratios overflow to +inf / underflow to 0, possibly one factor each way)
        perturb(u, st, ref)
        for pname, factor in (("noise_std", 0.02), ("tau_std", 0.02), ("xi_std", 0.02)):
            if pname in ref.indep and ref.indep[pname] is not None:
                new = ref.indep[pname] * factor
                with st.auto_fork(None):
                    st[pname] = new.clone()
                ref.indep[pname] = new
        ref.fork = None
    sampler = make_sampler(kind, st, v, u.n_ind if is_ind else None)
    if start == "sharp":
        sampler.std = sampler.std * (50.0 if is_ind else 20.0)
    std_before = sampler.std.clone()
    env = seams.Scripted(script) if not isinstance(script, seams.Env) else script
    try:
        spies = spied_sample(st, sampler, env, T_inv)
    except Exception as e:
        return {"problems": [(f"{type(sampler).__name__}.sample|raises {type(e).__name__}|", f"{e}")], "decisions": None}
    probs, decisions, new = analyse(u, kind, v, sampler, std_before, env, spies, ref, T_inv, st_after=st)
    alphas = [a.clone() for a, _ in spies.steps]
    if not alphas and getattr(sampler, "_lmc_alpha_from_scratch", None) is not None:
        alphas = [sampler._lmc_alpha_from_scratch]
    out = {"problems": probs, "decisions": decisions, "alphas": alphas, "new": new, "env": env}
    if new is not None and not probs:
        ref.indep[v] = new
        ref.fork = None
        bad = statemc.check_all(u, st, ref, deep=True)
        for n, why, got, exp in bad[:1]:
            import re

            out["problems"].append((f"{type(sampler).__name__}.sample|state after the step: {re.sub(chr(39) + '[^' + chr(39) + ']*' + chr(39), '<var>', why)}|", f"'{n}' {why}"))
    return out


def scripts(n_dec, n_z_elems_per_call, n_z_calls, is_ind, max_dev):
    """Default script and all scripts with <= max_dev deviations (z per element for individual samplers, per call
    otherwise; u per decision)."""
    points = []
    if is_ind:
        for i in range(n_dec):
            points.append((f"u:0:{i}", U_ALPHABET))
            points.append((f"z:0:{i * (n_z_elems_per_call // n_dec)}", Z_ALPHABET))
    else:
        for c in range(n_dec):
            points.append((f"u:{c}", U_ALPHABET))
            points.append((f"z:{c}", Z_ALPHABET))
    yield {}
    for k in range(1, max_dev + 1):
        for combo in itertools.combinations(range(len(points)), k):
            alph = [[x for x in points[i][1] if x not in (0.7, 0.3)] for i in combo]
            for vals in itertools.product(*alph):
                yield {points[i][0]: x for i, x in zip(combo, vals)}


def explore(u, kind, v, acc, tier, model_name):
    is_ind = v in u.ind_vars
    st, _ = statemc.initial(u, "REF")
    sampler = make_sampler(kind, st, v, u.n_ind if is_ind else None)
    n_dec = u.n_ind if is_ind else len(pop_blocks(sampler))
    n_z_elems = u.n_ind * int(torch.tensor(sampler.shape).prod()) if is_ind else None
    max_dev = 1 if tier == "quick" else 2
    if tier == "quick" and n_dec <= 2:
        max_dev = 2
    if not is_ind and n_dec > 4:
        max_dev = 1
    starts = ["mode", "perturbed", "after1sweep", "sharp"] if tier == "quick" else ["mode", "perturbed", "after1sweep", "after2sweeps", "sharp"]
    shuffles = ["identity"] if is_ind or n_dec == 1 else (["identity", "reverse"] if n_dec > 3 else [list(p) for p in itertools.permutations(range(n_dec))])
    base = {"model": model_name, "ids": u.ids, "kind": kind, "variable": v}
    cname = type(sampler).__name__

    def record(res, case, devclass):
        acc.evaluation()
        acc.transition()
        acc.state()
        if res["decisions"] is not None:
            acc.nontriv(repr((model_name, kind, v, case["T_inv"], case["start"], tuple(res["decisions"]), devclass)))
            acc.outcome(f"{cname}:{''.join('A' if d else 'R' for d in res['decisions'])}")
        for sig, msg in res["problems"]:
            acc.violation(sig, msg, case)

    for T_inv in TEMPS[tier]:
        for start in starts:
            for sh in shuffles:
                # ---- deviation-bounded scripts
                base_res = None
                for dev in scripts(n_dec, n_z_elems, n_dec, is_ind, max_dev if sh == shuffles[0] else 0):
                    script = {"z": 0.7, "u": 0.3, "dev": dev, "shuffle": sh}
                    case = dict(base, T_inv=T_inv, start=start, script=script)
                    res = run_case(u, kind, v, T_inv, start, script)
                    record(res, case, "default" if not dev else "dev%d" % len(dev))
                    if not dev:
                        base_res = res
                        if len(acc.samples) < 2:
                            acc.sample(case)
                if base_res is None or base_res["decisions"] is None or sh != shuffles[0]:
                    continue
                # ---- tie scripts: u = alpha (must be rejected), float neighbours on each side
                alphas = base_res["alphas"]
                if not alphas:
                    continue
                flat = alphas[0].reshape(-1).tolist() if is_ind else [float(a) for a in alphas]
                for j, a in enumerate(flat):
                    if not (0.0 < a < 1.0):
                        continue
                    a32 = torch.tensor(a, dtype=torch.float32)
                    for label, uval in (("tie", a32), ("below", torch.nextafter(a32, torch.tensor(0.0))),
                                        ("above", torch.nextafter(a32, torch.tensor(1.0)))):
                        key = f"u:0:{j}" if is_ind else f"u:{j}"
                        script = {"z": 0.7, "u": 0.3, "dev": {key: float(uval)}, "shuffle": sh}
                        case = dict(base, T_inv=T_inv, start=start, script=script, tie=label)
                        res = run_case(u, kind, v, T_inv, start, script)
                        record(res, case, "tie:" + label)
                # ---- locality pairs (individual sampler): change individual j's draws only
                if is_ind and u.n_ind > 1:
                    per = n_z_elems // u.n_ind
                    for j in range(u.n_ind):
                        for zalt, ualt in ((2.5, 0.0), (-1.5, 1.0 - 2.0 ** -24)):
                            dev = {f"u:0:{j}": ualt}
                            for e in range(per):
                                dev[f"z:0:{j * per + e}"] = zalt
                            script = {"z": 0.7, "u": 0.3, "dev": dev, "shuffle": sh}
                            case = dict(base, T_inv=T_inv, start=start, script=script, locality=j)
                            res = run_case(u, kind, v, T_inv, start, script)
                            record(res, case, "locality")
                            if res["decisions"] is None or res.get("new") is None or base_res.get("new") is None:
                                continue
                            for i in range(u.n_ind):
                                if i == j:
                                    continue
                                if res["decisions"][i] != base_res["decisions"][i] or not same_tensor(res["new"][i], base_res["new"][i]) \
                                        or not same_tensor(res["alphas"][0][i], base_res["alphas"][0][i]):
                                    acc.violation(f"{cname}.sample|decision or value of one individual depends on another individual's draws|",
                                                  f"individual {i} changed when only individual {j}'s draws changed", case)


def recorded_pass(u, kind, v, acc, seed, model_name, n_sweeps):
    """Real generators (seeded), draws only observed: monitors (1)-(3),(5) on consecutive sample() calls."""
    import random

    import numpy as np

    st, ref = statemc.initial(u, "REF")
    is_ind = v in u.ind_vars
    sampler = make_sampler(kind, st, v, u.n_ind if is_ind else None)
    random.seed(seed)
    np.random.seed(seed)
    torch.manual_seed(seed)
    for k in range(n_sweeps):
        std_before = sampler.std.clone()
        env = seams.Recording()
        spies = spied_sample(st, sampler, env, 1.0 if k % 2 == 0 else 0.5)
        probs, decisions, new = analyse(u, kind, v, sampler, std_before, env, spies, ref, 1.0 if k % 2 == 0 else 0.5, st_after=st)
        acc.evaluation()
        acc.transition()
        case = {"model": model_name, "ids": u.ids, "kind": kind, "variable": v, "recorded_seed": seed, "sweep": k}
        if decisions is not None:
            acc.outcome(f"recorded:{type(sampler).__name__}:{''.join('A' if d else 'R' for d in decisions)}")
            acc.nontriv(repr((model_name, kind, v, "recorded", seed, k)))
        for sig, msg in probs:
            acc.violation(sig, msg, case)
        if new is None or probs:
            return
        ref.indep[v] = new
        ref.fork = None
        bad = statemc.check_all(u, st, ref, deep=(k % 10 == 0))
        if bad:
            acc.violation(f"{type(sampler).__name__}.sample|state after the step differs from scratch (recorded draws)|", f"{bad[0][:2]}", case)
            return


# ------------------------------------------------------------------------------------------

QUICK_MODELS = ("logistic_d2_s1_diag", "linear_d2_s1_diag", "shared_d2_s1_diag", "joint_d2_s1_diag", "logistic_d2_s1_bernoulli",
                "logistic_d1_s0_scalar", "mixture_d4_s2_diag")


def shards(tier, seed):
    out = []
    names = list(MODEL_SPECS)
    if tier == "quick":
        names = [n for n in names if n in QUICK_MODELS]
    for name in names:
        m = build_model(MODEL_SPECS[name])
        pop, ind = latent_variables(m.state)
        for v in ind:
            out.append({"model": name, "ids": ["a", "b"], "variable": v, "kind": "gibbs", "tier": tier, "seed": seed})
            if tier == "thorough":
                out.append({"model": name, "ids": ["b", "c", "d"], "variable": v, "kind": "gibbs", "tier": tier, "seed": seed})
        for v in pop:
            if tier == "quick" and name.startswith("mixture"):
                continue  # quick: the mixture model's individual samplers (cluster-weighted regularity) only
            for kind in POP_KINDS:
                if tier == "quick" and kind != "gibbs" and name != "logistic_d2_s1_diag" and name != "joint_d2_s1_diag":
                    continue
                out.append({"model": name, "ids": ["a", "b"], "variable": v, "kind": kind, "tier": tier, "seed": seed})
    return out


def run_shard(shard):
    acc = Acc()
    u = universe(shard["model"], shard["ids"])
    u.ids = shard["ids"]
    explore(u, shard["kind"], shard["variable"], acc, shard["tier"], shard["model"])
    for s in sorted({0, shard.get("seed", 0)}):
        recorded_pass(u, shard["kind"], shard["variable"], acc, s, shard["model"], 10 if shard["tier"] == "quick" else 50)
    return acc.to_dict()


def replay(case):
    u = universe(case["model"], case["ids"])
    u.ids = case["ids"]
    if "recorded_seed" in case:
        acc = Acc()
        recorded_pass(u, case["kind"], case["variable"], acc, case["recorded_seed"], case["model"], case["sweep"] + 1)
        return [{"signature": v["signature"], "message": v["message"]} for v in acc.violations.values()]
    res = run_case(u, case["kind"], case["variable"], case["T_inv"], case["start"], case["script"])
    out = [{"signature": s, "message": m} for s, m in res["problems"]]
    if "locality" in case and not out:
        base = run_case(u, case["kind"], case["variable"], case["T_inv"], case["start"], {"z": 0.7, "u": 0.3, "dev": {}, "shuffle": "identity"})
        j = case["locality"]
        for i in range(u.n_ind):
            if i != j and (res["decisions"][i] != base["decisions"][i] or not same_tensor(res["new"][i], base["new"][i])):
                out.append({"signature": "locality", "message": f"individual {i} depends on individual {j}'s draws"})
    return out

"""C09 -- individual trajectories follow the documented closed form.

E-GRID, two enumerated families, every element executed on the real ``model.estimate`` /
``model.compute_individual_trajectory``:

* **grid**: model kind x dimension x number of sources x parameter vector x individual (xi, tau, sources) x
  age list (single, tau itself, dense sorted, unsorted, repeated, far extrapolation tau +- 1000, empty, the age
  0 alone and +0.0 / -0.0 among other ages; tau alphabet includes 0 and 2 so that the curves are not ~0 there) x
  entry point.  Oracle: independent float64 closed form (``lmc/c09_ref.py``: reparametrised age, Householder based
  space shift, curve) with a tolerance derived per value; logistic range [0, 1]; non-decreasing along sorted ages
  (every consecutive pair); documented value at the reference time for an unshifted individual; shape.
* **reuse**: histories on ONE model object (every ordered pair / triple of parameter vectors, changed in place by
  ``load_parameters`` or by assignments into ``model.state``), an estimate after every change, judged against the
  closed form of the parameters the model holds at that moment.
* **layout**: every ordered cohort of 1..3 individuals out of a catalogue of three (container always holds all three)
  x every assignment of an age list to every member x every request form (dict of lists / tuples / arrays / scalar
  ages, ``to_dataframe`` on/off, ``MultiIndex`` grouped / interleaved / level-swapped / with a third level,
  ``MultiIndex`` with ``to_dataframe=False``).  Oracle: keys / index / columns are exactly the request in the
  requested order, every returned row equals the closed form for *its* (individual, age).
"""

from __future__ import annotations

import copy
import functools
import itertools
import json

import numpy as np
import pandas as pd

import leaspy.models  # noqa: F401  (before leaspy.variables.*)
from leaspy.io.outputs import IndividualParameters
from leaspy.models import BaseModel

from .. import c09_ref as R
from ..core import Acc, digest
from ..models import model_dict

ID = "C09"
LEVEL = "exploration"
RULE = (
    "full products of the listed alphabets, no sampling; a case = one call of estimate / compute_individual_trajectory, "
    "identified by (model spec, individual parameters, age list(s), request form); it is counted as distinct and "
    "non-trivial when its identifier is new AND the call returned at least one estimated row that was compared with "
    "the independent closed form (empty requests and refused calls are executed and judged but not counted); "
    "in the reuse family a case = one history (sequence of parameter vectors, way of changing them, age list, entry "
    "point) on one model object, counted when an estimate made after a change returned compared rows"
)
ASSUMPTIONS = [
    "real-valued parameters, individual parameters and ages are covered on the listed grids only (all exactly "
    "representable or first rounded to float32, the dtype leaspy stores them in)",
    "model objects are built from parameter dictionaries through BaseModel.load (population latent variables at "
    "their prior mode = the *_mean parameters), not from a fit; parameters are changed in place only through "
    "load_parameters or by assigning <var>_mean and <var> into model.state (histories of length <= 3)",
    "the joint model's event columns (survival / cumulative incidence) are only checked for count and range; their "
    "formula belongs to C08 (a NaN there, 0/0 after underflow at xi = 2.5, is recorded as outcome 'event_column_nan', "
    "not judged); joint with dimension >= 2 and no source cannot be loaded from a dict and is skipped",
    "identifiers are strings; one torch thread, float32 default dtype, CPU",
    "mixture model not covered (not part of the statement)",
]

EPS32 = R.EPS32
KINDS = ("logistic", "linear", "shared_speed_logistic", "joint")
CIT = "compute_individual_trajectory"

# ------------------------------------------------------------------------------------------------------------
# alphabets (ordered simplest first)

XI = [0.0, -1.0, 0.8]
# 0.0 and 2.0: individuals whose reference time is at / next to age 0, so that the curves are far from 0 at age 0
TAU = [70.0, 55.0, 90.0, 2.0, 0.0]
SRC = [0.0, -2.0, 1.5]
XI_THOROUGH = [2.5, -3.0]
XI_EXTREME = [-6.5, -5.5, 5.5]
TAU_THOROUGH = [70.25]

GRID_LISTS = ["single", "at_tau", "empty", "zero", "unsorted", "repeated", "zero_mixed", "sorted", "far", "precise"]
GRID_LISTS_THOROUGH = GRID_LISTS + ["long"]


def grid_ages(name, tau):
    if name == "single":
        return [tau + 2.5]
    if name == "at_tau":
        return [tau]
    if name == "empty":
        return []
    if name == "zero":  # absolute: the age 0 alone (0 is also the value used to pad visits inside datasets)
        return [0.0]
    if name == "zero_mixed":  # absolute: +0.0 and -0.0 among other ages
        return [2.0, 0.0, -3.0, -0.0, 5.0]
    if name == "unsorted":
        return [tau + 3.0, tau - 6.0, tau + 1.0]
    if name == "repeated":
        return [tau + 1.0, tau - 2.0, tau + 1.0, tau + 1.0]
    if name == "sorted":
        return [tau - 20.0, tau - 6.0, tau - 1.5, tau - 0.25, tau, tau + 0.25, tau + 3.0, tau + 20.0]
    if name == "far":
        return [tau + 1000.0, tau - 1000.0, tau + 30.0, tau - 30.0]
    if name == "long":
        return [tau - 12.0 + k for k in range(25)]
    if name.startswith("scaled"):  # ages placed where an individual with an extreme log-acceleration xi is mid-curve: tau + c * exp(-xi)
        import math
        return [tau + c * math.exp(-float(name[6:])) for c in (-2.0, -0.5, 0.5, 2.0)]
    if name == "precise":  # more than 6 decimals, not exactly representable in single precision
        return [tau + 1.0 / 3.0, tau - 2.0000001, tau + 0.123456789]
    raise ValueError(name)


# "wide" parameter vector (explicit extreme-ish entries): overrides applied on top of variant 0
WIDE = {
    "log_g_mean": [-2.5, 3.0, 0.0, 4.0],
    "log_v0_mean": [-1.0, -5.0, -2.0, -4.0],
    "g_mean": [-0.5, 2.0, 0.0, 1.0],
    "deltas_mean": [1.5, -1.2, 0.4],
    "log_g_mean_shared": [2.0],
    "betas_scale": 3.0,
}

# layout family: catalogue of individuals (ids chosen so that lexicographic, natural and insertion orders all differ)
CATALOGUE = {
    "p2": {"xi": 0.0, "tau": 70.0, "src": [0.0, 0.0, 0.0]},
    "p10": {"xi": -0.5, "tau": 64.5, "src": [1.5, -2.0, 0.5]},
    "P1": {"xi": 0.8, "tau": 78.0, "src": [-2.0, 1.5, 1.0]},
}
CATALOGUE_ORDER = ["p2", "p10", "P1"]
LAYOUT_LISTS = {
    "single": [70.0],
    # not sorted, and with more decimals than the 6 the data readers keep (days / 365.25, thirds): a requested age is an age
    "unsorted": [75.5000001, 62.123456789, 200.0 / 3.0],
    "repeated": [70.0, 66.0, 70.0],
    "ints": [71, 0, 68],
    "empty": [],
}
LAYOUT_LIST_ORDER = ["single", "unsorted", "repeated", "ints", "empty"]
FORMS = [
    "dict", "dict_df", "dict_array", "dict_view", "dict_view_df", "dict_scalar", "dict_scalar_df",
    "mi", "mi_interleaved", "mi_nodf", "mi_swapped", "mi_3level",
]
FORMS_THOROUGH = FORMS + ["dict_tuple", "dict_array_df", "mi_interleaved_nodf"]


def seed_alphabets(seed):
    """`seed` only extends the alphabets."""
    xi_s = ((seed * 37) % 21 - 10) / 10.0
    tau_s = 60.0 + (seed * 13) % 25
    return xi_s, tau_s


# ------------------------------------------------------------------------------------------------------------
# models

def spec_parameters(spec):
    """The model dictionary (JSON form) for a spec; 'wide' specs override variant 0."""
    d = copy.deepcopy(model_dict({k: v for k, v in spec.items() if k != "wide"}))
    if spec.get("wide"):
        p, dim, kind = d["parameters"], spec["dim"], spec["kind"]
        if kind in ("logistic", "joint"):
            p["log_g_mean"] = WIDE["log_g_mean"][:dim]
            p["log_v0_mean"] = WIDE["log_v0_mean"][:dim]
        elif kind == "linear":
            p["g_mean"] = WIDE["g_mean"][:dim]
            p["log_v0_mean"] = WIDE["log_v0_mean"][:dim]
        else:
            p["log_g_mean"] = WIDE["log_g_mean_shared"]
            p["deltas_mean"] = WIDE["deltas_mean"][: dim - 1]
        if spec["ns"]:
            p["betas_mean"] = [[round(WIDE["betas_scale"] * b, 6) for b in row] for row in p["betas_mean"]]
    return d


@functools.lru_cache(maxsize=None)
def _context(spec_json):
    spec = json.loads(spec_json)
    d = spec_parameters(spec)
    model = BaseModel.load(copy.deepcopy(d))
    pop = R.population(spec["kind"], spec["dim"], spec["ns"], d["parameters"])
    n_out = spec["dim"] + (1 if spec["kind"] == "joint" else 0)
    return {"spec": spec, "model": model, "pop": pop, "features": list(d["features"]), "n_out": n_out}


def context(spec):
    return _context(json.dumps(spec, sort_keys=True))


def spec_label(spec):
    return spec["kind"] + ("+sources" if spec["ns"] else "")


def make_ip(spec, inds):
    """inds: list of (id, xi, tau, src)."""
    ip = IndividualParameters()
    for i, xi, tau, src in inds:
        d = {"xi": float(xi), "tau": float(tau)}
        if spec["ns"]:
            d["sources"] = [float(s) for s in src[: spec["ns"]]]
        ip.add_individual_parameters(i, d)
    return ip


def ip_dict(spec, xi, tau, src):
    d = {"xi": float(xi), "tau": float(tau)}
    if spec["ns"]:
        d["sources"] = [float(s) for s in src[: spec["ns"]]]
    return d


# ------------------------------------------------------------------------------------------------------------
# oracle on a block of rows of one individual

class Judge:
    def __init__(self, ctx):
        self.ctx = ctx
        self.viol = []  # (signature, message, expected, observed)
        self.flags = set()
        self.rows = 0

    def add(self, site, kind, feature, message, expected=None, observed=None):
        self.viol.append((f"{site}|{kind}|{feature}", message, expected, observed))

    def rows_of(self, site, arr, ages, xi, tau, src, who=""):
        """arr: (n, n_out) values returned for `ages` (in that order) of the individual (xi, tau, src)."""
        ctx, spec = self.ctx, self.ctx["spec"]
        pop, dim, kind = ctx["pop"], spec["dim"], spec["kind"]
        label = spec_label(spec)
        arr = np.asarray(arr)
        src = list(src)[: spec["ns"]]
        n = len(ages)
        if arr.ndim != 2 or arr.shape != (n, ctx["n_out"]):
            self.add(site, "shape differs from (n_ages, n_features)", label,
                     f"{who}: shape {arr.shape} for {n} ages", [n, ctx["n_out"]], list(arr.shape))
            return
        if n == 0:
            self.flags.add("empty")
            return
        self.rows += n
        y = arr[:, :dim].astype(np.float64)
        if not np.isfinite(y).all():
            self.add(site, "non-finite value", label, f"{who}: ages {ages} -> {arr.tolist()}", None, arr.tolist())
            return
        if not np.isfinite(arr[:, dim:].astype(np.float64)).all():
            # joint model, event columns (survival ratio S(t)/S(t_first)): 0/0 once both underflow (seen for xi = 2.5).
            # Their formula is not part of this property (C08): recorded as an outcome, not judged.
            self.flags.add("event_column_nan")
        ref, tol = R.trajectory(pop, xi, tau, src, ages)
        bad = np.abs(y - ref) > tol
        if bad.any():
            # same rows in another order?
            used, perm_ok = set(), True
            for r in range(n):
                hit = [k for k in range(n) if k not in used and (np.abs(y[r] - ref[k]) <= tol[k]).all()]
                if not hit:
                    perm_ok = False
                    break
                used.add(hit[0])
            j = int(np.argwhere(bad)[0][0])
            msg = (f"{who}: xi={xi} tau={tau} sources={list(src)[:spec['ns']]} ages={ages}: row {j} (age {ages[j]}) "
                   f"observed {y[j].tolist()} expected {ref[j].tolist()} (tolerance {tol[j].tolist()})")
            if perm_ok and n > 1:
                self.add(site, "rows not in the requested age order", label, msg, ref.tolist(), y.tolist())
            else:
                self.add(site, "value differs from closed form", label, msg, ref.tolist(), y.tolist())
            self.flags.add("mismatch")
            return
        t32 = R.f32(ages)
        if kind in R.LOGISTIC_KINDS:
            if (y < 0).any() or (y > 1).any():
                self.add(site, "logistic value outside [0, 1]", label, f"{who}: ages {ages} -> {y.tolist()}", None, y.tolist())
            order = np.argsort(t32, kind="stable")
            ys = y[order]
            # float32 sigmoid kernels are monotone up to an ulp or two: allow 4 eps32 (values <= 1)
            dec = ys[1:] < ys[:-1] - 4.0 * EPS32
            if dec.any():
                k = int(np.argwhere(dec)[0][0])
                self.add(site, "logistic value decreases with age", label,
                         f"{who}: ages {t32[order][k]} -> {t32[order][k + 1]}: {ys[k].tolist()} -> {ys[k + 1].tolist()}")
            self.flags.add("saturated" if ((y == 0) | (y == 1)).any() else "interior")
        else:
            self.flags.add("affine")
        unshifted = spec["ns"] == 0 or all(float(s) == 0.0 for s in list(src)[: spec["ns"]])
        if unshifted:
            at = np.flatnonzero(t32 == float(R.f32(tau)))
            if at.size:
                v, vt = R.at_reference_time(pop)
                if (np.abs(y[at] - v) > vt).any():
                    self.add(site, "value at the reference time differs from the documented one", label,
                             f"{who}: tau={tau}: observed {y[at[0]].tolist()} expected {np.asarray(v).tolist()}",
                             np.asarray(v).tolist(), y[at[0]].tolist())
                self.flags.add("at_tau")
        if ctx["n_out"] > dim:
            ev = arr[:, dim:].astype(np.float64)
            if (ev < 0).any() or (ev > 1 + 4 * EPS32).any():
                self.add(site, "event column outside [0, 1]", label, f"{who}: {ev.tolist()}")


def exception_site(exc, default_site):
    tb = exc.__traceback__
    while tb is not None:
        if tb.tb_frame.f_code.co_name == CIT:
            return CIT
        tb = tb.tb_next
    return default_site


# ------------------------------------------------------------------------------------------------------------
# one case = one call

REUSE_MODES = ["load_parameters", "state_assign"]
REUSE_LISTS = ["unsorted", "at_tau"]
REUSE_INDIVIDUALS = [("u", 0.0, 70.0, [0.0, 0.0, 0.0]), ("v", 0.8, 55.0, [1.5, -2.0, 0.5])]
# population latent variables that carry the curve parameters, per kind (each has a `<name>_mean` model parameter)
REUSE_POP_VARS = {
    "logistic": ["log_g", "log_v0", "betas"],
    "joint": ["log_g", "log_v0", "betas"],
    "linear": ["g", "log_v0", "betas"],
    "shared_speed_logistic": ["log_g", "deltas", "betas"],
}


def vector_spec(base, v):
    """Parameter vector number v of a (kind, dim, ns): 0..2 = catalogue variants, 3 = the wide vector."""
    spec = {"kind": base["kind"], "dim": base["dim"], "ns": base["ns"], "variant": v if v < 3 else 0}
    if v == 3:
        spec["wide"] = True
    return spec


def _run_reuse(case):
    """History on ONE model object: build it with vector v0, estimate; change the parameters in place to v1
    (load_parameters, or assignments into model.state), estimate; (v2, estimate).  Every estimate must follow the
    closed form of the parameters the model holds at that moment."""
    import torch

    base, vectors, mode = case["base"], case["vectors"], case["mode"]
    site = "estimate[dict->dict]" if case["site"] == "estimate" else CIT
    spec0 = vector_spec(base, vectors[0])
    d0 = spec_parameters(spec0)
    model = BaseModel.load(copy.deepcopy(d0))  # fresh object: it is modified below
    n_out = base["dim"] + (1 if base["kind"] == "joint" else 0)
    viol, rows, flags = [], 0, set()
    inds = REUSE_INDIVIDUALS
    for step, v in enumerate(vectors):
        spec = vector_spec(base, v)
        params = spec_parameters(spec)["parameters"]
        if step > 0:
            try:
                if mode == "load_parameters":
                    model.load_parameters(copy.deepcopy(params))
                else:
                    for name in REUSE_POP_VARS[base["kind"]]:
                        if name + "_mean" not in params:
                            continue
                        cur = model.state[name]
                        val = torch.tensor(params[name + "_mean"], dtype=cur.dtype).reshape(cur.shape)
                        model.state[name + "_mean"] = val.clone()
                        model.state[name] = val.clone()
            except Exception as e:
                viol.append((f"{mode}|{type(e).__name__}|{spec_label(spec)}", f"step {step}: changing parameters raised {e!r}"[:600], None, None))
                break
        ctx = {"spec": spec, "model": model, "pop": R.population(base["kind"], base["dim"], base["ns"], params),
               "features": list(d0["features"]), "n_out": n_out}
        judge = Judge(ctx)
        try:
            if case["site"] == "estimate":
                res = model.estimate({i: grid_ages(case["list"], tau) for i, _, tau, _ in inds}, make_ip(spec, inds))
                got = {i: res[i] for i, _, _, _ in inds}
            else:
                got = {i: model.compute_individual_trajectory(grid_ages(case["list"], tau), ip_dict(spec, xi, tau, src)).detach().cpu().numpy()[0]
                       for i, xi, tau, src in inds}
        except Exception as e:
            viol.append((f"{exception_site(e, site)}|{type(e).__name__}|step {min(step, 1)} of a parameter-change history",
                         f"step {step} ({mode}, vectors {vectors}): {e!r}"[:600], None, None))
            break
        for i, xi, tau, src in inds:
            judge.rows_of(site, got[i], grid_ages(case["list"], tau), xi, tau, src, who=f"step {step} vector {v} individual {i}")
        for sig, msg, exp, obs in judge.viol:
            if step > 0:
                a, b, c = sig.split("|")
                sig = f"{a}|{b} after the parameters were changed in place|{c}, {mode}"
            viol.append((sig, msg, exp, obs))
        if step > 0:
            rows += judge.rows
        flags |= judge.flags
    status = "judged-wrong" if viol else "ok:" + "+".join(sorted(flags))
    return {"violations": viol, "outcome": f"reuse[{mode}]:{site}:{status}", "nontrivial": rows > 0,
            "brief": {"vectors": vectors, "mode": mode}}


def run_case(case):
    """Execute one case on the implementation and judge it.
    Returns dict(violations=[(sig, msg, expected, observed)], outcome=str, nontrivial=bool, evaluations=int, brief=...)."""
    if case["t"] == "grid":
        return _run_grid(case)
    if case["t"] == "layout":
        return _run_layout(case)
    if case["t"] == "reuse":
        return _run_reuse(case)
    raise ValueError(case)


def _finish(judge, site, status, brief=None):
    flags = judge.flags
    if status == "ok":
        if "mismatch" in flags or judge.viol:
            status = "judged-wrong"
        elif judge.rows == 0:
            status = "ok:empty"
        else:
            status = "ok:" + "+".join(sorted(flags - {"empty"}))
    return {
        "violations": judge.viol,
        "outcome": f"{site}:{status}",
        "nontrivial": judge.rows > 0,
        "brief": brief,
    }


def _run_grid(case):
    spec = case["spec"]
    ctx = context(spec)
    judge = Judge(ctx)
    model = ctx["model"]
    xi, tau, src = case["xi"], case["tau"], case["src"]
    ages = grid_ages(case["list"], tau)
    joint = spec["kind"] == "joint"
    if case["site"] == "estimate":
        site = "estimate[dict->dict]"
        ip = make_ip(spec, [("s", xi, tau, src)])
        try:
            res = model.estimate({"s": list(ages)}, ip)
        except Exception as e:  # implementation refused a valid request
            s = exception_site(e, "estimate[->dict]")
            feat = "joint model, empty age list" if (joint and not ages and s == CIT) else "-"
            judge.add(s, type(e).__name__, feat, f"estimate({{'s': {ages}}}) with xi={xi} tau={tau}: {e!r}"[:600])
            return _finish(judge, site, f"raise:{type(e).__name__}")
        if not isinstance(res, dict) or list(res.keys()) != ["s"]:
            judge.add(site, "keys differ from the requested individuals", spec_label(spec),
                      f"requested ['s'], got {type(res).__name__} {list(res) if isinstance(res, dict) else ''}")
            return _finish(judge, site, "ok")
        arr = res["s"]
        if not isinstance(arr, np.ndarray):
            judge.add(site, "value is not a numpy array", spec_label(spec), f"got {type(arr).__name__}")
            return _finish(judge, site, "ok")
        judge.rows_of(site, arr, ages, xi, tau, src, who="s")
        return _finish(judge, site, "ok", brief={"ages": ages, "values": np.asarray(arr).tolist()})
    # direct entry point
    site = CIT
    try:
        out = model.compute_individual_trajectory(list(ages), ip_dict(spec, xi, tau, src))
    except Exception as e:
        feat = "joint model, empty age list" if (joint and not ages) else "-"
        judge.add(site, type(e).__name__, feat, f"compute_individual_trajectory({ages}, xi={xi}, tau={tau}): {e!r}"[:600])
        return _finish(judge, site, f"raise:{type(e).__name__}")
    arr = out.detach().cpu().numpy()
    if arr.ndim != 3 or arr.shape[0] != 1:
        judge.add(site, "shape differs from (1, n_ages, n_features)", spec_label(spec), f"shape {arr.shape}",
                  [1, len(ages), ctx["n_out"]], list(arr.shape))
        return _finish(judge, site, "ok")
    judge.rows_of(site, arr[0], ages, xi, tau, src, who="-")
    return _finish(judge, site, "ok", brief={"ages": ages, "values": arr[0].tolist()})


def form_applicable(form, request, spec=None):
    lists = [LAYOUT_LISTS[name] for _, name in request]
    if form.startswith("dict_scalar"):
        if form.endswith("_df") and spec is not None and spec["kind"] == "joint":
            # every frame output of the joint model is already judged by the list forms (dict_df, mi*); combining it
            # with the (model independent) scalar-age form would only mix two input features in one signature
            return False
        return any(len(x) == 1 for x in lists)
    if form.startswith("mi"):
        all_nonempty = all(len(x) > 0 for x in lists)
        if "interleaved" in form:
            return all_nonempty and len(request) >= 2
        return all_nonempty or (len(request) == 1 and not lists[0])
    return True


def _mi_rows(request, interleaved):
    per = [[(i, a) for a in LAYOUT_LISTS[name]] for i, name in request]
    if not interleaved:
        return [r for block in per for r in block]
    rows = []
    for k in range(max((len(b) for b in per), default=0)):
        for b in per:
            if k < len(b):
                rows.append(b[k])
    return rows


def build_request(form, request):
    """-> (timepoints argument, to_dataframe argument, expected rows [(id, age)] or None for dict outputs,
           output layout 'dict'|'frame', expected key order or None)"""
    if form.startswith("dict"):
        tp = {}
        for i, name in request:
            ages = LAYOUT_LISTS[name]
            if form.startswith("dict_tuple"):
                tp[i] = tuple(ages)
            elif form.startswith("dict_array"):
                tp[i] = np.array(ages, dtype=np.float64)
            elif form.startswith("dict_view"):
                # the same ages in the same order, held as a reversed VIEW of an array (negative stride), e.g. `grid[::-1]`
                tp[i] = np.array(list(ages)[::-1], dtype=np.float64)[::-1]
            elif form.startswith("dict_scalar") and len(ages) == 1:
                tp[i] = ages[0]
            else:
                tp[i] = list(ages)
        frame = form.endswith("_df")
        rows = [(i, a) for i, name in request for a in LAYOUT_LISTS[name]]
        return tp, (True if frame else None), rows, ("frame" if frame else "dict")
    rows = _mi_rows(request, "interleaved" in form)
    if form == "mi_swapped":
        ix = pd.MultiIndex.from_tuples([(a, i) for i, a in rows], names=["TIME", "ID"])
    elif form == "mi_3level":
        ix = pd.MultiIndex.from_tuples([(i, a, k) for k, (i, a) in enumerate(rows)], names=["ID", "TIME", "REP"])
    else:
        ix = pd.MultiIndex.from_tuples(rows, names=["ID", "TIME"])
    nodf = form.endswith("_nodf")
    return ix, (False if nodf else None), rows, ("dict" if nodf else "frame")


IP_ROUTES = ("json", "csv", "frame", "torch")


def route_ip(ip, route):
    """The same individual parameters after a trip through another of their forms (file, table, tensors): what reaches
    `estimate` in practice - Python floats, one-element lists, float32 tensors' values."""
    import os
    import tempfile

    if route in ("json", "csv"):
        with tempfile.TemporaryDirectory(dir="/var/tmp") as tmp:
            path = os.path.join(tmp, "ip." + route)
            ip.save(path)
            return IndividualParameters.load(path)
    if route == "frame":
        return IndividualParameters.from_dataframe(ip.to_dataframe())
    if route == "torch":
        ids, tensors = ip.to_pytorch()
        return IndividualParameters.from_pytorch(ids, tensors)
    raise ValueError(route)


def _run_layout(case):
    spec = case["spec"]
    ctx = context(spec)
    judge = Judge(ctx)
    model = ctx["model"]
    label = spec_label(spec)
    request = [tuple(x) for x in case["request"]]
    form = case["form"]
    ip = make_ip(spec, [(i, CATALOGUE[i]["xi"], CATALOGUE[i]["tau"], CATALOGUE[i]["src"]) for i in CATALOGUE_ORDER])
    if case.get("ip_route"):
        ip = route_ip(ip, case["ip_route"])
        label += f", individual parameters through {case['ip_route']}"
    tp, to_df, rows, layout = build_request(form, request)
    from_index = isinstance(tp, pd.MultiIndex)
    site = f"estimate[{'index' if from_index else 'dict'}->{layout}]"
    kw = {} if to_df is None else {"to_dataframe": to_df}
    try:
        res = model.estimate(tp, ip, **kw)
    except Exception as e:
        s = exception_site(e, f"estimate[->{layout}]")
        joint = spec["kind"] == "joint"
        if s == CIT:
            feat = "joint model, empty age list" if joint and any(not LAYOUT_LISTS[n] for _, n in request) else "-"
        elif layout == "frame":
            if joint:
                # whatever the request, tables of a joint model fail for one reason (event columns are not labelled)
                feat = "joint model"
            elif not rows:
                feat = "empty request"
            else:
                fs = (["joint model"] if joint else []) + (
                    ["scalar age"] if any(not isinstance(v, (list, tuple, np.ndarray)) for v in (tp.values() if isinstance(tp, dict) else [])) else [])
                feat = ", ".join(fs) or "-"
        else:
            feat = "-"
        if case.get("ip_route") and feat != "joint model":  # (tables of a joint model fail for the known reason whatever the route)
            feat = (feat + ", " if feat != "-" else "") + f"individual parameters through {case['ip_route']}"
        judge.add(s, type(e).__name__, feat, f"estimate({_show(tp)}, to_dataframe={to_df}): {e!r}"[:600])
        return _finish(judge, site, f"raise:{type(e).__name__}")

    def params(i):
        c = CATALOGUE[i]
        return c["xi"], c["tau"], c["src"]

    if layout == "dict":
        if not isinstance(res, dict):
            judge.add(site, "result is not a dict", label, f"got {type(res).__name__}")
            return _finish(judge, site, "ok")
        if from_index:
            want = []
            for i, _ in rows:
                if i not in want:
                    want.append(i)
            if sorted(res.keys()) != sorted(want):
                judge.add(site, "keys differ from the requested individuals", label, f"requested {want}, got {list(res)}", want, list(res))
                return _finish(judge, site, "ok")
        else:
            want = [i for i, _ in request]
            if list(res.keys()) != want:
                kind = "keys differ from the requested individuals" if sorted(res.keys()) != sorted(want) else "keys not in the requested order"
                judge.add(site, kind, label, f"requested {want}, got {list(res)}", want, list(res))
                if sorted(res.keys()) != sorted(want):
                    return _finish(judge, site, "ok")
        for i in want:
            ages = [a for (j, a) in rows if j == i]
            arr = res[i]
            if not isinstance(arr, np.ndarray):
                judge.add(site, "value is not a numpy array", label, f"{i}: {type(arr).__name__}")
                continue
            judge.rows_of(site, arr, ages, *params(i), who=i)
        return _finish(judge, site, "ok", brief={k: np.asarray(v).tolist() for k, v in res.items()})

    # ---- frame layouts
    if not isinstance(res, pd.DataFrame):
        judge.add(site, "result is not a DataFrame", label, f"got {type(res).__name__}")
        return _finish(judge, site, "ok")
    cols = list(res.columns)
    # (the number of extra event columns of the joint model is only demanded when there is at least one row)
    if cols[: spec["dim"]] != ctx["features"] or (len(res) and len(cols) != ctx["n_out"]):
        judge.add(site, "columns differ from the model features", label, f"columns {cols}", ctx["features"], cols)
        return _finish(judge, site, "ok")
    index_ok = True
    if from_index:
        got, want_ix = [tuple(x) for x in res.index], [tuple(x) for x in tp]
        names_ok = list(res.index.names) == list(tp.names)
        if got != want_ix or not names_ok:
            index_ok = False
            key = [(i, a) for i, a in rows]
            dup = len(set(key)) < len(key)
            if dup and len(got) > len(want_ix) and names_ok:
                judge.add(site, "more rows than requested", "duplicated (ID, TIME) entries in the index",
                          f"requested {len(want_ix)} rows {want_ix}, got {len(got)} rows {got}", want_ix, got)
            else:
                judge.add(site, "index differs from the requested index",
                          "duplicated (ID, TIME) entries in the index" if dup else label,
                          f"requested {tp.names} {want_ix}, got {list(res.index.names)} {got}", want_ix, got)
    else:
        want_ix = [(i, float(a)) for i, a in rows]
        if res.index.nlevels != 2:
            got = [tuple(x) if isinstance(x, tuple) else (x,) for x in res.index]
        else:
            got = [(i, float(a)) for i, a in res.index]
        names_ok = (not rows) or list(res.index.names) == ["ID", "TIME"]
        if got != want_ix or not names_ok:
            index_ok = False
            judge.add(site, "index differs from the requested (ID, TIME) rows", label,
                      f"requested {want_ix}, got {list(res.index.names)} {got}", want_ix, got)
    # values: every returned row against the closed form of its own (ID, TIME), grouped per individual in returned order
    if len(res) and {"ID", "TIME"} <= set(res.index.names):
        ids = list(res.index.get_level_values("ID"))
        times = [float(x) for x in res.index.get_level_values("TIME")]
        vals = res.to_numpy(dtype=np.float64)
        seen = []
        for i in ids:
            if i not in seen:
                seen.append(i)
        for i in seen:
            if i not in CATALOGUE:
                judge.add(site, "unknown individual in the result", label, f"{i!r}")
                continue
            sel = [k for k, j in enumerate(ids) if j == i]
            judge.rows_of(site, vals[sel], [times[k] for k in sel], *params(i), who=i)
    elif rows and index_ok:
        judge.add(site, "no row returned", label, f"requested {rows}")
    return _finish(judge, site, "ok", brief={"index": [list(map(str, x)) for x in res.index][:8], "values": res.to_numpy().tolist()[:8]})


def _show(tp):
    if isinstance(tp, pd.MultiIndex):
        return f"MultiIndex({list(tp)}, names={list(tp.names)})"
    return repr({k: (v.tolist() if isinstance(v, np.ndarray) else v) for k, v in tp.items()})


# ------------------------------------------------------------------------------------------------------------
# enumeration

def dims_ns(tier):
    dmax, nsmax = (3, 2) if tier == "quick" else (4, 3)
    return [(d, s) for d in range(1, dmax + 1) for s in range(0, min(d - 1, nsmax) + 1)]


def grid_specs(tier):
    out = []
    for kind in KINDS:
        for dim, ns in dims_ns(tier):
            if kind == "joint" and dim >= 2 and ns == 0:
                continue  # cannot be built from a dictionary ("Can not reset the variable 'y'"), see ASSUMPTIONS
            for variant in (0, 1, 2):
                out.append({"kind": kind, "dim": dim, "ns": ns, "variant": variant})
            if tier != "quick":
                out.append({"kind": kind, "dim": dim, "ns": ns, "variant": 0, "wide": True})
    return out


def layout_specs(tier):
    out = []
    for kind in KINDS:
        out.append({"kind": kind, "dim": 1, "ns": 0, "variant": 0})
        out.append({"kind": kind, "dim": 2, "ns": 1, "variant": 0})
        if tier != "quick":
            out.append({"kind": kind, "dim": 3, "ns": 2, "variant": 1})
            if kind != "joint":
                out.append({"kind": kind, "dim": 2, "ns": 0, "variant": 2})
    return out


def ordered_cohorts():
    out = []
    for k in (1, 2, 3):
        out.extend(itertools.permutations(CATALOGUE_ORDER, k))
    return [list(c) for c in out]


def bounds(tier):
    q = tier == "quick"
    return {
        "grid": {
            "kinds": list(KINDS),
            "(dimension, sources)": [list(x) for x in dims_ns(tier)],
            "parameter_vectors": "3 catalogue variants" + ("" if q else " + 1 wide vector (log g in [-2.5, 4], log v0 in [-5, -1], betas x3)"),
            "xi": XI + ([] if q else XI_THOROUGH) + ["+ 1 seed-derived value"] + [f"{x} (ages tau + c exp(-xi))" for x in XI_EXTREME],
            "tau": TAU + ([] if q else TAU_THOROUGH) + ["+ 1 seed-derived value"],
            "sources": f"{SRC}^ns",
            "age_lists": GRID_LISTS if q else GRID_LISTS_THOROUGH,
            "entry_points": ["estimate(dict)", CIT],
        },
        "reuse": {
            "models": [f"{b['kind']} d{b['dim']} s{b['ns']}" for b in reuse_bases(tier)],
            "histories": "one model object: every ordered pair and triple of distinct parameter vectors "
            f"({len(reuse_histories(tier))}), an estimate after every change, judged against the closed form of the current vector",
            "ways_of_changing_parameters": REUSE_MODES,
            "age_lists": REUSE_LISTS,
            "individuals": REUSE_INDIVIDUALS,
            "entry_points": ["estimate(dict)", CIT],
        },
        "layout": {
            "models": [f"{s['kind']} d{s['dim']} s{s['ns']}" for s in layout_specs(tier)],
            "cohorts": "every ordered cohort of 1..3 of the 3 catalogue individuals (15)",
            "age_list_per_member": LAYOUT_LISTS,
            "forms": FORMS if q else FORMS_THOROUGH,
            "form_restrictions": "scalar forms need a 1-age member; MultiIndex forms need no empty member (or one "
            "member with an empty list = empty index); dict_scalar_df is not combined with the joint model",
        },
    }


def shards(tier, seed):
    out = []
    for spec in grid_specs(tier):
        out.append({"fam": "grid", "spec": spec, "tier": tier, "seed": seed})
    for base in reuse_bases(tier):
        out.append({"fam": "reuse", "base": base, "tier": tier})
    for spec in layout_specs(tier):
        for cohort in ordered_cohorts():
            out.append({"fam": "layout", "spec": spec, "cohort": cohort, "tier": tier})
    return out


def reuse_bases(tier):
    out = []
    for kind in KINDS:
        out.append({"kind": kind, "dim": 1, "ns": 0})
        out.append({"kind": kind, "dim": 2, "ns": 1})
        if tier != "quick":
            out.append({"kind": kind, "dim": 3, "ns": 2})
    return out


def reuse_histories(tier):
    """Every ordered pair and triple of distinct parameter vectors."""
    ids = [0, 1, 2] if tier == "quick" else [0, 1, 2, 3]
    return [list(h) for k in (2, 3) for h in itertools.permutations(ids, k)]


def reuse_cases(shard):
    for vectors in reuse_histories(shard["tier"]):
        for mode in REUSE_MODES:
            for name in REUSE_LISTS:
                for site in ("estimate", "cit"):
                    yield {"t": "reuse", "base": shard["base"], "vectors": vectors, "mode": mode, "list": name, "site": site}


def grid_cases(shard):
    spec, tier = shard["spec"], shard["tier"]
    xi_s, tau_s = seed_alphabets(shard["seed"])
    xis = XI + ([] if tier == "quick" else XI_THOROUGH)
    taus = TAU + ([] if tier == "quick" else TAU_THOROUGH)
    if xi_s not in xis:
        xis = xis + [xi_s]
    if tau_s not in taus:
        taus = taus + [tau_s]
    lists = GRID_LISTS if tier == "quick" else GRID_LISTS_THOROUGH
    for xi in xis:
        for tau in taus:
            for src in itertools.product(SRC, repeat=spec["ns"]):
                for name in lists:
                    for site in ("estimate", "cit"):
                        yield {"t": "grid", "spec": spec, "xi": xi, "tau": tau, "src": list(src), "list": name, "site": site}
    # extreme log-accelerations (x 1/665 .. x 245), evaluated where such an individual is mid-curve
    for xi in XI_EXTREME:
        for src in list(itertools.product(SRC, repeat=spec["ns"]))[:2]:
            for site in ("estimate", "cit"):
                yield {"t": "grid", "spec": spec, "xi": xi, "tau": 70.0, "src": list(src), "list": f"scaled{xi}", "site": site}


def layout_cases(shard):
    spec, cohort = shard["spec"], shard["cohort"]
    forms = FORMS if shard["tier"] == "quick" else FORMS_THOROUGH
    for names in itertools.product(LAYOUT_LIST_ORDER, repeat=len(cohort)):
        request = [[i, n] for i, n in zip(cohort, names)]
        for form in forms:
            if form_applicable(form, request, spec):
                yield {"t": "layout", "spec": spec, "request": request, "form": form}
                if form in ("dict", "mi") and set(names) == {"unsorted"}:
                    for route in IP_ROUTES:
                        yield {"t": "layout", "spec": spec, "request": request, "form": form, "ip_route": route}


def run_shard(shard):
    acc = Acc()
    cases = {"grid": grid_cases, "layout": layout_cases, "reuse": reuse_cases}[shard["fam"]](shard)
    for case in cases:
        res = run_case(case)
        acc.evaluation()
        acc.outcome(res["outcome"])
        if res["nontrivial"]:
            acc.nontriv(digest(case))
        for sig, msg, expected, observed in res["violations"]:
            acc.violation(sig, msg, case, expected, observed)
        if res["nontrivial"] and case["t"] != "reuse" and (case.get("list") == "unsorted" or case.get("form") == "mi_interleaved"):
            acc.sample({"case": case, "outcome": res["outcome"], "result": res["brief"]})
        acc.count(f"cases_{case['t']}")
    return acc.to_dict()


def replay(case):
    res = run_case(case)
    return [{"signature": sig, "message": msg} for sig, msg, _, _ in res["violations"]]


# ------------------------------------------------------------------------------------------------------------
# harness self-check (failure = harness error, never a VIOLATION)

def self_check():
    rng_free = np.array([0.7, -1.3, 2.1, 0.4])
    b = R.householder_basis(rng_free)
    assert b.shape == (4, 3)
    assert np.abs(b.T @ b - np.eye(3)).max() < 1e-12, "reference basis is not orthonormal"
    assert np.abs(b.T @ rng_free).max() < 1e-12, "reference basis is not orthogonal to the direction"
    spec = {"kind": "logistic", "dim": 2, "ns": 1, "variant": 0}
    ctx = context(spec)
    pop = ctx["pop"]
    y, tol = R.trajectory(pop, 0.0, 70.0, [0.0], [70.0])
    assert np.abs(y[0] - 1.0 / (1.0 + pop["g"])).max() < 1e-12
    assert np.abs(pop["mixing"] @ (pop["metric"] ** 2 * pop["v0"])).max() < 1e-12
    # the judge must flag a result that is wrong by 1e-4, a permuted one, and accept the exact one
    ages = [73.0, 64.0, 71.0]
    y, _ = R.trajectory(pop, 0.3, 68.0, [1.5], ages)
    for arr, want in ((y, None), (y + 1e-4, "value differs"), (y[[1, 2, 0]], "rows not in the requested age order")):
        j = Judge(ctx)
        j.rows_of("self", arr.astype(np.float32), ages, 0.3, 68.0, [1.5])
        got = j.viol[0][0] if j.viol else None
        assert (got is None) == (want is None) and (want is None or want in got), (want, got)

"""C07 -- individuals are conditionally independent and order-equivariant.

E-GRID + E-ENV, metamorphic.  A catalogue of 5 individuals (1-3 visits, with / without missing entries) gives every
ORDERED cohort of size 1..3; every cohort is executed on the real implementation as it is, and again with every
non-empty proper subset of its members replaced by each of 3 alternative versions (other values / other missing
pattern + event indicator / other ages, extreme values, other latent values).  Five families of executions (``part``):

* ``terms``    one evaluation of the variable graph (latent values attached to the individual, not to its position):
               nll_attach_ind, nll_regul_<v>_ind, nll_regul_ind_sum_ind and the population totals.
* ``sampler``  6 sweeps of the real IndividualGibbsSampler over every individual latent variable (short acceptance
               window, so that the per-individual proposal scale is adapted 3 times), scripted draws attached to the
               individual: acceptance ratios, decisions, values after every sweep, final proposal scales.
* ``mcmc``     model.personalize(mode_posterior / mean_posterior) with 8 iterations (3 burn-in, acceptance window 2), same
               kind of scripted draws.
* ``scipy``    model.personalize(scipy_minimize, n_jobs=1): once with the random start point of every optimisation
               attached to the individual (torch.normal seam) and once through the plain seeded public call.
* ``njobs``    model.personalize(scipy_minimize, seed=0, n_jobs in {1, 2, 3}) in a fresh non-daemonic interpreter
               (joblib silently runs sequentially inside the runner's daemonic workers).

Relations (oracles)
  R1 others changed   outputs of the untouched members are bit-identical (rounding tolerance only when the
                      modification changes the padded shape of the cohort tensors).
  R2 permutation      per-individual outputs follow the individual bit-identically (same shapes, same operations;
                      rounding tolerance for mean_posterior, whose mean over the kept iterations is accumulated by torch
                      in a position-dependent pattern); totals within the summation tolerance; result containers are
                      keyed in the dataset order.
  R3 alone vs batch   per-individual outputs within a rounding tolerance derived from the sums involved (bit-identical
                      for scipy_minimize, which the implementation runs on one single-individual dataset per subject).
  T  totals           nll_attach == sum_i nll_attach_ind, nll_regul_<v> == sum_i nll_regul_<v>_ind,
                      nll_regul_ind_sum_ind == sum_v nll_regul_<v>_ind, nll_regul_ind_sum == sum_i (float64 reference).
  N  n_jobs           same keys, same order, parameters within 5e-2 prior standard deviations and objective within
                      the optimiser's ftol scale of the sequential result (DESIGN 2.3); the START POINT of every individual's
                      optimisation (recorded inside the joblib workers by lmc/site_hooks/sitecustomize.py) is bit-identical to
                      the sequential one; one optimisation per individual; a second identical public call (worker pool already
                      used) returns bit-identical results from bit-identical start points.
"""

from __future__ import annotations

import contextlib
import io
import itertools
import json
import os
import subprocess
import sys

import torch

import leaspy.models  # noqa: F401  (before leaspy.variables.*)
from leaspy.io.data import Data, Dataset
from leaspy.utils.weighted_tensor import WeightedTensor
from leaspy.variables.specs import IndividualLatentVariable
from leaspy.variables.state import StateForkType

from .. import seams
from ..core import Acc
from ..models import EVENTS, INDIVIDUALS, MODEL_SPECS, build_model, fresh_state, visits_frame
from ..oracle import same_tensor
from ..samplers_util import make_sampler

ID = "C07"
LEVEL = "exploration"
RULE = (
    "full product part x model kind x ordered cohort (size 1..k of the catalogue) x set of modified members (every "
    "non-empty proper subset) x modification kind (3) [x script of draws] ; one case = one execution of the "
    "implementation on one cohort; it is distinct by (part, algorithm, model, ordered ids, modification map, script) "
    "and non-trivial when the cohort has >= 2 members (so that at least one of the relations others-changed / "
    "permutation / alone-vs-batch compares it with a different execution); singletons are reference executions only"
)
ASSUMPTIONS = [
    "catalogue of 5 hand-written individuals (1-3 visits, missing entries), cohorts of at most 3 members, every order",
    "modifications of the other members: values y -> 1-y | missing pattern toggled + event indicator flipped | ages and "
    "event time shifted, extreme values, other latent values; the focal members' rows are never touched",
    "models built from hand-written parameters through BaseModel.load (no fit); mixture model not covered (its "
    "regularity graph cannot be evaluated on the catalogue by the harness); population variables fixed",
    "draws (normal proposals, uniforms, random start points of scipy_minimize) are attached to the individual in the "
    "scripted passes: the property allows an individual's result to depend on its own position-indexed draws; in the "
    "plain seeded passes the start point of an optimisation is the k-th draw of the generator, so a permutation is "
    "only compared within the optimiser tolerance there",
    "alone-vs-batch sampler decisions: a script whose uniform draw sits within the rounding tolerance of the "
    "acceptance ratio is skipped (counted), not judged",
    "bit-identity under permutation relies on this torch build evaluating elementwise kernels identically at every "
    "position of a small tensor (single thread, CPU, float32)",
    "n_jobs independence is decided up to the optimiser tolerance of DESIGN 2.3 only",
    "PYTHONHASHSEED=0 (design candidate D16: the per-individual regularity terms are summed in the order of a set)",
]

EPS32 = 2.0 ** -23
_LMC_DIR = os.path.dirname(os.path.dirname(os.path.abspath(__file__)))
NAN = float("nan")
IDS = ["a", "b", "c", "d", "e"]
IDNUM = {i: k for k, i in enumerate(IDS)}
MODS = ("inv", "miss", "far")
# "none": the other member keeps its visits but none of its values is observed (the library itself builds such
# single-individual datasets with drop_full_nan=False); used where an unobserved individual takes another code path
# (the scipy_minimize start points, the terms)
MODS_WITH_NONE = MODS + ("none",)
PARTS_WITH_NONE = ("terms", "scipy")
# "huge": one observed value of the other member is an aberrant but finite measurement (1e30): its own attachment overflows in
# single precision (+inf) - the other individuals' terms, decisions and results are still their own, and totals are still sums
PARTS_WITH_HUGE = {"quick": ("terms", "sampler"), "thorough": ("terms", "sampler", "mcmc")}
MOD_LABEL = {"inv": "other values", "miss": "other missing pattern", "far": "other ages, extreme values, other latent values",
             "none": "no observed value at all", "huge": "an aberrant (1e30) measurement"}

# latent values attached to the individual, in prior standard deviations from the prior mode
LATENT_Z = {
    "a": {"xi": 0.6, "tau": -1.2, "sources": [0.5, -0.7]},
    "b": {"xi": -0.8, "tau": 0.5, "sources": [-1.1, 0.4]},
    "c": {"xi": 0.2, "tau": 1.1, "sources": [0.9, 1.3]},
    "d": {"xi": 1.0, "tau": -1.9, "sources": [-0.3, -1.6]},
    "e": {"xi": -0.4, "tau": 1.4, "sources": [1.7, 0.2]},
}

Z_CYCLE = [0.71, -1.13, 0.32, -0.44, 1.58, -0.23, 0.94, -1.37, 0.05, 1.21, -0.67, 0.49, -1.92, 0.18, -0.81, 1.03, -0.29]
U_CYCLE = [0.31, 0.62, 0.12, 0.83, 0.47, 0.94, 0.05, 0.55, 0.26, 0.71, 0.38]

HIGH_U_SCRIPT = 9
N_SWEEPS = 6
ACC_WINDOW = 2  # acceptation_history_length of the directly driven samplers: 3 adaptations of the scale in 6 sweeps
# short acceptance window: the per-individual proposal scales are adapted 4 times within the 8 iterations
MCMC_KW = dict(n_iter=8, n_burn_in_iter=3,
               sampler_ind_params={"acceptation_history_length": ACC_WINDOW, "mean_acceptation_rate_target_bounds": [0.2, 0.4],
                                   "adaptive_std_factor": 0.1})

ALL_MODELS = list(m for m in MODEL_SPECS if not m.startswith("mixture"))
QUICK_SAMPLER_MODELS = ["logistic_d2_s1_diag", "linear_d2_s1_diag", "shared_d2_s1_diag", "joint_d2_s1_diag", "logistic_d2_s1_bernoulli",
                        "logistic_d1_s0_scalar"]
QUICK_MCMC_MODELS = ["logistic_d2_s1_diag", "joint_d2_s1_diag", "logistic_d2_s1_bernoulli"]
QUICK_SCIPY_MODELS = ["logistic_d2_s1_diag", "joint_d1_s0_scalar"]
THOROUGH_SCIPY_MODELS = ["logistic_d2_s1_diag", "joint_d1_s0_scalar", "linear_d2_s1_diag", "shared_d2_s1_diag", "logistic_d2_s1_bernoulli"]
QUICK_NJOBS_MODELS = ["logistic_d2_s1_diag", "joint_d1_s0_scalar"]
# n_jobs cohorts: the catalogue individuals have 2, 3, 1, 3, 2 visits with two features and 2, 2, 1, 3, 2 with one (a visit
# whose only feature is missing is dropped): every order of (a, b, c) and of (c, d, e) realises, for each kind, every
# ranking pattern of three numbers of visits (a dispatch by workload, by identifier, ... is then a non-trivial permutation,
# 3-cycles included); the cohorts of 5 are the sorted one and a scrambled one (its sort by visits is a 4-cycle)
NJOBS_TRIPLES = [list(p) for t in (("a", "b", "c"), ("c", "d", "e")) for p in itertools.permutations(t)]
NJOBS_FIVES = [["a", "b", "c", "d", "e"], ["c", "a", "d", "e", "b"]]
THOROUGH_NJOBS_MODELS = ["logistic_d2_s1_diag", "joint_d1_s0_scalar", "linear_d2_s1_diag"]


def bounds(tier):
    if tier == "quick":
        return {"terms": "all 85 ordered cohorts of size <= 3 of 5 individuals x 3 modifications of the complement of every focal member, all 12 model kinds",
                "sampler": "ordered cohorts <= 3 of 4 individuals, same modifications, %d model kinds, 2 scripts of draws; 3 kinds again with the "
                           "aggressive tuning (scale adapted after every sweep, x1.9 / x0.1)" % len(QUICK_SAMPLER_MODELS),
                "mcmc": "mode/mean posterior, ordered cohorts <= 3 of 4, %d model kinds, 1 script; mean posterior under the 'high uniforms' script (sweeps where "
                        "everything is rejected); mean posterior on a model object fitted earlier in the session on 3 other individuals" % len(QUICK_MCMC_MODELS),
                "scipy": "ordered cohorts <= 2 of 4 individuals, %d model kinds, start points by individual + plain seeded call (non-joint); "
                         "4 modifications of the other member (incl. no observed value at all); two cohorts again with an iteration budget of 2 (every optimisation stops "
                         "on the limit)" % len(QUICK_SCIPY_MODELS),
                "n_jobs": "{1, 2} on ordered cohorts <= 2 of 3 individuals + every order of the triples (a,b,c), (c,d,e) (every ranking pattern of the "
                          "numbers of visits) + one scrambled cohort of 5, %d model kinds; every public call made twice; start point and result of "
                          "every optimisation recorded inside the worker processes" % len(QUICK_NJOBS_MODELS)}
    return {"terms/sampler": "all 85 ordered cohorts of size <= 3 of 5 individuals, every non-empty proper subset x 3 modifications, all 12 model "
                             "kinds, sampler scripts {0, 1, 2, seed}",
            "mcmc": "mode/mean posterior, same cohorts and modifications, all 12 model kinds with script 0, %d of them also with script (seed or 2)"
                    % len(QUICK_MCMC_MODELS),
            "scipy": "ordered cohorts <= 3 of 5 individuals (cohorts of 3: complements of every focal member), %d model kinds, start points by individual; "
                     "plain seeded call on cohorts of 2 (non-joint) and, for the first kind, of 3" % len(THOROUGH_SCIPY_MODELS),
            "n_jobs": "{1, 2, 3} on ordered cohorts <= 2 of 4 individuals + every order of (a,b,c), (c,d,e) + 2 more triples + 2 cohorts of 5, "
                      "%d model kinds; every public call made twice; start points recorded inside the workers" % len(THOROUGH_NJOBS_MODELS),
            "tunings": "sampler part: default and aggressive tuning for every model kind and script; terms / scipy: 4 modification kinds"}


# ------------------------------------------------------------------------------------------
# cohorts and their modifications

def individual_rows(i, dim, binary, mod):
    rows = []
    for k, (age, vals) in enumerate(INDIVIDUALS[i]):
        vv = list(vals[:dim])
        if binary:
            vv = [v if v != v else float(v > 0.3) for v in vv]
        if mod == "inv":
            vv = [v if v != v else round(1.0 - v, 6) for v in vv]
        elif mod == "miss":
            obs = [j for j, v in enumerate(vv) if v == v]
            new = [(1.0 if binary else 0.5) if v != v else v for v in vv]
            if len(obs) >= 2:
                new[obs[-1]] = NAN
            vv = new
        elif mod == "far":
            hi, lo = (1.0, 0.0) if binary else (0.999, 0.001)
            vv = [v if v != v else (hi if (j + k) % 2 == 0 else lo) for j, v in enumerate(vv)]
            age = age + 3.25
        elif mod == "none":
            vv = [NAN for _ in vv]
        elif mod == "huge":
            if binary:
                vv = [v if v != v else round(1.0 - v, 6) for v in vv]  # binary outcomes have no aberrant value: other values
            elif k == 0:
                obs = [j for j, v in enumerate(vv) if v == v]
                if obs:
                    vv[obs[0]] = 1e30
        elif mod is not None:
            raise ValueError(mod)
        rows.append((i, age, vv))
    return rows


def individual_event(i, mod):
    t, b = EVENTS[i]
    if mod == "miss":
        b = 1 - b
    elif mod == "far":
        t, b = t + 4.75, 1 - b
    return (t, b)


def cohort_frame(spec, ids, mods):
    dim = spec.get("dim", 2)
    rows = []
    for i in ids:
        rows += individual_rows(i, dim, spec.get("noise") == "bernoulli", mods.get(i))
    events = {i: individual_event(i, mods.get(i)) for i in ids} if spec["kind"] == "joint" else None
    return visits_frame(rows, [f"Y{k}" for k in range(dim)], events)


def cohort_dataset(spec, ids, mods):
    df = cohort_frame(spec, ids, mods)
    # a member without any observed value keeps its (empty) visits, as in the library's own single-individual datasets
    kw = {"drop_full_nan": False} if "none" in mods.values() else {}
    if spec["kind"] == "joint":
        # number of events given (as scipy_minimize does for its single-individual datasets): a cohort whose members
        # are all censored is refused otherwise
        return Dataset(Data.from_dataframe(df, "joint", factory_kws={"nb_events": 1}, **kw))
    return Dataset(Data.from_dataframe(df, **kw))


def ordered_cohorts(pool, kmax):
    out = []
    for k in range(1, kmax + 1):
        out += [list(p) for p in itertools.permutations(pool, k)]
    return out


def modification_maps(ids, kinds=MODS):
    """{} first, then every non-empty proper subset of the members x every modification kind."""
    out = [{}]
    n = len(ids)
    for k in range(1, n):
        for sub in itertools.combinations(ids, k):
            for m in kinds:
                out.append({i: m for i in sub})
    return out


def ind_var_names(state):
    return sorted(state.dag.sorted_variables_by_type[IndividualLatentVariable])


def latent_values(state, ids, mods):
    """Latent values of the cohort (attached to the individual; a "far" member gets other ones)."""
    out = {}
    for v in ind_var_names(state):
        var = state.dag[v]
        mode = var.prior.mode.call(state).reshape(-1).to(torch.float32)
        std = var.prior.stddev.call(state).reshape(-1).to(torch.float32)
        rows = []
        for i in ids:
            z = LATENT_Z[i][v]
            z = torch.tensor(z if isinstance(z, list) else [z], dtype=torch.float32)[: mode.numel()]
            if mods.get(i) == "far":
                z = 1.0 - 1.5 * z
            rows.append(mode + std * z)
        out[v] = torch.stack(rows)
    return out


def n_observations(spec, ds):
    n = ds.mask.reshape(ds.n_individuals, -1).sum(dim=1).tolist()
    return {i: int(x) + (1 if spec["kind"] == "joint" else 0) for i, x in zip(ds.indices, n)}


def tens(x):
    return x.weighted_value if isinstance(x, WeightedTensor) else x


def prepared_state(model, spec, ids, mods):
    ds = cohort_dataset(spec, ids, mods)
    if list(ds.indices) != list(ids):
        raise RuntimeError(f"harness: dataset order {ds.indices} differs from the requested one {ids}")
    st = fresh_state(model, ds)
    for v, val in latent_values(st, ids, mods).items():
        with st.auto_fork(None):
            st[v] = val
    return ds, st


# ------------------------------------------------------------------------------------------
# environment: draws attached to the individual

class IdEnv(seams.Env):
    """Row r of every (n_individuals, ...) draw belongs to the individual at position r: its content only depends on
    (individual, call index, element within the row, script)."""

    def __init__(self, ids, script=0, n_ind_vars=1):
        super().__init__()
        self.ids = list(ids)
        self.script = int(script)
        self.n_ind_vars = n_ind_vars
        self.n["n"] = 0

    def _rows(self, cycle, mult, call, shape):
        if len(shape) == 0 or shape[0] != len(self.ids):
            raise RuntimeError(f"harness: unexpected draw of shape {shape} for {len(self.ids)} individuals")
        per = 1
        for s in shape[1:]:
            per *= s
        vals = [[cycle[(mult * IDNUM[i] + call + 5 * e + 3 * self.script) % len(cycle)] for e in range(per)] for i in self.ids]
        return torch.tensor(vals, dtype=torch.float32).reshape(shape)

    def answer_randn(self, call, shape, kwargs):
        return self._rows(Z_CYCLE, 7, call, shape)

    def answer_rand(self, call, shape, kwargs):
        if self.script == HIGH_U_SCRIPT:
            # nearly every uniform draw is high: a proposal is only accepted when it improves the individual's own
            # posterior, so whole sweeps in which one individual (or everybody) rejects everything occur
            rows = self._rows(U_CYCLE, 4, call, shape)
            return torch.where(rows < 0.1, rows, torch.full_like(rows, 1.0 - 2.0 ** -10))
        return self._rows(U_CYCLE, 4, call, shape)

    def answer_shuffle(self, call, lst):
        return None

    # torch.normal(mean, std) as used by torch.distributions.Normal.sample for the random start points: scipy_minimize
    # draws individual by individual (shape (1, dim)), the k-th group of n_ind_vars calls belongs to position k
    def normal(self, mean, std, **kwargs):
        c = self.n["n"]
        self.n["n"] += 1
        shape = tuple(mean.shape)
        if len(shape) == 2 and shape[0] == 1:
            pos, sub = divmod(c, self.n_ind_vars)
            if pos >= len(self.ids):
                raise RuntimeError("harness: more start-point draws than individuals")
            i = self.ids[pos]
            z = torch.tensor([[Z_CYCLE[(7 * IDNUM[i] + 2 * sub + 5 * e + 3 * self.script) % len(Z_CYCLE)] for e in range(shape[1])]],
                             dtype=torch.float32)
        else:
            raise RuntimeError(f"harness: unexpected torch.normal of shape {shape}")
        out = mean + std * z.to(mean.dtype)
        self.log.append(("n", c, shape, out.reshape(-1).tolist()))
        return out


@contextlib.contextmanager
def normal_seam(env):
    orig = torch.normal
    torch.normal = env.normal
    try:
        yield
    finally:
        torch.normal = orig


# ------------------------------------------------------------------------------------------
# executions: every one returns {"ids", "shape", "n_obs", "per_id": {id: {name: tensor}}, "totals": {name: tensor}}

def _split_rows(ids, name, t, per_id):
    if t.shape[0] != len(ids):
        raise ValueError(f"'{name}' has shape {tuple(t.shape)} for {len(ids)} individuals")
    for k, i in enumerate(ids):
        per_id[i][name] = t[k].detach().clone()


def term_layout(state, spec):
    ivs = ind_var_names(state)
    per = ["nll_attach_ind"] + [f"nll_regul_{v}_ind" for v in ivs] + ["nll_regul_ind_sum_ind"]
    totals = {"nll_attach": "nll_attach_ind", "nll_regul_ind_sum": "nll_regul_ind_sum_ind"}
    totals.update({f"nll_regul_{v}": f"nll_regul_{v}_ind" for v in ivs})
    if spec["kind"] == "joint":
        per += ["nll_attach_y_ind", "nll_attach_event_ind"]
        totals.update({"nll_attach_y": "nll_attach_y_ind", "nll_attach_event": "nll_attach_event_ind"})
    return ivs, per, totals


def observe_terms(state, spec, ids, out):
    ivs, per, totals = term_layout(state, spec)
    for name in per:
        _split_rows(ids, name, tens(state[name]), out["per_id"])
    for name in totals:
        out["totals"][name] = tens(state[name]).detach().clone()
    out["ivs"] = ivs
    out["total_of"] = totals


def exec_terms(model, spec, ids, mods, **_):
    ds, st = prepared_state(model, spec, ids, mods)
    out = {"ids": list(ids), "shape": tuple(ds.values.shape), "n_obs": n_observations(spec, ds), "per_id": {i: {} for i in ids}, "totals": {}}
    observe_terms(st, spec, ids, out)
    return out


# tunings of the directly driven individual samplers: "default" = 3 adaptations of the scale by +-10 % in 6 sweeps;
# "aggressive" (valid options) = adapted after every sweep, x1.9 / x0.1: within 2 sweeps the scales of two individuals are
# more than two orders of magnitude apart, so any coupling of an individual's proposal scale to the cohort's shows
TUNINGS = {"default": dict(acceptation_history_length=ACC_WINDOW),
           "aggressive": dict(acceptation_history_length=1, adaptive_std_factor=0.9)}


def exec_sampler(model, spec, ids, mods, script=0, tuning="default", **_):
    ds, st = prepared_state(model, spec, ids, mods)
    n = len(ids)
    st.auto_fork_type = StateForkType.REF  # as the algorithms do around their sampling loops
    out = {"ids": list(ids), "shape": tuple(ds.values.shape), "n_obs": n_observations(spec, ds), "per_id": {i: {} for i in ids}, "totals": {},
           "decisions": {i: "" for i in ids}, "u": {i: [] for i in ids}}
    ivs = ind_var_names(st)
    samplers = {v: make_sampler("gibbs", st, v, n, **TUNINGS[tuning]) for v in ivs}
    env = IdEnv(ids, script)
    spied = {}

    def spy(v, smp):
        orig = smp._group_metropolis_step

        def step(alpha):
            res = orig(alpha)
            spied[v] = (alpha.detach().clone(), res.detach().clone())
            return res

        smp._group_metropolis_step = step

    for v, smp in samplers.items():
        spy(v, smp)
    with seams.seam(env):
        for s in range(N_SWEEPS):
            t_inv = 1.0 if s % 2 == 0 else 0.5
            for v in ivs:
                n_u, n_z = env.n["u"], env.n["z"]
                samplers[v].sample(st, temperature_inv=t_inv)
                alpha, accepted = spied.pop(v)
                _split_rows(ids, f"alpha[{s}][{v}]", alpha, out["per_id"])
                _split_rows(ids, f"decision[{s}][{v}]", accepted.to(torch.bool), out["per_id"])
                u_calls, z_calls = env.calls("u")[n_u:], env.calls("z")[n_z:]
                # one uniform per individual and one block of normals per individual in every step: what makes an
                # individual's stream of draws its own (observed here, judged in check_case)
                if [c[2] for c in u_calls] != [(n,)] and "draw_problem" not in out:
                    out["draw_problem"] = ("uniform", f"step {s} of '{v}' on cohort {ids}: uniform draws of shapes {[c[2] for c in u_calls]} "
                                                      f"for {n} individuals (acceptance ratios {alpha.tolist()})")
                if [c[2][:1] for c in z_calls] != [(n,)] and "draw_problem" not in out:
                    out["draw_problem"] = ("normal", f"step {s} of '{v}' on cohort {ids}: normal draws of shapes {[c[2] for c in z_calls]}")
                u = u_calls[0][3] if len(u_calls) == 1 and len(u_calls[0][3]) == n else None
                for k, i in enumerate(ids):
                    out["decisions"][i] += "A" if bool(accepted[k]) else "R"
                    if u is not None:
                        out["u"][i].append((f"alpha[{s}][{v}]", float(torch.tensor(u[k], dtype=torch.float32))))
            for v in ivs:
                _split_rows(ids, f"value[{s}][{v}]", st[v], out["per_id"])
    for v in ivs:
        _split_rows(ids, f"std[{v}]", samplers[v].std, out["per_id"])
    observe_terms(st, spec, ids, out)
    return out


def _ip_rows(ip, ids, out):
    got_ids, pyt = ip.to_pytorch()
    out["order"] = [str(x) for x in got_ids]
    for k, i in enumerate(out["order"]):
        out["per_id"].setdefault(i, {})
        for p, val in pyt.items():
            out["per_id"][i][p] = val[k].detach().clone()


PREFIT_IDS = ["e", "d", "c", "b", "a"]


def exec_mcmc(model, spec, ids, mods, script=0, algo="mode_posterior", prefit=False, **_):
    if prefit:
        # the model object was calibrated earlier in the session, always on the same 3 individuals (fixed data, seeded: the same
        # parameters in every execution); what the fit leaves in the object belongs to ITS individuals, position by position -
        # the cohorts of 3 personalised afterwards have the training cohort's size
        with contextlib.redirect_stdout(io.StringIO()):
            model.fit(cohort_dataset(spec, PREFIT_IDS[:3], {}), "mcmc_saem", seed=0, n_iter=3, n_burn_in_iter=2, progress_bar=False)
    ds = cohort_dataset(spec, ids, mods)
    out = {"ids": list(ids), "shape": tuple(ds.values.shape), "n_obs": n_observations(spec, ds), "per_id": {i: {} for i in ids}, "totals": {}}
    env = IdEnv(ids, script)
    with contextlib.redirect_stdout(io.StringIO()), seams.seam(env):
        ip = model.personalize(ds, algo, progress_bar=False, seed=0, **MCMC_KW)
    _ip_rows(ip, ids, out)
    out["draws"] = (env.n["z"], env.n["u"])
    return out


# solver options of the scipy part: default, and a tiny budget (valid user setting) under which every optimisation stops on
# the iteration limit - what an individual is given must not depend on what the optimisations before it did
SCIPY_OPTIONS = {"default": {}, "budget2": {"use_jacobian": False,
                                            "custom_scipy_minimize_params": {"method": "Powell", "options": {"maxiter": 2, "xtol": 1e-4, "ftol": 1e-4}}}}


def exec_scipy(model, spec, ids, mods, script=0, draws="by-id", n_jobs=1, options="default", **_):
    import copy as _copy

    okw = _copy.deepcopy(SCIPY_OPTIONS[options])
    ds = cohort_dataset(spec, ids, mods)
    out = {"ids": list(ids), "shape": tuple(ds.values.shape), "n_obs": n_observations(spec, ds), "per_id": {i: {} for i in ids}, "totals": {}}
    n_vars = len(ind_var_names(model.state))
    env = IdEnv(ids, script, n_ind_vars=n_vars)
    with contextlib.redirect_stdout(io.StringIO()):
        if draws == "by-id":
            with normal_seam(env):
                ip = model.personalize(ds, "scipy_minimize", progress_bar=False, seed=0, n_jobs=n_jobs, **okw)
        else:
            ip = model.personalize(ds, "scipy_minimize", progress_bar=False, seed=int(script), n_jobs=n_jobs, **okw)
    _ip_rows(ip, ids, out)
    if draws == "by-id" and spec["kind"] != "joint" and env.n["n"] == 0:
        # (the joint model starts from the first visit / the event time, without any draw)
        raise RuntimeError("harness: the torch.normal seam saw no start-point draw")
    return out


EXEC = {"terms": exec_terms, "sampler": exec_sampler, "mcmc": exec_mcmc, "scipy": exec_scipy}


class Runner:
    """Executes and caches (within one shard / one replay) the executions of one part on one model kind."""

    def __init__(self, part, model_name, **kw):
        self.part = part
        self.model_name = model_name
        self.spec = MODEL_SPECS[model_name]
        self.kw = kw
        self.cache = {}
        self.n_exec = 0
        self._model = None

    def model(self):
        # the personalisation algorithms assign model.state: a new model for each public call
        if self.part in ("terms", "sampler"):
            if self._model is None:
                self._model = build_model(self.spec)
            return self._model
        return build_model(self.spec)

    def prior_std(self):
        return prior_stds(build_model(self.spec))

    def run(self, ids, mods):
        key = (tuple(ids), tuple(sorted(mods.items())))
        if key not in self.cache:
            self.n_exec += 1
            try:
                self.cache[key] = EXEC[self.part](self.model(), self.spec, list(ids), dict(mods), **self.kw)
            except Exception as e:
                tb = e.__traceback__
                while tb.tb_next is not None:
                    tb = tb.tb_next
                raised_in = os.path.abspath(tb.tb_frame.f_code.co_filename)
                if str(e).startswith("harness:") or raised_in.startswith(_LMC_DIR):
                    raise  # raised by the harness's own code: HARNESS-ERROR, never a violation
                self.cache[key] = {"exc": (type(e).__name__, str(e)[:300])}  # implementation failure on an accepted cohort
        return self.cache[key]


# ------------------------------------------------------------------------------------------
# comparisons

def site_of(part, name, kw):
    if part == "terms":
        return f"state[{name}]"
    if part == "sampler":
        base = name.split("[")[0]
        if base.startswith("nll_"):
            return f"IndividualGibbsSampler.sample -> state[{name}]"
        return f"IndividualGibbsSampler.sample[{base}]"
    if part == "mcmc":
        return f"personalize({kw.get('algo')})"
    if part == "scipy":
        return "personalize(scipy_minimize)"
    return f"{part}[{name}]"


def _scale_of(name, value, n_obs, n_latent_dims):
    """Upper bound of sum |terms| behind a per-individual nll (see module docstring / DESIGN 2.3): Gaussian terms are
    0.5 z^2 + log(sigma) + 0.92 with |log sigma| <= 3 for the catalogue, so sum|terms| <= |value| + 8 per term."""
    v = float(value.abs().max()) if value.numel() else 0.0
    if v != v or v == float("inf"):
        return float("inf")
    n_terms = n_obs if "attach" in name else n_latent_dims
    return v + 8.0 * n_terms


def rounding_tol(name, value, n_obs, n_latent_dims):
    return 16 * EPS32 * _scale_of(name, value, n_obs, n_latent_dims)


def close(a, b, tol):
    if a.shape != b.shape:
        return False
    a64, b64 = a.to(torch.float64), b.to(torch.float64)
    fin = torch.isfinite(a64) & torch.isfinite(b64)
    if not torch.equal(torch.isfinite(a64), torch.isfinite(b64)):
        return False
    if (~fin).any():
        if not same_tensor(torch.where(fin, torch.zeros_like(a64), a64), torch.where(fin, torch.zeros_like(b64), b64)):
            return False
    return bool(((a64 - b64).abs()[fin] <= tol).all())


def compare_rows(part, kw, relation, i, mine, theirs, exact, n_obs, n_dims, u_list=None, opt_std=None):
    """Returns (problems [(signature, message)], n_rounded, skipped).  `relation` = "mismatch kind|input feature"."""
    probs, rounded = [], 0
    if "|" not in relation:
        relation += "|"
    if set(mine) != set(theirs):
        return [(f"{site_of(part, '*', kw)}|different set of outputs|{relation.split('|')[0]}", f"{sorted(mine)} vs {sorted(theirs)}")], 0, False
    u_of = dict(u_list or [])
    skipped = False
    for name in mine:  # insertion order = chronological order for the sampler
        a, b = mine[name], theirs[name]
        if same_tensor(a, b):
            continue
        if exact:
            probs.append((f"{site_of(part, name, kw)}|{relation}", f"individual '{i}' {name}: {a.tolist()!r} vs {b.tolist()!r}"))
            break  # later outputs of a chain follow from the first difference
        base = name.split("[")[0]
        if base == "decision":
            # a decision may only flip when u sits within the rounding tolerance of alpha: then nothing further is judged
            aname = name.replace("decision", "alpha")
            al, be = float(mine[aname]), float(theirs[aname])
            u = u_of.get(aname)
            if u is not None and min(al, be) * (1 - 1e-4) <= u <= max(al, be) * (1 + 1e-4):
                skipped = True
                break
            probs.append((f"{site_of(part, name, kw)}|{relation}", f"individual '{i}' {name}: {a.tolist()} vs {b.tolist()} (alpha {al!r} vs {be!r}, u={u!r})"))
            break
        if base == "alpha":
            # alpha = exp(-D): an absolute error of D of tol gives a relative error tol
            tol_d = 4 * rounding_tol("attach", torch.tensor(0.0), n_obs, n_dims) + 4 * rounding_tol("regul", torch.tensor(0.0), n_obs, n_dims)
            la, lb = torch.log(a.to(torch.float64)), torch.log(b.to(torch.float64))
            scale_d = float(torch.nan_to_num(la.abs(), posinf=0.0, nan=0.0).max())
            ok = close(la, lb, tol_d + 64 * EPS32 * scale_d)
        elif opt_std is not None:
            # two optimisations from two start points: parameters within 5e-2 prior standard deviations (DESIGN 2.3)
            ok = close(a, b, 5e-2 * float(opt_std[name].max()))
        elif base in ("value", "std") or part in ("mcmc", "scipy"):
            ok = close(a, b, 1e-5 * (1.0 + float(torch.nan_to_num(a.abs(), posinf=0.0, nan=0.0).max())))
        else:
            ok = close(a, b, rounding_tol(name, a, n_obs, n_dims))
        if ok:
            rounded += 1
            continue
        probs.append((f"{site_of(part, name, kw)}|{relation}", f"individual '{i}' {name}: {a.tolist()!r} vs {b.tolist()!r}"))
        break
    return probs, rounded, skipped


def check_totals(part, kw, out):
    probs = []
    ids = out["ids"]
    per = out["per_id"]
    for tot, src in out.get("total_of", {}).items():
        rows = torch.stack([per[i][src] for i in ids]).to(torch.float64)
        ref = rows.sum(dim=0)
        got = out["totals"][tot].to(torch.float64)
        if got.shape != ref.shape:
            probs.append((f"{site_of(part, tot, kw)}|total has another shape than one per-individual term|", f"{tuple(got.shape)}"))
            continue
        tol = 4 * len(ids) * EPS32 * float(torch.nan_to_num(rows.abs().sum(dim=0), posinf=0.0, nan=0.0).max()) + 1e-30
        if not close(got, ref, tol):
            probs.append((f"{site_of(part, tot, kw)}|total differs from the sum of the per-individual terms|",
                          f"{tot}={got.tolist()!r}, sum of {src}={ref.tolist()!r} (cohort {ids})"))
    ivs = out.get("ivs")
    if ivs:
        for i in ids:
            parts = torch.stack([per[i][f"nll_regul_{v}_ind"] for v in ivs]).to(torch.float64)
            ref = parts.sum(dim=0)
            got = per[i]["nll_regul_ind_sum_ind"].to(torch.float64)
            tol = 4 * len(ivs) * EPS32 * float(torch.nan_to_num(parts.abs().sum(dim=0), posinf=0.0, nan=0.0).max()) + 1e-30
            if not close(got, ref, tol):
                probs.append((f"{site_of(part, 'nll_regul_ind_sum_ind', kw)}|differs from the sum over the individual latent variables|",
                              f"individual '{i}': {got.tolist()!r} vs {ref.tolist()!r}"))
                break
    return probs


def total_dims(spec):
    return 2 + int(spec.get("ns", 0))


def check_case(runner, ids, mods):
    """Executes one case and its relation partners; returns (problems, info)."""
    part, kw, spec = runner.part, runner.kw, runner.spec
    info = {"rounded": 0, "skipped": 0, "relations": [], "out": None}
    out = runner.run(ids, mods)
    info["out"] = out
    call = {"terms": "state evaluation", "sampler": "IndividualGibbsSampler.sample", "mcmc": f"personalize({kw.get('algo')})",
            "scipy": "personalize(scipy_minimize)"}[part]
    if "exc" in out:
        feature = "cohort as is" if not mods else MOD_LABEL[sorted(mods.values())[0]]
        return [(f"{call}|{out['exc'][0]}|{feature}", f"{out['exc'][1]} (cohort {ids}, modifications {mods})")], info
    probs = []
    nd = total_dims(spec)
    if "order" in out and out["order"] != list(ids):
        probs.append((f"{call}|result keys are not the dataset's individuals in the dataset's order|", f"{out['order']} for cohort {ids}"))
        return probs, info
    probs += check_totals(part, kw, out)
    if "draw_problem" in out:
        kind, msg = out["draw_problem"]
        probs.append((f"IndividualGibbsSampler.sample|draws consumed differ from one {kind} draw per individual and step|", msg))

    def versus(other_ids, other_mods, relation, who, exact, opt_std=None):
        other = runner.run(other_ids, other_mods)
        if "exc" in other:
            return  # reported by its own case
        same_shape = other["shape"][1:] == out["shape"][1:]
        for i in who:
            ex = exact if same_shape else False
            if part == "scipy":
                ex = exact  # one single-individual dataset per subject: the cohort's padded shape is irrelevant
            if opt_std is not None:
                ex = False
            p, r, s = compare_rows(part, kw, relation, i, out["per_id"][i], other["per_id"][i], ex, out["n_obs"][i], nd,
                                   u_list=out.get("u", {}).get(i), opt_std=opt_std)
            probs.extend(p)
            info["rounded"] += r
            info["skipped"] += int(s)
        info["relations"].append("others-changed" if relation.startswith("changes") else "permutation" if relation.startswith("differs")
                                 else "alone-vs-batch")

    if mods:
        kind = MOD_LABEL[sorted(mods.values())[0]]
        versus(ids, {}, f"changes when only OTHER individuals are modified|{kind}", [i for i in ids if i not in mods], True)
    else:
        if list(ids) != sorted(ids):
            if part == "scipy" and kw.get("draws") == "seeded":
                # the start point of the k-th optimisation is the k-th draw of the seeded generator: another optimisation
                versus(sorted(ids), {}, "differs between two orders of the same cohort beyond the optimiser tolerance", ids, False,
                       opt_std=runner.prior_std())
            elif part == "mcmc" and kw.get("algo") == "mean_posterior":
                # torch's mean over the kept iterations accumulates differently at different positions of the
                # (iterations, individuals, dims) tensor (x.mean(0)[perm] != x[:, perm].mean(0) in the last bit): rounding only
                versus(sorted(ids), {}, "differs between two orders of the same cohort beyond rounding", ids, False)
            else:
                versus(sorted(ids), {}, "differs between two orders of the same cohort", ids, True)
            other = runner.run(sorted(ids), {})
            if "exc" not in other:
                for tot, val in out["totals"].items():
                    src = out["total_of"][tot]
                    rows = torch.stack([out["per_id"][i][src] for i in ids]).to(torch.float64)
                    tol = 8 * len(ids) * EPS32 * float(torch.nan_to_num(rows.abs().sum(dim=0), posinf=0.0, nan=0.0).max()) + 1e-30
                    if not close(val, other["totals"][tot], tol):
                        probs.append((f"{site_of(part, tot, kw)}|total differs between two orders of the same cohort beyond the summation tolerance|",
                                      f"{val.tolist()!r} vs {other['totals'][tot].tolist()!r} ({ids})"))
        if len(ids) > 1:
            for i in ids:
                exact = part == "scipy" and (kw.get("draws") == "by-id" or i == ids[0])
                if part == "scipy" and not exact:
                    continue  # seeded start point of position k > 0 is another draw than the one of a singleton
                versus([i], {}, "alone vs in a cohort: beyond rounding" if not exact else "alone vs in a cohort: not identical", [i], exact)
    return probs, info


# ------------------------------------------------------------------------------------------
# n_jobs (separate interpreter)

def njobs_subprocess(model_name, cohorts, n_jobs_list):
    req = json.dumps({"model": model_name, "cohorts": cohorts, "n_jobs": n_jobs_list})
    env = dict(os.environ, PYTHONHASHSEED="0", OMP_NUM_THREADS="1", MKL_NUM_THREADS="1")
    verif = os.path.dirname(os.path.dirname(os.path.dirname(os.path.abspath(__file__))))
    # lmc/site_hooks/sitecustomize.py records every scipy.optimize.minimize call (start point, result) of that interpreter
    # AND of the joblib workers it starts (they inherit the environment): harness-side seam, nothing is altered
    hooks = os.path.join(verif, "lmc", "site_hooks")
    env["PYTHONPATH"] = os.pathsep.join([p for p in (env.get("PYTHONPATH"), verif, hooks) if p])
    import tempfile
    fd, rec = tempfile.mkstemp(prefix="lmc_c07_rec_", suffix=".jsonl", dir="/var/tmp")
    os.close(fd)
    env["LMC_SCIPY_RECORD"] = rec
    try:
        r = subprocess.run([sys.executable, "-W", "ignore", "-m", "lmc.c07_njobs"], input=req, capture_output=True, text=True, env=env, cwd=verif,
                           timeout=3000)
    finally:
        with contextlib.suppress(OSError):
            os.remove(rec)
    lines = [l for l in r.stdout.splitlines() if l.startswith("C07NJOBS ")]
    if r.returncode != 0 or not lines:
        raise RuntimeError(f"harness: n_jobs interpreter failed (rc={r.returncode}): {r.stderr[-1500:]}")
    out = json.loads(lines[-1][len("C07NJOBS "):])
    if not out.get("recording"):
        raise RuntimeError("harness: the scipy.optimize.minimize recording seam was not active in the n_jobs interpreter")
    return out


def _starts_by_id(rec, ids):
    """{individual: record} from the recorded minimize calls of one public call; None when they cannot be attributed."""
    starts = rec.get("starts") or []
    if len(starts) != len(ids):
        return None
    if all(s.get("patient_id") is not None for s in starts):
        d = {s["patient_id"]: s for s in starts}
        return d if sorted(d) == sorted(ids) else None
    return None


def objective(model, spec, i, params):
    """nll_attach + nll_regul_ind_sum of one individual alone at the given individual parameters (the function minimised)."""
    ds = cohort_dataset(spec, [i], {})
    st = fresh_state(model, ds)
    for v, val in params.items():
        with st.auto_fork(None):
            st[v] = torch.tensor(val, dtype=torch.float32).reshape(1, -1)
    return float(tens(st["nll_attach"]) + tens(st["nll_regul_ind_sum"]))


def prior_stds(model):
    st = model.state
    return {v: st.dag[v].prior.stddev.call(st).reshape(-1).to(torch.float64) for v in ind_var_names(st)}


def check_njobs(acc, model_name, cohorts, n_jobs_list):
    spec = MODEL_SPECS[model_name]
    res = njobs_subprocess(model_name, cohorts, n_jobs_list)
    model = build_model(spec)
    stds = prior_stds(model)
    for nj in n_jobs_list:
        if nj > 1 and res["effective"][str(nj)] != nj:
            raise RuntimeError(f"harness: joblib would run n_jobs={nj} with {res['effective'][str(nj)]} workers")
    base = res["results"]["1"]
    for nj in n_jobs_list:
        for c, ids in enumerate(cohorts):
            got = res["results"][str(nj)][c]
            case = {"part": "njobs", "model": model_name, "ids": ids, "n_jobs": nj, "all_cohorts": cohorts, "all_n_jobs": n_jobs_list}
            acc.evaluation()
            if len(acc.samples) < 1 and nj > 1:
                acc.sample(case)
            if nj > 1:
                acc.nontriv(repr(("njobs", model_name, tuple(ids), nj)))
            if "exc" in got:
                acc.violation(f"personalize(scipy_minimize)|{got['exc'][0]}|n_jobs={'1' if nj == 1 else '>1'}", got["exc"][1], case)
                acc.outcome(f"njobs:{got['exc'][0]}")
                continue
            if got["order"] != list(ids):
                acc.violation("personalize(scipy_minimize)|result keys are not the dataset's individuals in the dataset's order|"
                              f"n_jobs={'1' if nj == 1 else '>1'}", f"{got['order']} for cohort {ids} (n_jobs={nj})", case)
                continue
            # every optimisation was recorded (in this interpreter or in a worker): one per individual
            n_rec = len(got.get("starts") or [])
            if n_rec != len(ids):
                acc.violation("personalize(scipy_minimize)|number of optimisations run differs from the number of individuals|"
                              f"n_jobs={'1' if nj == 1 else '>1'}", f"{n_rec} recorded minimize calls for cohort {ids} (n_jobs={nj})", case)
            if nj > 1 and res["effective"][str(nj)] > 1 and len(ids) > 1:
                main_pid_calls = len({s["pid"] for s in (got.get("starts") or [])})
                acc.count("njobs: public calls whose optimisations ran in >= 2 distinct worker processes" if main_pid_calls >= 2
                          else "njobs: public calls served by one process")
            # a second identical call (same seed, same n_jobs, worker pool already used) gives the same answer
            again = got.get("again")
            if isinstance(again, dict):
                if "exc" in again:
                    acc.violation(f"personalize(scipy_minimize)|{again['exc'][0]}|second call, n_jobs={'1' if nj == 1 else '>1'}", again["exc"][1], case)
                elif again.get("order") != got["order"] or again.get("params") != got["params"]:
                    acc.violation("personalize(scipy_minimize)|a repeated seeded call gives another result|"
                                  f"n_jobs={'1' if nj == 1 else '>1'}", f"cohort {ids} (n_jobs={nj}): first {got['params']} then {again.get('params')}", case)
                else:
                    s1, s2 = _starts_by_id(got, ids), _starts_by_id(again, ids)
                    if s1 is not None and s2 is not None and any(s1[i]["x0"] != s2[i]["x0"] for i in ids):
                        acc.violation("personalize(scipy_minimize)|a repeated seeded call starts its optimisations elsewhere|"
                                      f"n_jobs={'1' if nj == 1 else '>1'}", f"cohort {ids} (n_jobs={nj})", case)
            if nj == 1 or "exc" in base[c]:
                continue
            # start points: the optimisation of every individual starts from the same point whatever the number of workers
            sb, sg = _starts_by_id(base[c], ids), _starts_by_id(got, ids)
            if sb is not None and sg is not None:
                bad = [i for i in ids if sb[i]["x0"] != sg[i]["x0"]]
                if bad:
                    i = bad[0]
                    acc.violation("personalize(scipy_minimize)|start point of an individual's optimisation depends on n_jobs|",
                                  f"individual '{i}' of {ids}: x0 {sb[i]['x0']} with n_jobs=1, {sg[i]['x0']} with n_jobs={nj}", case)
                acc.count("njobs: start points compared per individual")
            else:
                m1 = sorted(tuple(x["x0"]) for x in (base[c].get("starts") or []))
                m2 = sorted(tuple(x["x0"]) for x in (got.get("starts") or []))
                if m1 != m2:
                    acc.violation("personalize(scipy_minimize)|start points of the optimisations depend on n_jobs|",
                                  f"cohort {ids}: {m1} with n_jobs=1, {m2} with n_jobs={nj}", case)
                acc.count("njobs: start points compared as a multiset")
            identical = True
            for i in ids:
                p1, p2 = base[c]["params"][i], got["params"][i]
                if sorted(p1) != sorted(p2):
                    acc.violation("personalize(scipy_minimize)|other parameter names with n_jobs > 1|", f"{sorted(p2)} vs {sorted(p1)}", case)
                    continue
                if p1 != p2:
                    identical = False
                # parameters within 5e-2 prior standard deviations, objective within the ftol scale (DESIGN 2.3)
                worst = 0.0
                for v in p1:
                    a, b = torch.tensor(p1[v], dtype=torch.float64).reshape(-1), torch.tensor(p2[v], dtype=torch.float64).reshape(-1)
                    if a.shape != b.shape:
                        worst = float("inf")
                        break
                    d = ((a - b).abs() / stds[v][: a.numel()])
                    worst = max(worst, float(d.max()) if bool(torch.isfinite(d).all()) else (0.0 if same_tensor(a, b) else float("inf")))
                f1, f2 = objective(model, spec, i, p1), objective(model, spec, i, p2)
                f_ok = (f1 == f2) or abs(f1 - f2) <= 1e-3 * (1.0 + abs(f1))
                if worst > 5e-2 or not f_ok:
                    acc.violation("personalize(scipy_minimize)|result depends on n_jobs beyond the optimiser tolerance|",
                                  f"individual '{i}' of {ids}: n_jobs=1 {p1} (objective {f1!r}) vs n_jobs={nj} {p2} (objective {f2!r}); "
                                  f"largest distance {worst:.3g} prior std", case)
            acc.outcome("njobs:bit-identical to sequential" if identical else "njobs:within optimiser tolerance of sequential")


# ------------------------------------------------------------------------------------------
# shards

def _scripts(tier, seed):
    s = [0, 1] if tier == "quick" else [0, 1, 2]
    if seed not in s:
        s = s[:-1] + [int(seed)] if tier == "quick" else s + [int(seed)]
    return s


def shards(tier, seed):
    """Cheapest parts first.  `subsets`: "every" = every non-empty proper subset of the members is modified,
    "all-others" = for cohorts of 3 only the complements of one focal member (cohorts of 2: the same thing)."""
    out = []
    thorough = tier == "thorough"
    scripts = _scripts(tier, seed)
    for m in ALL_MODELS:
        out.append({"part": "terms", "model": m, "pool": IDS, "kmax": 3, "subsets": "every" if thorough else "all-others", "tier": tier})
    for m in (ALL_MODELS if thorough else QUICK_SAMPLER_MODELS):
        for s in scripts:
            out.append({"part": "sampler", "model": m, "pool": IDS if thorough else IDS[:4], "kmax": 3, "script": s, "subsets": "every" if thorough else "all-others",
                        "tier": tier})
    for m in (ALL_MODELS if thorough else QUICK_SAMPLER_MODELS[:3]):
        for s in (scripts if thorough else scripts[:1]):
            out.append({"part": "sampler", "model": m, "pool": IDS if thorough else IDS[:4], "kmax": 3, "script": s, "tuning": "aggressive",
                        "subsets": "every" if thorough else "all-others", "tier": tier})
    for m in (ALL_MODELS if thorough else QUICK_MCMC_MODELS):
        for algo in ("mode_posterior", "mean_posterior"):
            for s in ((scripts[:1] + scripts[-1:] if m in QUICK_MCMC_MODELS else scripts[:1]) if thorough else scripts[-1:]):
                out.append({"part": "mcmc", "model": m, "algo": algo, "pool": IDS if thorough else IDS[:4], "kmax": 3, "script": s,
                            "subsets": "every" if thorough else "all-others", "tier": tier})
    # mean_posterior under the "high uniforms" script (sweeps in which everything is rejected), and both algorithms on a model
    # object fitted in the session on a cohort of the same size
    for m in ((QUICK_MCMC_MODELS if thorough else QUICK_MCMC_MODELS[:1])):
        out.append({"part": "mcmc", "model": m, "algo": "mean_posterior", "pool": IDS[:4] if thorough else IDS[:3], "kmax": 3 if thorough else 2,
                    "script": HIGH_U_SCRIPT, "subsets": "all-others", "tier": tier})
        for algo in ("mean_posterior", "mode_posterior") if thorough else ("mean_posterior",):
            out.append({"part": "mcmc", "model": m, "algo": algo, "pool": IDS[:3], "kmax": 3, "script": scripts[0], "prefit": True,
                        "subsets": "all-others", "tier": tier})
    # scipy_minimize: one shard per unordered cohort (its orders, its modifications, its singletons)
    pool = IDS if thorough else IDS[:4]
    kmax = 3 if thorough else 2
    for m in (THOROUGH_SCIPY_MODELS if thorough else QUICK_SCIPY_MODELS):
        for k in range(2, kmax + 1):
            for comb in itertools.combinations(pool, k):
                for draws in ("by-id", "seeded"):
                    if draws == "seeded" and (MODEL_SPECS[m]["kind"] == "joint" or (k == 3 and m != THOROUGH_SCIPY_MODELS[0])):
                        continue  # the joint model starts from the data, without any draw: its seeded pass is the by-id pass
                    out.append({"part": "scipy", "model": m, "members": list(comb), "draws": draws, "subsets": "all-others",
                                "script": 0 if draws == "by-id" else int(seed), "tier": tier})
                    if draws == "by-id" and (thorough or (m == QUICK_SCIPY_MODELS[0] and comb in (("a", "b"), ("b", "c")))):
                        out.append({"part": "scipy", "model": m, "members": list(comb), "draws": draws, "subsets": "all-others",
                                    "script": 0, "options": "budget2", "tier": tier})
    for m in (THOROUGH_NJOBS_MODELS if thorough else QUICK_NJOBS_MODELS):
        if thorough:
            cohorts = ordered_cohorts(IDS[:4], 2) + NJOBS_TRIPLES + [["d", "b", "a"], ["e", "a", "b"]] + NJOBS_FIVES
            out.append({"part": "njobs", "model": m, "cohorts": cohorts, "n_jobs": [1, 2, 3], "tier": tier})
        else:
            cohorts = ordered_cohorts(IDS[:3], 2) + NJOBS_TRIPLES + NJOBS_FIVES[1:]
            out.append({"part": "njobs", "model": m, "cohorts": cohorts, "n_jobs": [1, 2], "tier": tier})
    # one shard of every part first (the evidence samples are taken from the first shards), otherwise cheapest parts first
    first, seen = [], set()
    for sh in out:
        if sh["part"] not in seen:
            seen.add(sh["part"])
            first.append(sh)
    return first + [sh for sh in out if not any(sh is f for f in first)]


def case_of(shard, ids, mods):
    c = {"part": shard["part"], "model": shard["model"], "ids": list(ids), "mods": dict(mods)}
    for k in ("script", "algo", "draws", "tuning", "options", "prefit"):
        if k in shard:
            c[k] = shard[k]
    return c


def runner_of(case):
    kw = {k: case[k] for k in ("script", "algo", "draws", "tuning", "options", "prefit") if k in case}
    return Runner(case["part"], case["model"], **kw)


def record(acc, runner, case, probs, info):
    acc.evaluation()
    ids, mods = case["ids"], case["mods"]
    if len(ids) > 1:
        acc.nontriv(repr((case["part"], case.get("algo"), case["model"], tuple(ids), tuple(sorted(mods.items())), case.get("script"), case.get("draws"),
                          case.get("tuning"), case.get("options"), case.get("prefit"))))
    out = info["out"]
    part = case["part"]
    if out is not None and "exc" in out:
        acc.outcome(f"{part}:{out['exc'][0]}")
    elif part == "sampler" and out is not None:
        for i in ids:
            acc.outcome(f"sampler:{out['decisions'][i][:6]}")
    elif out is not None:
        rel = "+".join(sorted(set(info["relations"]))) or "reference execution"
        acc.outcome(f"{part}:{rel}:{'equal within tolerance' if info['rounded'] else 'bit-identical'}")
    acc.count(f"{part}: outputs equal within the stated tolerance but not bit-identical", info["rounded"])
    acc.count(f"{part}: comparisons skipped (uniform draw within rounding of the acceptance ratio)", info["skipped"])
    for sig, msg in probs:
        acc.violation(sig, msg, case)


def run_shard(shard):
    acc = Acc()
    part = shard["part"]
    if part == "njobs":
        check_njobs(acc, shard["model"], shard["cohorts"], shard["n_jobs"])
        return acc.to_dict()
    runner = runner_of(shard)
    if part == "scipy":
        members = shard["members"]
        cohorts = [[i] for i in members] + [list(p) for p in itertools.permutations(members)]
    else:
        cohorts = ordered_cohorts(shard["pool"], shard["kmax"])
    kinds = MODS_WITH_NONE if part in PARTS_WITH_NONE else MODS
    if part in PARTS_WITH_HUGE[shard.get("tier", "quick")] and not shard.get("prefit") and shard.get("script") != HIGH_U_SCRIPT:
        kinds = kinds + ("huge",)
    for ids in cohorts:
        maps = modification_maps(ids, kinds)
        if len(ids) == 3 and shard["subsets"] == "all-others":
            maps = [{}] + [{j: m for j in ids if j != i} for i in ids for m in kinds]
        for mods in maps:
            case = case_of(shard, ids, mods)
            probs, info = check_case(runner, ids, mods)
            record(acc, runner, case, probs, info)
            if len(acc.samples) < 1 and len(ids) == 3 and mods and list(ids) != sorted(ids):
                acc.sample(dict(case, relations=info["relations"], frame=cohort_frame(runner.spec, ids, mods).to_dict("list")))
    acc.count(f"{part}: executions of the implementation", runner.n_exec)
    return acc.to_dict()


def replay(case):
    if case["part"] == "njobs":
        acc = Acc()
        check_njobs(acc, case["model"], case["all_cohorts"], case["all_n_jobs"])
        return [{"signature": v["signature"], "message": v["message"]} for v in acc.violations.values()]
    runner = runner_of(case)
    probs, _ = check_case(runner, case["ids"], case["mods"])
    return [{"signature": s, "message": m} for s, m in probs]


def self_check():
    """The individual-indexed environment is active inside the sampler and gives an individual the same draws at
    every position; the modification helpers leave the focal member's rows untouched."""
    seams.self_check()
    from leaspy.samplers.gibbs import IndividualGibbsSampler

    rows = {}
    for ids in (["a", "b"], ["b", "a"], ["b"]):
        env = IdEnv(ids, 0)
        with seams.seam(env):
            s = IndividualGibbsSampler("xi", (1,), n_patients=len(ids), scale=1.0)
            val = s._proposed_change().reshape(-1).tolist()
        for i, x in zip(ids, val):
            rows.setdefault(i, set()).add(x)
    assert all(len(v) == 1 for v in rows.values()) and rows["a"] != rows["b"], rows
    spec = MODEL_SPECS["joint_d2_s1_diag"]
    base = cohort_frame(spec, ["a", "b"], {})
    for m in MODS:
        alt = cohort_frame(spec, ["a", "b"], {"b": m})
        assert base[base.ID == "a"].equals(alt[alt.ID == "a"]) and not base[base.ID == "b"].equals(alt[alt.ID == "b"]), m

"""Run checks against a mutated copy of the repository (scratch git worktree outside /repo and /verif).

  python -m lmc.mutate <patch-or-dir> [--props C01,C02] [--tier quick] [--tests "tests/unit_tests/variables"]

<patch> is a unified diff applicable to /repo (git apply).  The worktree is created under /var/tmp, the
checks are run with PYTHONPATH=<worktree>/src (evidence goes to a scratch directory, never /verif/evidence),
the optional pytest selection is run inside the worktree, and the worktree is removed afterwards.
"""

from __future__ import annotations

import argparse
import json
import os
import shutil
import subprocess
import sys
import tempfile
from pathlib import Path


def sh(cmd, timeout=None, **kw):
    try:
        return subprocess.run(cmd, shell=True, text=True, capture_output=True, timeout=timeout, **kw)
    except subprocess.TimeoutExpired as e:
        class R:  # minimal stand-in
            returncode = 124
            stdout = (e.stdout or b"").decode() if isinstance(e.stdout, bytes) else (e.stdout or "")
            stderr = "TIMEOUT"
        return R()


def baseline_signatures(prop):
    """Signatures the check reports on the unchanged tree (known findings), read from the committed evidence."""
    import json as _j
    try:
        ev = _j.loads((Path("/verif/evidence") / f"{prop}.json").read_text())
        return set(ev["coverage"].get("known_findings_seen", [])) | set(ev["coverage"].get("violation_signatures", []))
    except Exception:
        return set()


def main():
    ap = argparse.ArgumentParser()
    ap.add_argument("patch")
    ap.add_argument("--props", default=None)
    ap.add_argument("--tier", default="quick")
    ap.add_argument("--tests", default=None)
    ap.add_argument("--jobs", default="14")
    ap.add_argument("--keep", action="store_true")
    ap.add_argument("--timeout", type=float, default=3600)
    args = ap.parse_args()

    patch = Path(args.patch)
    meta = {}
    if patch.is_dir():
        meta = json.loads((patch / "meta.json").read_text()) if (patch / "meta.json").exists() else {}
        patch = patch / "patch.diff"
    props = (args.props or meta.get("property") or "").split(",")
    wt = Path(tempfile.mkdtemp(prefix="lmc_mut_", dir="/var/tmp"))
    shutil.rmtree(wt)
    r = sh(f"git -C /repo worktree add --detach {wt} HEAD")
    if r.returncode:
        print(r.stderr)
        return 2
    rc_all = {}
    try:
        r = sh(f"git -C {wt} apply {patch.resolve()}")
        if r.returncode:
            print("PATCH DOES NOT APPLY:", r.stderr)
            return 2
        env = dict(os.environ, PYTHONPATH=f"{wt}/src", LMC_ALLOW_OTHER_REPO="1", PYTHONHASHSEED="0",
                   LMC_EVIDENCE_DIR=str(wt / "_evidence"), LMC_REPLAY_DIR=str(wt / "_replays"), LMC_JOBS=args.jobs)
        if args.tests:
            r = sh(f"cd {wt} && /venv/bin/python -m pytest -q -x -p no:cacheprovider {args.tests} 2>&1 | tail -3", env=env)
            print("TESTS:", r.stdout.strip().splitlines()[-1] if r.stdout.strip() else r.stderr[-300:])
        for p in props:
            p = p.strip()
            if not p:
                continue
            r = sh(f"cd /verif && /venv/bin/python -m lmc.run {p} --tier {args.tier}", env=env, timeout=args.timeout)
            sigs = [l.strip()[len("signature: "):] for l in r.stdout.splitlines() if l.strip().startswith("signature:")]
            head = [l for l in r.stdout.splitlines() if l.startswith("[")]
            base = baseline_signatures(p)
            new = [x for x in sigs if x not in base]
            print(f"{p}: exit={r.returncode} new_signatures={len(new)} {head[0] if head else ''}")
            for l in new[:40]:
                print("    signature:", l)
            if r.returncode not in (0, 1):
                print(r.stderr[-1500:])
            rc_all[p] = r.returncode
    finally:
        if not args.keep:
            sh(f"git -C /repo worktree remove --force {wt}")
            shutil.rmtree(wt, ignore_errors=True)
            sh("git -C /repo worktree prune")
    print("RESULT", json.dumps(rc_all))
    return 0


if __name__ == "__main__":
    sys.exit(main())

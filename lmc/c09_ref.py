"""C09 reference: float64 numpy implementation of the documented individual-trajectory formulas.

Written from the documentation (docs/models.md, docstrings of utils/linalg.py and of the model classes), not from
the torch code paths:

    psi_i(t)   = exp(xi_i) * (t - tau_i)                                   (time reparametrisation)
    w_i        = A s_i,  A = (B beta)^T,  B = Householder basis of span(G v0)^perp, first column stripped
    logistic   : gamma_ik(t) = 1 / (1 + g_k exp(-(1+g_k)^2/g_k * (v0_k psi_i(t) + w_ik)))
    linear     : gamma_ik(t) = g_k + v0_k psi_i(t) + w_ik
    shared     : gamma_ik(t) = 1 / (1 + g exp(-delta_k) exp(-(psi_i(t) + m_k w_ik))),  delta_1 = 0,
                 m_k = (g e^{-delta_k} + 1)^2 / (g e^{-delta_k});  basis built from d = e^{-delta}/(1+g e^{-delta})^2
                 under the metric 1 / (p (1-p))^2 at p = 1/(1+g e^{-delta})

Every input number is first rounded to float32 (the dtype in which leaspy stores parameters, individual
parameters and ages); everything after that is float64.  Next to each value the module returns a *derived*
rounding tolerance for a float32 evaluation of the same formula (see ``trajectory``).
"""

from __future__ import annotations

import numpy as np
from scipy.special import expit

EPS32 = float(np.finfo(np.float32).eps)  # 2**-23

LOGISTIC_KINDS = ("logistic", "joint", "shared_speed_logistic")


def f32(x):
    """Value of x once stored as float32, as float64."""
    return np.asarray(x, dtype=np.float32).astype(np.float64)


def householder_basis(d: np.ndarray) -> np.ndarray:
    """Documented construction (utils/linalg.py): Q = I - 2 v v^T with v = u/|u|, u = d - alpha e_0,
    alpha = -sign(d_0) |d|; the column collinear to d (column 0) is dropped.  Shape (dim, dim - 1)."""
    d = np.asarray(d, dtype=np.float64)
    n = d.shape[0]
    e0 = np.zeros(n)
    e0[0] = 1.0
    alpha = -np.sign(d[0]) * np.linalg.norm(d)
    u = d - alpha * e0
    v = u / np.linalg.norm(u)
    q = np.eye(n) - 2.0 * np.outer(v, v)
    return q[:, 1:]


def population(kind: str, dim: int, ns: int, params: dict) -> dict:
    """Population-level quantities of the closed form from the model *file* parameters."""
    out = {"kind": kind, "dim": dim, "ns": ns}
    if kind in ("logistic", "joint"):
        lg = f32(params["log_g_mean"])
        g = np.exp(lg)
        v0 = np.exp(f32(params["log_v0_mean"]))
        metric = (g + 1.0) ** 2 / g
        out.update(log_g=lg, g=g, v0=v0, metric=metric, direction=metric**2 * v0, at_ref=1.0 / (1.0 + g))
    elif kind == "linear":
        g = f32(params["g_mean"])
        v0 = np.exp(f32(params["log_v0_mean"]))
        out.update(g=g, v0=v0, metric=np.ones(dim), direction=v0.copy(), at_ref=g.copy())
    elif kind == "shared_speed_logistic":
        lg = float(f32(params["log_g_mean"])[0])
        g = np.exp(lg)
        deltas = np.concatenate([[0.0], f32(params["deltas_mean"])]) if dim > 1 else np.zeros(1)
        ge = g * np.exp(-deltas)
        metric = (ge + 1.0) ** 2 / ge
        p0 = 1.0 / (1.0 + ge)
        g_metric = 1.0 / (p0 * (1.0 - p0)) ** 2
        collin = np.exp(-deltas) / (1.0 + ge) ** 2
        out.update(log_g=lg, g=g, deltas=deltas, metric=metric, direction=g_metric * collin, at_ref=p0)
    else:
        raise ValueError(kind)
    if ns:
        betas = f32(params["betas_mean"]).reshape(dim - 1, ns)
        basis = householder_basis(out["direction"])  # (dim, dim-1)
        out["betas"] = betas
        out["basis"] = basis
        out["mixing"] = (basis @ betas).T  # (ns, dim)
        out["beta_abs_colsum"] = np.abs(betas).sum(axis=0)  # (ns,)
    return out


def space_shift(pop: dict, sources):
    """(w, dw): space shift of one individual and a bound on the float32 rounding error of it.

    dw: the basis entries are <= 1 in modulus and are obtained by a (backward stable) Householder reflection from
    a direction known to a few eps32; w_k = sum_j s_j sum_i B_ki beta_ij is a sum of (dim-1)*ns products.  Every
    partial product is bounded by |s_j| |beta_ij|, hence dw <= 64 eps32 * sum_j |s_j| sum_i |beta_ij|
    (64 covers the <= 12 terms of the largest configuration with a few eps32 each)."""
    dim = pop["dim"]
    if not pop["ns"]:
        return np.zeros(dim), 0.0
    s = f32(sources).reshape(pop["ns"])
    w = s @ pop["mixing"]
    dw = 64.0 * EPS32 * float(np.abs(s) @ pop["beta_abs_colsum"])
    return w, dw


def trajectory(pop: dict, xi, tau, sources, ages):
    """Return (values, tol), both of shape (n_ages, dim), float64.

    tol bounds |float32 evaluation - exact value| for any order of the elementary operations:
    each of exp, log, +, -, *, / contributes <= ~1.5 eps32 relative to its own result, at most ~10 of them are
    chained on any term, so every *term* of the final sum is known to 16 eps32 relative; the terms are then added
    (absolute error <= 16 eps32 * sum |terms| + |metric| dw).  For the logistic curves this logit error dx is pushed
    through the (monotone) sigmoid: |dy| <= sigmoid(x + dx) - sigmoid(x - dx), plus 4 eps32 for the sigmoid
    itself and the final rounding (values <= 1)."""
    kind, dim = pop["kind"], pop["dim"]
    t = f32(ages).reshape(-1)
    psi = np.exp(float(f32(xi))) * (t - float(f32(tau)))  # (n,)
    w, dw = space_shift(pop, sources)
    psi = psi[:, None]
    if kind in ("logistic", "joint"):
        a = pop["metric"] * pop["v0"] * psi
        b = pop["metric"] * w
        c = -pop["log_g"]
        x = a + b + c
        dx = 16.0 * EPS32 * (np.abs(a) + np.abs(b) + np.abs(c)) + pop["metric"] * dw
        y = expit(x)
        tol = (expit(x + dx) - expit(x - dx)) + 4.0 * EPS32
    elif kind == "shared_speed_logistic":
        a = psi + np.zeros(dim)
        b = pop["metric"] * w
        c = pop["deltas"] - pop["log_g"]
        x = a + b + c
        dx = 16.0 * EPS32 * (np.abs(a) + np.abs(b) + np.abs(pop["deltas"]) + abs(pop["log_g"])) + pop["metric"] * dw
        y = expit(x)
        tol = (expit(x + dx) - expit(x - dx)) + 4.0 * EPS32
    elif kind == "linear":
        a = pop["v0"] * psi
        y = pop["g"] + a + w
        tol = 16.0 * EPS32 * (np.abs(pop["g"]) + np.abs(a) + np.abs(w)) + dw + 4.0 * EPS32 * np.abs(y)
    else:
        raise ValueError(kind)
    return y, np.broadcast_to(tol, y.shape).copy()


def at_reference_time(pop: dict):
    """(value, tol) of an unshifted individual at t = tau, straight from the statement: 1/(1+g) (logistic, joint),
    1/(1+g e^{-delta_k}) (shared speed), g (linear: intercept).  tol: logit known to 16 eps32 (|log g| + |delta|),
    sigmoid slope <= 1/4, + 4 eps32."""
    v = pop["at_ref"]
    if pop["kind"] == "linear":
        return v, 16.0 * EPS32 * np.abs(v) + 4.0 * EPS32
    scale = np.abs(pop["log_g"]) + (np.abs(pop["deltas"]) if "deltas" in pop else 0.0)
    return v, 0.25 * 16.0 * EPS32 * scale + 4.0 * EPS32

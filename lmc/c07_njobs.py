"""C07 helper: model.personalize(scipy_minimize, n_jobs=k) in a fresh, NON-daemonic interpreter.

joblib refuses to start workers from a daemonic process (the runner's pool workers are daemonic) and silently
falls back to a sequential loop there, which would make the n_jobs relation vacuous.  Reads one JSON request on stdin
{"model": catalogue name, "cohorts": [[ids...]...], "n_jobs": [1, 2, ...]} and prints one line
``C07NJOBS {"effective": {n_jobs: workers joblib will use}, "results": {n_jobs: [ {order, params{id:{var:[...]}}} | {exc} ]}}``.
All the runs of one n_jobs value are grouped so that the worker pool is started once per value.

When LMC_SCIPY_RECORD names a file (set by the parent together with lmc/site_hooks on PYTHONPATH) every call of
``scipy.optimize.minimize`` - in this interpreter or in a joblib worker - appends its start point and result there; this
program writes a marker line before each public call so that the parent can group the records:  each result then carries
``"starts": [{patient_id, x0, x, fun, pid}, ...]``.  Every cohort is personalised twice in a row with each n_jobs value
(``"again"``: the second answer), the second time with a worker pool that has already served.
"""

from __future__ import annotations

import contextlib
import io
import json
import sys


def main():
    import warnings

    warnings.filterwarnings("ignore")
    import logging

    logging.disable(logging.CRITICAL)
    import torch

    torch.set_num_threads(1)
    import joblib

    import leaspy.models  # noqa: F401
    from lmc.models import MODEL_SPECS, build_model
    from lmc.props.c07 import cohort_dataset

    import os

    rec_path = os.environ.get("LMC_SCIPY_RECORD")

    def mark(tag):
        if rec_path:
            with open(rec_path, "a") as f:
                f.write(json.dumps({"marker": tag}) + "\n")

    def one_call(model, ds, nj):
        with contextlib.redirect_stdout(io.StringIO()):
            ip = model.personalize(ds, "scipy_minimize", progress_bar=False, seed=0, n_jobs=nj)
        order, pyt = ip.to_pytorch()
        order = [str(x) for x in order]
        # python floats of float32 values: exact through JSON
        params = {i: {p: v[k].reshape(-1).tolist() for p, v in pyt.items()} for k, i in enumerate(order)}
        return {"order": order, "params": params}

    req = json.loads(sys.stdin.read())
    spec = MODEL_SPECS[req["model"]]
    out = {"effective": {}, "results": {}}
    for nj in req["n_jobs"]:
        out["effective"][str(nj)] = int(joblib.effective_n_jobs(nj))
        res = []
        for c, ids in enumerate(req["cohorts"]):
            model = build_model(spec)
            ds = cohort_dataset(spec, ids, {})
            try:
                mark([nj, c, 0])
                r = one_call(model, ds, nj)
                mark([nj, c, 1])
                try:
                    r["again"] = one_call(build_model(spec), cohort_dataset(spec, ids, {}), nj)
                except Exception as e:
                    r["again"] = {"exc": [type(e).__name__, str(e)[:300]]}
                res.append(r)
            except Exception as e:  # implementation failure: judged by the parent
                res.append({"exc": [type(e).__name__, str(e)[:300]]})
        out["results"][str(nj)] = res
    mark("end")
    if rec_path:
        groups, cur = {}, None
        for line in open(rec_path):
            d = json.loads(line)
            if "marker" in d:
                cur = None if d["marker"] == "end" else tuple(d["marker"])
                if cur is not None:
                    groups[cur] = []
            elif cur is not None:
                groups[cur].append(d)
        for nj in req["n_jobs"]:
            for c in range(len(req["cohorts"])):
                r = out["results"][str(nj)][c]
                r["starts"] = groups.get((nj, c, 0), [])
                if isinstance(r.get("again"), dict):
                    r["again"]["starts"] = groups.get((nj, c, 1), [])
    out["recording"] = bool(rec_path)
    print("C07NJOBS " + json.dumps(out))
    return 0


if __name__ == "__main__":
    sys.exit(main())

"""C07 helper: model.personalize(scipy_minimize, n_jobs=k) in a fresh, NON-daemonic interpreter.

joblib refuses to start workers from a daemonic process (the runner's pool workers are daemonic) and silently
falls back to a sequential loop there, which would make the n_jobs relation vacuous.  Reads one JSON request on stdin
{"model": catalogue name, "cohorts": [[ids...]...], "n_jobs": [1, 2, ...]} and prints one line
``C07NJOBS {"effective": {n_jobs: workers joblib will use}, "results": {n_jobs: [ {order, params{id:{var:[...]}}} | {exc} ]}}``.
All the runs of one n_jobs value are grouped so that the worker pool is started once per value.
"""

from __future__ import annotations

import contextlib
import io
import json
import sys


def main():
    import warnings

    warnings.filterwarnings("ignore")
    import logging

    logging.disable(logging.CRITICAL)
    import torch

    torch.set_num_threads(1)
    import joblib

    import leaspy.models  # noqa: F401
    from lmc.models import MODEL_SPECS, build_model
    from lmc.props.c07 import cohort_dataset

    req = json.loads(sys.stdin.read())
    spec = MODEL_SPECS[req["model"]]
    out = {"effective": {}, "results": {}}
    for nj in req["n_jobs"]:
        out["effective"][str(nj)] = int(joblib.effective_n_jobs(nj))
        res = []
        for ids in req["cohorts"]:
            model = build_model(spec)
            ds = cohort_dataset(spec, ids, {})
            try:
                with contextlib.redirect_stdout(io.StringIO()):
                    ip = model.personalize(ds, "scipy_minimize", progress_bar=False, seed=0, n_jobs=nj)
                order, pyt = ip.to_pytorch()
                order = [str(x) for x in order]
                # python floats of float32 values: exact through JSON
                params = {i: {p: v[k].reshape(-1).tolist() for p, v in pyt.items()} for k, i in enumerate(order)}
                res.append({"order": order, "params": params})
            except Exception as e:  # implementation failure: judged by the parent
                res.append({"exc": [type(e).__name__, str(e)[:300]]})
        out["results"][str(nj)] = res
    print("C07NJOBS " + json.dumps(out))
    return 0


if __name__ == "__main__":
    sys.exit(main())

"""Plain pytest entry point replaying stored cases without the explorer:

    PYTHONHASHSEED=0 /venv/bin/python -m pytest -q /verif/lmc/replay_test.py            (all files under /verif/replays)
    LMC_REPLAY_GLOB='/verif/replays/C02/*.json' ... -m pytest ...

Each file is a violation found earlier; the test FAILS while the violation still reproduces.
"""
import glob
import importlib
import json
import os

import pytest

FILES = sorted(glob.glob(os.environ.get("LMC_REPLAY_GLOB", "/verif/replays/*/*.json")))


@pytest.mark.parametrize("path", FILES or [None])
def test_replay(path):
    if path is None:
        pytest.skip("no stored replay file")
    rec = json.load(open(path))
    mod = importlib.import_module(f"lmc.props.{rec['property'].lower()}")
    problems = mod.replay(rec["case"])
    assert not problems, f"{rec['property']} still violated on {path}: {problems[:2]}"

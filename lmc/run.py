"""CLI: python -m lmc.run <ID> --tier quick|thorough   |   python -m lmc.run --replay <file>"""

from __future__ import annotations

import argparse
import os
import sys


def main(argv=None):
    ap = argparse.ArgumentParser()
    ap.add_argument("prop", nargs="?")
    ap.add_argument("--tier", default=os.environ.get("VERIF_TIER", "quick"), choices=["quick", "thorough"])
    ap.add_argument("--seed", type=int, default=int(os.environ.get("VERIF_SEED", "0") or 0))
    ap.add_argument("--jobs", type=int, default=int(os.environ.get("LMC_JOBS", "0") or 0))
    ap.add_argument("--budget", type=float, default=None, help="wall-clock cap in seconds (reported as a cap)")
    ap.add_argument("--replay", default=None)
    args = ap.parse_args(argv)

    if os.environ.get("PYTHONHASHSEED") != "0":
        # hash order of sets is one of the owned sources of nondeterminism: re-exec with it fixed
        os.environ["PYTHONHASHSEED"] = "0"
        os.execv(sys.executable, [sys.executable, "-m", "lmc.run"] + (argv if argv is not None else sys.argv[1:]))

    os.environ.setdefault("OMP_NUM_THREADS", "1")
    os.environ.setdefault("MKL_NUM_THREADS", "1")
    os.environ["LEASPY_VERIF"] = "1"
    import warnings

    warnings.filterwarnings("ignore")
    from lmc import core

    if args.replay:
        return core.replay_file(args.replay)
    if not args.prop:
        ap.error("property id required")
    jobs = args.jobs or min(14, os.cpu_count() or 1)
    return core.run_property(args.prop.upper(), args.tier, args.seed, jobs, args.budget)


if __name__ == "__main__":
    sys.exit(main())

"""Machinery of C13: explicit-state BFS over sequences of *public* calls on one model object.

An operation (JSON-able list):

  ["fit", cohort, form]                          model.fit(data, algorithm_settings=AlgorithmSettings("mcmc_saem", n_iter=3))
  ["estimate"]                                   model.estimate({id: ages}, IndividualParameters)
  ["personalize", algo, cohort, form]            model.personalize(data, algorithm_settings=AlgorithmSettings(algo, ...))
  ["simulate", "dataframe" | "random"]           model.simulate(algorithm_settings=AlgorithmSettings("simulate", ...))
  ["reload"]                                     model.save(file); exploration continues on BaseModel.load(file)

cohort in COHORTS, form in {"df", "dfi", "data", "dataset"} (how the observations are handed over: a table with ID/TIME
columns, a table indexed by (ID, TIME), a Data object, a Dataset object).

`check_transition` executes one operation on a live model and evaluates every oracle of the property around it;
`materialize` rebuilds a live model from a history (no oracle) - used by the replay and by the explorer's
cross-check of its deep copies.
"""

from __future__ import annotations

import contextlib
import copy
import hashlib
import io
import os
import pickle
import shutil
import struct
import sys
import tempfile
import traceback
import warnings

import numpy as np
import pandas as pd
import torch

import leaspy.models  # noqa: F401
from leaspy.algo import AlgorithmSettings
from leaspy.io.data import Data, Dataset
from leaspy.io.outputs import IndividualParameters
from leaspy.models import BaseModel
from leaspy.utils.weighted_tensor import WeightedTensor
from leaspy.variables.specs import (
    DataVariable,
    Hyperparameter,
    IndividualLatentVariable,
    ModelParameter,
    PopulationLatentVariable,
)

from .core import jsonable
from .models import MODEL_SPECS, build_model, cohort_frame
from .oracle import brief, tensor_bytes

SCRATCH_ROOT = "/var/tmp/c13"

# A, D: three individuals (fits and personalizations); B: two, C: one individual (personalizations only: 3-iteration
# fits of 2 individuals let xi_std collapse for some seeds, which leaspy refuses with LeaspyConvergenceError)
COHORTS = {"A": ["a", "b", "c"], "B": ["d", "e"], "C": ["e"], "D": ["d", "e", "b"]}
# Settings variants.  "default": only the number of iterations is given (burn-in left to its default fraction: the
# algorithm completes *its own copy* of the settings' parameters).  "custom": settings carrying NESTED containers which
# the algorithms complete / read (annealing switched on with its length left unset -> `annealing.n_iter` is derived by
# the algorithm; customised sampler parameters; customised solver options for scipy_minimize).
_ANNEALING = {"do_annealing": True, "initial_temperature": 4.0, "n_plateau": 2}
# `sampler_pop` is a valid (shared MCMC) option that the personalization algorithms accept with a warning: population
# samplers are then instantiated; the population variables must still come out untouched
_MCMC_CUSTOM = {"n_iter": 10, "annealing": _ANNEALING, "sampler_ind_params": {"acceptation_history_length": 5},
                "sampler_pop": "Gibbs", "sampler_pop_params": {"acceptation_history_length": 5}}
PERSONALIZE_KW = {
    "scipy_minimize": {
        "default": {},
        "custom": {"use_jacobian": False,
                   "custom_scipy_minimize_params": {"method": "Powell", "options": {"xtol": 1e-2, "ftol": 1e-2, "maxiter": 1}}},
    },
    "mode_posterior": {"default": {"n_iter": 10}, "custom": _MCMC_CUSTOM},
    "mean_posterior": {"default": {"n_iter": 10}, "custom": _MCMC_CUSTOM},
}
FIT_KW = {
    "default": {"n_iter": 3},
    "custom": {"n_iter": 4, "annealing": _ANNEALING, "sampler_pop_params": {"acceptation_history_length": 5}},
}


def variant_of(op):
    if op[0] == "fit":
        return op[3] if len(op) > 3 else "default"
    if op[0] == "personalize":
        return op[4] if len(op) > 4 else "default"
    return "default"

# deliberately not sorted (neither individuals nor ages): an in-place tidy-up of the caller's table would show
VISITS_ROWS = {"ID": ["s1", "s1", "s3", "s3", "s3", "s2"], "TIME": [62.5, 60.0, 75.0, 78.5, 76.0, 70.0]}
RANDOM_VISITS = {
    "patient_number": 3,
    "visit_type": "random",
    "first_visit_mean": 0.0,
    "first_visit_std": 0.4,
    "time_follow_up_mean": 2,
    "time_follow_up_std": 0.5,
    "distance_visit_mean": 1.0,
    "distance_visit_std": 0.25,
    "min_spacing_between_visits": 1 / 365,
}


# ---------------------------------------------------------------------------------------------------------
# canonical forms / digests of arbitrary caller-side objects (deep; bit-level for every array)

def _h(b: bytes) -> str:
    return hashlib.blake2b(b, digest_size=8).hexdigest()


def canon(x, _depth=0, _seen=None):
    """Deep canonical JSON-able description of `x`: arrays/tensors/tables by (dtype, shape, digest of the bytes),
    containers and plain objects (through ``__dict__``) recursively.  Two objects have equal canonical forms iff they
    are deep-equal at bit level (NaN payloads included), with equal dtypes, shapes, labels and container order."""
    if _depth > 12:
        raise RecursionError("canon: object graph deeper than 12")
    _seen = _seen or ()
    if x is None or isinstance(x, (bool, int, str)):
        return x
    if isinstance(x, float):
        return "f:" + x.hex()
    if isinstance(x, (np.floating, np.integer, np.bool_)):
        return [type(x).__name__, np.asarray(x).tobytes().hex()]
    if isinstance(x, WeightedTensor):
        return ["WeightedTensor", canon(x.value, _depth + 1, _seen), canon(x.weight, _depth + 1, _seen)]
    if isinstance(x, torch.Tensor):
        return ["tensor", str(x.dtype), list(x.shape), _h(tensor_bytes(x))]
    if isinstance(x, np.ndarray):
        if x.dtype == object:
            return ["ndarray:object", list(x.shape), [canon(v, _depth + 1, _seen) for v in x.reshape(-1).tolist()]]
        return ["ndarray", str(x.dtype), list(x.shape), _h(np.ascontiguousarray(x).tobytes())]
    if isinstance(x, pd.DataFrame):
        return [
            "DataFrame",
            canon(x.index, _depth + 1, _seen),
            [[canon(c, _depth + 1, _seen), canon(x[c] if x.columns.is_unique else x.iloc[:, i], _depth + 1, _seen)[2:]]
             for i, c in enumerate(x.columns)],
        ]
    if isinstance(x, pd.Series):
        return ["Series", canon(x.name, _depth + 1, _seen), str(x.dtype), canon(x.to_numpy(), _depth + 1, _seen)]
    if isinstance(x, pd.MultiIndex):
        return ["MultiIndex", list(map(str, x.names)), [canon(x.get_level_values(i), _depth + 1, _seen) for i in range(x.nlevels)]]
    if isinstance(x, pd.Index):
        return ["Index", type(x).__name__, canon(x.name, _depth + 1, _seen), str(x.dtype), canon(x.to_numpy(), _depth + 1, _seen)]
    if isinstance(x, dict):
        return ["dict", [[canon(k, _depth + 1, _seen), canon(v, _depth + 1, _seen)] for k, v in x.items()]]
    if isinstance(x, (list, tuple)):
        return [type(x).__name__, [canon(v, _depth + 1, _seen) for v in x]]
    if isinstance(x, (set, frozenset)):
        return ["set", sorted(repr(canon(v, _depth + 1, _seen)) for v in x)]
    if isinstance(x, (bytes,)):
        return ["bytes", _h(x)]
    if hasattr(x, "__dict__") and not callable(x):
        if id(x) in _seen:
            return ["cycle", type(x).__name__]
        return ["object", type(x).__name__, canon(vars(x), _depth + 1, _seen + (id(x),))]
    return ["repr", type(x).__name__, repr(x)]


def cdigest(x) -> str:
    return _h(repr(canon(x)).encode())


def first_difference(a, b, path=""):
    """Path of the first difference between two canonical forms (for messages)."""
    if type(a) is not type(b):
        return path or "."
    if isinstance(a, list):
        if len(a) != len(b):
            return path + f"[len {len(a)} != {len(b)}]"
        # a dict entry: show its key
        for i, (u, v) in enumerate(zip(a, b)):
            if u != v:
                label = str(i)
                if isinstance(u, list) and len(u) == 2 and isinstance(u[0], str) and not isinstance(u[1], str):
                    label = u[0]
                return first_difference(u, v, f"{path}/{label}")
        return path
    return path if a != b else ""


# ---------------------------------------------------------------------------------------------------------
# what the model object holds

_SECTIONS = (
    ("parameters", ModelParameter),
    ("population", PopulationLatentVariable),
    ("individual", IndividualLatentVariable),
    ("data", DataVariable),
)


def model_snapshot(model) -> dict:
    """Raw content of the model object that the property speaks about (no value is computed by reading it)."""
    st = model.state
    dag = st.dag
    snap = {"hyperparameters": {}, "attributes": {}}
    for n, var in dag.sorted_variables_by_type[Hyperparameter].items():
        snap["hyperparameters"][n] = canon(var.value)
    for section, cls in _SECTIONS:
        snap[section] = {}
        for n in dag.sorted_variables_by_type[cls]:
            v = st._values[n]
            snap[section][n] = None if v is None else canon(v)
    attrs = {}
    for a in ("name", "features", "dimension", "source_dimension", "nb_events", "n_clusters", "_is_initialized",
              "initialization_method"):
        if hasattr(model, a):
            attrs[a] = canon(getattr(model, a))
    attrs["class"] = type(model).__name__
    attrs["obs_models"] = [om.to_string() for om in getattr(model, "obs_models", ())]
    attrs["tracked_variables"] = sorted(getattr(model, "tracked_variables", ()))
    attrs["state.auto_fork_type"] = repr(st.auto_fork_type)
    snap["attributes"] = attrs
    return snap


def held(snap) -> dict:
    """Which data / individual variables are set."""
    return {
        "data": sorted(k for k, v in snap["data"].items() if v is not None),
        "individual": sorted(k for k, v in snap["individual"].items() if v is not None),
    }


def held_label(snap) -> str:
    h = held(snap)
    if h["individual"] and h["data"]:
        return "model holds data and individual latent values (left by a fit)"
    if h["individual"]:
        return "model holds individual latent values"
    if h["data"]:
        return "model holds data"
    return "model holds no data and no individual latent value"


def state_key(model) -> str:
    snap = model_snapshot(model)
    return _h(repr(snap).encode())


def core_of(snap) -> dict:
    return {k: snap[k] for k in ("parameters", "hyperparameters", "population", "attributes")}


# ---------------------------------------------------------------------------------------------------------
# caller-side inputs

def _is_joint(spec):
    return spec["kind"] == "joint"


def forms_for(spec):
    return ("data", "dataset") if _is_joint(spec) else ("df", "dfi", "data", "dataset")


def make_observations(spec, cohort, form):
    df = cohort_frame(COHORTS[cohort], spec.get("dim", 2), joint=_is_joint(spec), binary=spec.get("noise") == "bernoulli")
    if form in ("df", "dfi"):
        if _is_joint(spec):
            raise ValueError("a joint model cannot ingest a raw table through fit/personalize (visit layout is assumed)")
        return df if form == "df" else df.set_index(["ID", "TIME"])  # dfi: identifiers and ages given as the index
    data = Data.from_dataframe(df, "joint") if _is_joint(spec) else Data.from_dataframe(df)
    if form == "data":
        return data
    if form == "dataset":
        return Dataset(data)
    raise ValueError(form)


BOTH_KW = {"seed": 7, "n_iter": 5, "progress_bar": False}


def make_individual_parameters(spec):
    ns = int(spec.get("ns", 0))
    ip = IndividualParameters()
    rows = {
        "a": {"xi": 0.1, "tau": 70.0, "sources": [0.2, -0.3][:ns]},
        "zz": {"xi": -0.35, "tau": 64.5, "sources": [-0.5, 0.4][:ns]},
        "b": {"xi": 0.0, "tau": 81.25, "sources": [0.0, 1.0][:ns]},
    }
    for i, r in rows.items():
        if not ns:
            r = {k: v for k, v in r.items() if k != "sources"}
        ip.add_individual_parameters(i, r)
    return ip


def make_inputs(spec, op, seed):
    """Fresh caller-side objects of one call.  {name: object}; every object is snapshotted around the call."""
    kind = op[0]
    if kind == "fit":
        return {
            "data": make_observations(spec, op[1], op[2]),
            "settings": AlgorithmSettings("mcmc_saem", seed=seed, progress_bar=False,
                                          **copy.deepcopy(FIT_KW[variant_of(op)])),
        }
    if kind == "personalize":
        return {
            "data": make_observations(spec, op[2], op[3]),
            "settings": AlgorithmSettings(op[1], seed=seed, progress_bar=False,
                                          **copy.deepcopy(PERSONALIZE_KW[op[1]][variant_of(op)])),
        }
    if kind == "estimate":
        return {
            # a list, an array and a single age given as a plain number (accepted: `np.atleast_1d`), all three must come out as given
            "timepoints": {"a": [60.0, 70.5, 81.0], "zz": np.array([75.0, 64.5]), "b": 90.0},
            "individual_parameters": make_individual_parameters(spec),
        }
    if kind == "simulate":
        feats = [f"Y{i}" for i in range(spec.get("dim", 2))]
        if op[1] == "dataframe":
            vp = {"visit_type": "dataframe", "df_visits": pd.DataFrame(copy.deepcopy(VISITS_ROWS))}
        elif op[1] == "dataframe_int":
            # integer identifiers (accepted by ingestion and by simulate): the caller's column must stay an integer column
            rows = copy.deepcopy(VISITS_ROWS)
            rows["ID"] = [{"s1": 101, "s2": 7, "s3": 32}[i] for i in rows["ID"]]
            vp = {"visit_type": "dataframe", "df_visits": pd.DataFrame(rows)}
        else:
            vp = copy.deepcopy(RANDOM_VISITS)
        return {"settings": AlgorithmSettings("simulate", seed=seed, features=feats, visit_parameters=vp)}
    if kind == "reload":
        return {}
    raise ValueError(op)


# ---------------------------------------------------------------------------------------------------------
# executing a call

class Recorder:
    """Wrapper around scipy.optimize.minimize as seen by leaspy: records every starting point, alters nothing."""

    def __init__(self):
        self.x0 = []

    @contextlib.contextmanager
    def installed(self):
        import leaspy.algo.personalize.scipy_minimize as sm

        orig = sm.minimize

        def minimize(fun, x0=None, *args, **kwargs):
            if x0 is None and args:
                raise RuntimeError("unexpected positional use of minimize")
            self.x0.append(np.array(x0, copy=True))
            return orig(fun, x0=x0, *args, **kwargs)

        sm.minimize = minimize
        try:
            yield self
        finally:
            sm.minimize = orig


@contextlib.contextmanager
def _quiet():
    with warnings.catch_warnings():
        warnings.simplefilter("ignore")
        with contextlib.redirect_stdout(io.StringIO()):
            yield


def call(model, op, inputs, recorder=None):
    """Run the public call; returns the call's result (None for fit)."""
    kind = op[0]
    rec = recorder.installed() if recorder is not None else contextlib.nullcontext()
    # "custom" calls also carry keyword arguments next to the settings object (documented: "if provided, the fit will rely on
    # these settings"): whatever the call makes of them, the caller's settings object must come out untouched
    extra = dict(BOTH_KW) if variant_of(op) == "custom" else {}
    with _quiet(), rec:
        if kind == "fit":
            model.fit(inputs["data"], algorithm_settings=inputs["settings"], **extra)
            return None
        if kind == "personalize":
            return model.personalize(inputs["data"], algorithm_settings=inputs["settings"], **extra)
        if kind == "estimate":
            return model.estimate(inputs["timepoints"], inputs["individual_parameters"])
        if kind == "simulate":
            return model.simulate(algorithm_settings=inputs["settings"])
    raise ValueError(op)


def result_canon(op, res):
    kind = op[0]
    if kind == "personalize":
        return canon({"indices": res._indices, "values": res._individual_parameters, "shapes": res._parameters_shape})
    if kind == "estimate":
        return canon(res)
    if kind == "simulate":
        return canon({
            "data": res.data.to_dataframe(),
            "individual_parameters": res.individual_parameters,
            "noise_std": res.noise_std,
        })
    return None


def result_brief(op, res):
    kind = op[0]
    try:
        if kind == "personalize":
            return {i: res._individual_parameters[i] for i in res._indices}
        if kind == "estimate":
            return {k: np.asarray(v).tolist() for k, v in res.items()}
        if kind == "simulate":
            return res.data.to_dataframe().round(6).to_dict("list")
    except Exception as e:  # pragma: no cover
        return repr(e)
    return None


def save_and_load(model, workdir, tag):
    path = os.path.join(workdir, f"{tag}.json")
    with _quiet():
        model.save(path)
        return BaseModel.load(path), path


# ---------------------------------------------------------------------------------------------------------
# process isolation.  The property speaks of "which calls were made earlier": module-level / class-level state of the
# library is part of that history.  Therefore (a) every explored state lives in a process that executed exactly the
# state's history and nothing else, (b) every reference answer is computed in a process that executed nothing but
# that one call.  Both are obtained by forking *pristine templates* (processes that imported leaspy and never ran it).

def _send(fd, obj):
    data = pickle.dumps(obj, protocol=pickle.HIGHEST_PROTOCOL)
    data = struct.pack("<Q", len(data)) + data
    view = memoryview(data)
    while view:
        n = os.write(fd, view)
        view = view[n:]


def _recv_exact(fd, n):
    chunks = []
    while n:
        b = os.read(fd, min(n, 1 << 20))
        if not b:
            raise EOFError("peer closed the pipe")
        chunks.append(b)
        n -= len(b)
    return b"".join(chunks)


def _recv(fd):
    (n,) = struct.unpack("<Q", _recv_exact(fd, 8))
    return pickle.loads(_recv_exact(fd, n))


def run_in_fork(fn, *args):
    """fn(*args) evaluated in a forked copy of this process; its (picklable) result is returned."""
    r, w = os.pipe()
    pid = os.fork()
    if pid == 0:
        code = 0
        try:
            os.close(r)
            try:
                out = ("ok", fn(*args))
            except BaseException as e:
                out = ("err", "".join(traceback.format_exception(type(e), e, e.__traceback__))[-6000:])
            _send(w, out)
        except BaseException:
            code = 1
        finally:
            os._exit(code)
    os.close(w)
    try:
        out = _recv(r)
    except EOFError:
        out = ("err", f"forked child {pid} died without an answer")
    finally:
        os.close(r)
        os.waitpid(pid, 0)
    if out[0] == "err":
        raise RuntimeError("harness: forked evaluation failed:\n" + out[1])
    return out[1]


class ForkServer:
    """A pristine template process: every request is served by a fresh fork of the template (the template itself
    never executes a request, so it stays as it was when the server was created)."""

    def __init__(self, handler):
        c2s_r, c2s_w = os.pipe()
        s2c_r, s2c_w = os.pipe()
        pid = os.fork()
        if pid == 0:
            try:
                os.close(c2s_w)
                os.close(s2c_r)
                while True:
                    try:
                        msg = _recv(c2s_r)
                    except EOFError:
                        break
                    if msg is None:
                        break
                    try:
                        out = ("ok", run_in_fork(handler, msg))
                    except BaseException as e:
                        out = ("err", str(e)[-6000:])
                    _send(s2c_w, out)
            finally:
                os._exit(0)
        os.close(c2s_r)
        os.close(s2c_w)
        self._w, self._r, self.pid = c2s_w, s2c_r, pid

    def request(self, msg):
        _send(self._w, msg)
        out = _recv(self._r)
        if out[0] == "err":
            raise RuntimeError(out[1])
        return out[1]

    def close(self):
        try:
            _send(self._w, None)
        except OSError:
            pass
        for fd in (self._w, self._r):
            try:
                os.close(fd)
            except OSError:
                pass
        try:
            os.waitpid(self.pid, 0)
        except ChildProcessError:
            pass


_REF = None  # ForkServer answering reference requests; created before anything of leaspy is run in this process


def start_ref_server():
    global _REF
    if _REF is None:
        _REF = ForkServer(_reference_handler)
    return _REF


def stop_ref_server():
    global _REF
    if _REF is not None:
        _REF.close()
        _REF = None


def _reference_handler(msg):
    """Runs in a fork of the pristine template: the call on a model object WITHOUT any history (no call was ever made
    in this process) holding exactly the live model's parameters.

    The object is the model loaded from the file saved just before the call.  When the file does not give the
    parameters back bit for bit (float64 values after a joint fit are read back as float32; a 0-d `noise_std` is read
    back with shape (1,)) the exact tensors of the live model are assigned to the loaded object, so that the
    comparison never blames a call for a difference of *parameters*."""
    from leaspy.variables.specs import LatentVariableInitType
    from leaspy.variables.state import StateForkType

    spec, op, seed = msg["spec"], msg["op"], msg["seed"]
    with _quiet():
        ref = BaseModel.load(msg["path"])
    rs = model_snapshot(ref)
    how = "file"
    if core_of(rs) != msg["core"]:
        st = ref.state
        with st.auto_fork(None):
            for p in ref.parameters_names:
                st[p] = msg["exact"][p].clone()
            st.put_population_latent_variables(LatentVariableInitType.PRIOR_MODE)
        st.auto_fork_type = None if msg["fork_type"] is None else StateForkType[msg["fork_type"]]
        rs = model_snapshot(ref)
        how = "file+exact parameters"
        if core_of(rs) != msg["core"]:
            return {"how": None, "reason": "no history-free object with bit-identical parameters: " + first_difference(
                canon_plain(core_of(rs)), canon_plain(msg["core"]))}
    if held(rs) != {"data": [], "individual": []}:
        raise RuntimeError("harness: a freshly loaded model holds data or individual latent values")
    inputs = make_inputs(spec, op, seed)
    rec = Recorder()
    try:
        res = call(ref, op, inputs, rec)
    except Exception as e:
        return {"how": how, "exc": (type(e).__module__ + "." + type(e).__qualname__, type(e).__name__, str(e)[:300])}
    return {"how": how, "exc": None, "rc": result_canon(op, res), "brief": jsonable(result_brief(op, res)),
            "x0": [x.tobytes() for x in rec.x0], "x0_list": [x.tolist() for x in rec.x0]}


def reference_answer(model, snap, spec, op, seed, workdir):
    """Saves the live model and asks the pristine reference process for the answer of `op` (see _reference_handler)."""
    if _REF is None:
        raise RuntimeError("harness: reference server not started (start_ref_server() must be called first)")
    path = os.path.join(workdir, "ref.json")
    with _quiet():
        model.save(path)
    st = model.state
    return _REF.request({
        "spec": spec, "op": op, "seed": seed, "path": path, "core": core_of(snap),
        "exact": {p: st._values[p].detach().clone() for p in model.parameters_names},
        "fork_type": None if st.auto_fork_type is None else st.auto_fork_type.name,
    })


def canon_plain(x):
    """dict -> list-of-pairs form so that `first_difference` can walk snapshots."""
    if isinstance(x, dict):
        return [[k, canon_plain(v)] for k, v in x.items()]
    if isinstance(x, (list, tuple)):
        return [canon_plain(v) for v in x]
    return x


# ---------------------------------------------------------------------------------------------------------
# one transition + all oracles

class Transition:
    def __init__(self):
        self.violations = []  # (signature, message, expected, observed)
        self.outcome = None
        self.ok = True  # may exploration continue from the object?
        self.model = None  # object on which exploration continues
        self.nontrivial = False

    def flag(self, sig, msg, expected=None, observed=None):
        self.violations.append((sig, msg, expected, observed))


def op_label(op):
    if op[0] == "personalize":
        return f"personalize[{op[1]}]" if variant_of(op) == "default" else f"personalize[{op[1]}, custom settings]"
    if op[0] == "fit":
        return "fit" if variant_of(op) == "default" else "fit[custom settings]"
    if op[0] == "simulate":
        return f"simulate[{op[1]}]"
    return op[0]


def _cmp_inputs(tr, label, before, inputs, when=""):
    for name, obj in inputs.items():
        after = canon(obj)
        if after != before[name]:
            tr.flag(
                f"{label}|modifies the caller's {name} object|{type(obj).__name__}",
                f"{label}{when}: the {name} object ({type(obj).__name__}) passed in is not deep-equal to its snapshot; "
                f"first difference at {first_difference(before[name], after)}",
            )


def check_transition(model, spec, op, seed, workdir) -> Transition:
    """Apply `op` to `model` (mutated in place, as a user would) and evaluate the property's oracles."""
    tr = Transition()
    tr.model = model
    label = op_label(op)
    kind = op[0]
    before = model_snapshot(model)
    hl = held_label(before)

    if kind == "reload":
        new, _ = save_and_load(model, workdir, "reload")
        after = model_snapshot(model)
        if after != before:
            tr.flag("save|modifies the model object|" + hl,
                    "save(): the model is not as it was: " + first_difference(canon_plain(before), canon_plain(after)))
        tr.model = new
        tr.outcome = "reload:" + ("identical parameters" if core_of(model_snapshot(new)) == core_of(before) else "parameters re-read with another dtype/shape")
        tr.nontrivial = True
        return tr

    inputs = make_inputs(spec, op, seed)
    in_before = {k: canon(v) for k, v in inputs.items()}

    if kind == "fit":
        # history-making operation only: the property says nothing about fit itself
        try:
            call(model, op, inputs)
        except Exception as e:  # a refused / failed fit leaves an unspecified object: not explored further
            tr.ok = False
            tr.outcome = f"fit:raises {type(e).__name__} ({hl})"
            return tr
        _cmp_inputs(tr, label, in_before, inputs)
        tr.outcome = "fit:done (" + hl + ")"
        tr.nontrivial = True
        return tr

    # ---- answer of the same call on an object without history holding the same parameters, computed in a pristine
    # process (a fork of a template that never ran leaspy) from the file saved now, BEFORE the call
    ans = reference_answer(model, before, spec, op, seed, workdir)
    how = ans["how"]
    mid = model_snapshot(model)
    if mid != before:
        tr.flag("save|modifies the model object|" + hl,
                "save(): the model is not as it was: " + first_difference(canon_plain(before), canon_plain(mid)))

    # ---- the call itself
    rec = Recorder()
    exc = res = None
    try:
        res = call(model, op, inputs, rec)
    except Exception as e:
        exc = e
    after = model_snapshot(model)
    _cmp_inputs(tr, label, in_before, inputs)

    # parameters, hyperparameters, population variables, attributes untouched
    for section in ("parameters", "hyperparameters", "population", "attributes"):
        if after[section] != before[section]:
            tr.flag(
                f"{label}|changes the model's {section}|{hl}",
                f"{label}: {section} differ after the call at {first_difference(canon_plain(before[section]), canon_plain(after[section]))}",
            )
    # nothing of the call left behind: each data / individual variable is unset or holds what it held before
    for section, what in (("data", "data"), ("individual", "individual latent values")):
        left = [n for n, v in after[section].items() if v is not None and v != before[section][n]]
        if left:
            tr.flag(
                f"{label}|leaves {what} of the call in the model|{'after an exception' if exc is not None else 'normal return'}",
                f"{label}: after the call the model holds {left} which it did not hold before "
                f"(before: {held(before)}, after: {held(after)})",
            )

    # ---- comparison with the history-free answer
    ref_exc = ans.get("exc") if how is not None else None
    if exc is not None:
        tr.ok = False
        exc_name = type(exc).__module__ + "." + type(exc).__qualname__
        if how is not None and ref_exc is not None and ref_exc[0] == exc_name:
            # the call fails whatever the history: not a matter of this property
            tr.outcome = f"{label}:raises {type(exc).__name__} with and without history"
            return tr
        tr.outcome = f"{label}:raises {type(exc).__name__} ({hl})"
        tr.flag(
            f"{label}|raises {type(exc).__name__} although a fresh model with the same parameters "
            + ("succeeds" if ref_exc is None else f"raises {ref_exc[1]}") + f"|{hl}",
            f"{label}: {type(exc).__name__}: {str(exc)[:300]}",
        )
        return tr

    tr.nontrivial = True
    rc = result_canon(op, res)
    tr.outcome = f"{label}:returns ({hl}; reference: {how})"

    if how is None:
        tr.outcome = f"{label}:returns ({hl}; no reference: {ans['reason'][:60]})"
    elif ref_exc is not None:
        tr.flag(
            f"{label}|succeeds although a fresh model with the same parameters raises {ref_exc[1]}|{hl}",
            f"{label}: reference raised {ref_exc[1]}: {ref_exc[2]}",
        )
    else:
        if rec.x0 or ans["x0"]:
            if [x.tobytes() for x in rec.x0] != ans["x0"]:
                tr.flag(
                    f"{label}|optimiser starting point differs from a fresh model with the same parameters|{hl}",
                    f"{label}: starting points handed to scipy.optimize.minimize differ",
                    expected=ans["x0_list"], observed=[x.tolist() for x in rec.x0],
                )
        if rc != ans["rc"]:
            tr.flag(
                f"{label}|result differs from a fresh model with the same parameters|{hl}",
                f"{label}: result of the call made after this history is not bit-identical to the result of the same "
                f"call on a model without history holding the same parameters, in a process where nothing else was "
                f"ever run (reference = {how}); first difference at {first_difference(ans['rc'], rc)}",
                expected=ans["brief"], observed=result_brief(op, res),
            )

    # ---- the same call again with the very same caller objects (settings reuse)
    rec2 = Recorder()
    between = model_snapshot(model)
    try:
        res2 = call(model, op, inputs, rec2)
    except Exception as e:
        tr.flag(f"{label}|second call with the same objects raises {type(e).__name__}|{hl}",
                f"{label}: repeated call with the reused settings/data objects: {type(e).__name__}: {str(e)[:300]}")
        tr.ok = False
        return tr
    _cmp_inputs(tr, label, in_before, inputs, " (second call)")
    if result_canon(op, res2) != rc:
        tr.flag(
            f"{label}|repeated call with the same objects gives another answer|{hl}",
            f"{label}: second call with the reused settings object differs at {first_difference(rc, result_canon(op, res2))}",
            expected=result_brief(op, res), observed=result_brief(op, res2),
        )
    after2 = model_snapshot(model)
    for section in ("parameters", "hyperparameters", "population", "attributes"):
        if after2[section] != between[section]:
            tr.flag(f"{label}|changes the model's {section}|{held_label(between)}",
                    f"{label} (second call): {section} differ after the call")
    for section, what in (("data", "data"), ("individual", "individual latent values")):
        left = [n for n, v in after2[section].items() if v is not None and v != between[section][n]]
        if left:
            tr.flag(f"{label}|leaves {what} of the call in the model|normal return",
                    f"{label} (second call): the model holds {left} which it did not hold before")
    return tr


# ---------------------------------------------------------------------------------------------------------
# histories

def apply_plain(model, spec, op, seed, workdir):
    """Execute `op` without any oracle (rebuilding a state from its history).  Returns the continuing object."""
    if op[0] == "reload":
        new, _ = save_and_load(model, workdir, "reload")
        return new
    call(model, op, make_inputs(spec, op, seed))
    return model


def materialize(spec, history, seed, workdir):
    model = build_model(spec)
    for op in history:
        model = apply_plain(model, spec, op, seed, workdir)
    return model


def _check_one(model, spec, op, seed, workdir):
    tr = check_transition(model, spec, op, seed, workdir)
    return {
        "violations": [(sig, msg, jsonable(exp), jsonable(obs)) for sig, msg, exp, obs in tr.violations],
        "outcome": tr.outcome, "ok": tr.ok, "nontrivial": tr.nontrivial,
        "key_after": state_key(tr.model) if tr.ok else None,
    }


def _expand_handler(msg):
    """Runs in a fork of the pristine template: this process executes exactly `history` (nothing else), then every
    operation of the menu is checked in its own fork of this process."""
    spec, seed, wd = msg["spec"], msg["seed"], msg["workdir"]
    try:
        model = materialize(spec, msg["history"], seed, wd)
    except Exception as e:
        return {"prefix_error": type(e).__name__}
    key = state_key(model)
    return {"key": key, "results": [run_in_fork(_check_one, model, spec, op, seed, wd) for op in msg["ops"]]}


def _scout(spec, ops, workdir):
    """Runs in a throw-away fork: names of the modules the library imports lazily while executing the operations."""
    before = set(sys.modules)
    for op in ops:
        try:
            model = build_model(spec)
            if op[0] == "reload":
                save_and_load(model, workdir, "scout")
            else:
                call(model, op, make_inputs(spec, op, 0), Recorder())
        except Exception:
            pass
    return sorted(set(sys.modules) - before)


def preload_lazy_imports(spec, ops, workdir):
    """Imports (module level code only - no call of the library is made in this process) what the library would import
    lazily at its first calls, so that the forks of the pristine templates do not pay these imports again and again."""
    import importlib

    for name in run_in_fork(_scout, spec, ops, workdir):
        try:
            importlib.import_module(name)
        except Exception:
            pass


class Explorer:
    """Must be created before anything of leaspy is run in the calling process."""

    def __init__(self, spec=None, ops=None, workdir=None):
        if spec is not None:
            preload_lazy_imports(spec, ops, workdir)
        start_ref_server()  # first: the expansion template inherits the client side of the reference server
        self.server = ForkServer(_expand_handler)

    def expand(self, spec, history, ops, seed, wd):
        return self.server.request({"spec": spec, "history": history, "ops": ops, "seed": seed, "workdir": wd})

    def close(self):
        self.server.close()
        stop_ref_server()


@contextlib.contextmanager
def workdir():
    os.makedirs(SCRATCH_ROOT, exist_ok=True)
    d = tempfile.mkdtemp(dir=SCRATCH_ROOT)
    try:
        yield d
    finally:
        shutil.rmtree(d, ignore_errors=True)

"""C14 helpers: table descriptors -> pandas frames, malformation catalogue, pure-Python reference model.

A *case* is a JSON-able dict

    {"layout": "visit" | "event" | "joint" | "covariate",
     "idtype": key of ID_TYPES, "form": "columns" | "index",
     "rows":   [[k, j], ...]      table rows in table order: visit j of individual k (event layout: j is 0)
     "ages":   key of AGES, "nan": bit mask of missing entries (bit 2*r+f for canonical row r, feature f),
     "ev":     key of EVENTS (event / joint layouts), "ncov": 1 | 2 (covariate layout),
     "voff":   offset added to every value (seed-extended alphabet),
     "mal":    None | {"name": ..., "row": i, "mode": "row" | "ind"}}

``build_frame(case)`` is deterministic, so a case is enough to replay.
The reference model (``reference``) never touches pandas or leaspy.
"""

from __future__ import annotations

import math

import numpy as np
import pandas as pd

NAN = float("nan")
INF = float("inf")
FEATURES = ["Y0", "Y1"]
ET, EB = "EVENT_TIME", "EVENT_BOOL"
COVS = ["COV", "COV2"]

# ------------------------------------------------------------------------------------------
# alphabets

#: labels of individuals 0, 1, 2 (never in sorted order, so that "first appearance" != "sorted" for the
#: canonical row order as well)
_STR = ["S2", "S10", "S1"]
ID_TYPES = {
    "str": dict(labels=_STR),
    # numeric-looking text: as text "011" < "10" < "9" (same rank pattern as the other alphabets), as numbers 9 < 10 < 11
    "numstr": dict(labels=["9", "10", "011"]),
    "int": dict(labels=[10, 9, 0]),
    "string": dict(labels=_STR, dtype="string"),
    "Int64": dict(labels=[10, 9, 0], dtype="Int64"),
    # categories = the sorted labels that occur in the table
    "cat": dict(labels=_STR, categories=[]),
    "cat_int": dict(labels=[10, 9, 0], categories=[]),
    # a categorical column that went through a filter keeps its unobserved categories
    "cat_unused": dict(labels=_STR, categories=["S0", "S1", "S10", "S2", "S3"]),
}

#: AGES[name][k][j] = age of visit j of individual k (<= 6 decimals: the documented rounding is the identity)
AGES = {
    "A0": [[70.1, 71.25, 72.6], [60.0, 61.5, 63.123456], [65.125, 66.0, 67.9]],
    # individual 0: ages that differ by 1e-6 (distinct after the 6-digit rounding and in single precision);
    # individual 1: negative, zero and small ages
    "A1": [[1.000001, 1.000002, 1.000003], [-2.5, 0.0, 2.5], [65.125, 66.0, 67.9]],
}

#: VALUES[k][j][f]: all distinct, with an exact 0.0, a negative value and a value > 1
VALUES = [
    [[0.1, 0.0], [0.25, 0.9], [0.33, 1.7]],
    [[-0.4, 0.61], [0.52, 0.43], [0.07, 0.77]],
    [[0.81, 0.29], [0.19, 0.99], [0.66, 0.05]],
]

#: EVENTS[name][k] = (event time, indicator): 0 censored, e >= 1 event of type e observed
EVENTS = {
    "E0": [(80.0, 1), (75.5, 0), (90.25, 1)],
    "E1": [(80.123457, 2), (62.0, 0), (90.25, 1)],  # two event types; individual 1 may be censored before its last visit
    "E2": [(80.0, 0), (75.5, 3), (90.25, 0)],  # indicator with a gap: three event types
    "E3": [(80.0, 0), (75.5, 0), (90.25, 0)],  # nobody has an event: documented as refused when nb_events is not given
    "E4": [(80.0, 1), (75.5, 1), (90.25, 2)],
    # individuals sharing their event: same time and same indicator (ages at event in whole years, a common administrative
    # censoring age): two of them observed at 80, the third one censored at 80 as well
    "E5": [(80.0, 1), (80.0, 1), (80.0, 0)],
    "E6": [(85.0, 0), (85.0, 0), (85.0, 2)],
}

#: COV_LEVELS[k] = levels of (COV, COV2) of individual k
COV_LEVELS = [[1, 0], [0, 1], [2, 1]]


def canonical_rows(case):
    return sorted(tuple(r) for r in case["rows"])


def is_missing(case, k, j, f):
    r = canonical_rows(case).index((k, j))
    return bool((case.get("nan", 0) >> (2 * r + f)) & 1)


def value(case, k, j, f):
    if is_missing(case, k, j, f):
        return NAN
    return VALUES[k][j][f] + case.get("voff", 0.0)


def label(case, k):
    return ID_TYPES[case["idtype"]]["labels"][k]


# ------------------------------------------------------------------------------------------
# frames


def _id_column(case, ks):
    spec = ID_TYPES[case["idtype"]]
    labels = [spec["labels"][k] for k in ks]
    if "categories" in spec:
        return pd.Categorical(labels, categories=spec["categories"] or sorted(set(labels)))
    if "dtype" in spec:
        return pd.array(labels, dtype=spec["dtype"])
    if isinstance(spec["labels"][0], int):
        return np.array(labels, dtype="int64")
    return np.array(labels, dtype=object)


def base_columns(case) -> dict:
    """The well-formed table of the case as a dict of columns (table order)."""
    layout = case["layout"]
    rows = [tuple(r) for r in case["rows"]]
    ks = [k for k, _ in rows]
    cols = {"ID": _id_column(case, ks)}
    if layout != "event":
        ages = AGES[case["ages"]]
        cols["TIME"] = np.array([ages[k][j] for k, j in rows], dtype="float64")
        for f, name in enumerate(FEATURES):
            cols[name] = np.array([value(case, k, j, f) for k, j in rows], dtype="float64")
    if layout in ("event", "joint"):
        ev = EVENTS[case["ev"]]
        cols[ET] = np.array([ev[k][0] for k in ks], dtype="float64")
        cols[EB] = np.array([ev[k][1] for k in ks], dtype="int64")
    if layout == "covariate":
        for c in range(case["ncov"]):
            cols[COVS[c]] = np.array([COV_LEVELS[k][c] for k in ks], dtype="int64")
    return cols


def factory_kws(case) -> dict:
    if case["layout"] == "covariate":
        return {"covariate_names": COVS[: case["ncov"]]}
    return {}


def _obj(a):
    return np.array(list(a), dtype=object)


def _same_ind_rows(case, i):
    k = case["rows"][i][0]
    return [r for r, (kk, _) in enumerate(case["rows"]) if kk == k]


def _set(cols, name, idx, v, *, as_object=False, as_float=False):
    a = cols[name]
    if as_object:
        a = _obj(a)
    elif as_float:
        a = np.asarray(a, dtype="float64").copy()
    else:
        a = a.copy()
    for i in idx:
        a[i] = v
    cols[name] = a


#: malformation name -> (layouts, needs a second row of the same individual, modes)
#: every one of them belongs to a family named by the property: duplicate visits, missing or infinite ages,
#: non-numeric or infinite values, invalid identifiers, inconsistent events or covariates.
VISITS = ("visit", "joint", "covariate")
MALFORMATIONS = {
    # duplicate visits
    "dup_age_exact": (VISITS, True, ("row",)),
    "dup_age_within_rounding_up": (VISITS, True, ("row",)),
    "dup_age_within_rounding_down": (VISITS, True, ("row",)),
    # missing or infinite ages
    "age_nan": (VISITS, False, ("row",)),
    "age_plus_inf": (VISITS, False, ("row",)),
    "age_minus_inf": (VISITS, False, ("row",)),
    "age_text": (VISITS, False, ("row",)),
    # non-numeric or infinite values
    "value_text": (VISITS, False, ("row",)),
    "value_numeric_text": (VISITS, False, ("row",)),
    "value_object_column": (VISITS, False, ("col",)),
    "value_plus_inf": (VISITS, False, ("row",)),
    "value_minus_inf": (VISITS, False, ("row",)),
    # invalid identifiers
    "id_nan": (VISITS + ("event",), False, ("row",)),
    "id_none": (VISITS + ("event",), False, ("row",)),
    "id_pd_NA": (VISITS + ("event",), False, ("row",)),
    "id_empty_text": (VISITS + ("event",), False, ("row",)),
    "id_negative_int": (VISITS + ("event",), False, ("row", "ind")),
    "id_float": (VISITS + ("event",), False, ("col",)),
    "id_fractional_float": (VISITS + ("event",), False, ("row",)),
    "id_mixed_text_and_int": (VISITS + ("event",), False, ("row",)),
    # inconsistent events
    "event_two_times_for_one_id": (("joint", "event"), True, ("row",)),
    "event_two_indicators_for_one_id": (("joint", "event"), True, ("row",)),
    "event_indicator_fractional": (("joint", "event"), False, ("row", "ind")),
    "event_indicator_nan": (("joint", "event"), False, ("row", "ind")),
    "event_indicator_negative": (("joint", "event"), False, ("ind",)),
    "event_indicator_plus_inf": (("joint", "event"), False, ("row", "ind")),
    "event_indicator_text": (("joint", "event"), False, ("row",)),
    "event_time_zero": (("joint", "event"), False, ("row", "ind")),
    "event_time_negative": (("joint", "event"), False, ("row", "ind")),
    "event_time_nan": (("joint", "event"), False, ("row", "ind")),
    "event_time_plus_inf": (("joint", "event"), False, ("row", "ind")),
    "event_time_text": (("joint", "event"), False, ("row",)),
    "event_observed_before_last_visit": (("joint",), False, ("ind",)),
    # inconsistent covariates
    "covariate_nan": (("covariate",), False, ("row", "ind")),
    "covariate_fractional": (("covariate",), False, ("row", "ind")),
    "covariate_varying_within_id": (("covariate",), True, ("row",)),
    "covariate_single_level": (("covariate",), False, ("col",)),
    "covariate_plus_inf": (("covariate",), False, ("row", "ind")),
    "covariate_text": (("covariate",), False, ("row",)),
}


def malformation_applies(case, name, i, mode) -> bool:
    """Is (malformation, row i, scope) a distinct, meaningful variant of the well-formed table `case`?

    scope "row": only row i is altered; "ind": every row of row i's individual (listed once, at its first row);
    "col": the whole column (listed once, at row 0).
    """
    layouts, needs_pair, modes = MALFORMATIONS[name]
    layout = case["layout"]
    if layout not in layouts or mode not in modes:
        return False
    if mode == "col":
        return i == 0
    same = _same_ind_rows(case, i)
    if needs_pair and layout != "event" and len(same) < 2:
        return False  # (event layout: a second, conflicting row is *added*)
    if mode == "ind":
        if "row" in modes and len(same) < 2:
            return False  # identical to the "row" variant
        if i != same[0]:
            return False
    if name == "event_observed_before_last_visit":
        return EVENTS[case["ev"]][case["rows"][i][0]][1] >= 1
    if name == "covariate_nan" and mode == "row":
        # a row without any value is "full of nans" and is dropped as documented: not a malformation
        k, j = case["rows"][i]
        return not all(is_missing(case, k, j, f) for f in range(len(FEATURES)))
    return True


def apply_malformation(case, cols) -> dict:
    mal = case["mal"]
    name, i, mode = mal["name"], mal["row"], mal["mode"]
    layout = case["layout"]
    rows = [tuple(r) for r in case["rows"]]
    same = _same_ind_rows(case, i)
    idx = same if mode == "ind" else [i]
    other = [r for r in same if r != i]
    cols = dict(cols)

    if name.startswith("dup_age"):
        t = float(cols["TIME"][other[0]])
        d = {"dup_age_exact": 0.0, "dup_age_within_rounding_up": 4e-7, "dup_age_within_rounding_down": -4e-7}[name]
        _set(cols, "TIME", [i], t + d)
    elif name == "age_nan":
        _set(cols, "TIME", idx, NAN)
    elif name == "age_plus_inf":
        _set(cols, "TIME", idx, INF)
    elif name == "age_minus_inf":
        _set(cols, "TIME", idx, -INF)
    elif name == "age_text":
        _set(cols, "TIME", idx, "seventy", as_object=True)
    elif name == "value_text":
        _set(cols, "Y0", idx, "x", as_object=True)
    elif name == "value_numeric_text":
        _set(cols, "Y1", idx, "0.5", as_object=True)
    elif name == "value_object_column":
        cols["Y0"] = _obj(cols["Y0"])
    elif name == "value_plus_inf":
        _set(cols, "Y1", idx, INF)
    elif name == "value_minus_inf":
        _set(cols, "Y0", idx, -INF)
    elif name == "id_nan":
        _set(cols, "ID", idx, NAN, as_object=True)
    elif name == "id_none":
        _set(cols, "ID", idx, None, as_object=True)
    elif name == "id_pd_NA":
        _set(cols, "ID", idx, pd.NA, as_object=True)
    elif name == "id_empty_text":
        _set(cols, "ID", idx, "", as_object=True)
    elif name == "id_negative_int":
        ids = np.array([ID_TYPES["int"]["labels"][k] for k, _ in rows], dtype="int64")
        ids[idx] = -1 - ids[idx]
        cols["ID"] = ids
    elif name == "id_float":
        cols["ID"] = np.array([float(ID_TYPES["int"]["labels"][k]) for k, _ in rows], dtype="float64")
    elif name == "id_fractional_float":
        ids = np.array([float(ID_TYPES["int"]["labels"][k]) for k, _ in rows], dtype="float64")
        ids[idx] += 0.5
        cols["ID"] = ids
    elif name == "id_mixed_text_and_int":
        _set(cols, "ID", idx, 3, as_object=True)
    elif name in ("event_two_times_for_one_id", "event_two_indicators_for_one_id"):
        col, delta = (ET, 1.5) if "times" in name else (EB, 1)
        if layout == "event":
            cols = {c: np.concatenate([np.asarray(a, dtype=object), np.asarray(a, dtype=object)[[i]]]) for c, a in cols.items()}
            cols[col][-1] = cols[col][i] + delta
            cols = {
                c: (a if c == "ID" else a.astype("float64" if c == ET else "int64")) for c, a in cols.items()
            }
        else:
            _set(cols, col, [i], cols[col][i] + delta)
    elif name == "event_indicator_fractional":
        _set(cols, EB, idx, 0.5, as_float=True)
    elif name == "event_indicator_nan":
        _set(cols, EB, idx, NAN, as_float=True)
    elif name == "event_indicator_negative":
        _set(cols, EB, idx, -1)
    elif name == "event_indicator_plus_inf":
        _set(cols, EB, idx, INF, as_float=True)
    elif name == "event_indicator_text":
        _set(cols, EB, idx, "yes", as_object=True)
    elif name == "event_time_zero":
        _set(cols, ET, idx, 0.0)
    elif name == "event_time_negative":
        _set(cols, ET, idx, -3.0)
    elif name == "event_time_nan":
        _set(cols, ET, idx, NAN)
    elif name == "event_time_plus_inf":
        _set(cols, ET, idx, INF)
    elif name == "event_time_text":
        _set(cols, ET, idx, "late", as_object=True)
    elif name == "event_observed_before_last_visit":
        last = max(float(cols["TIME"][r]) for r in same)
        _set(cols, ET, same, last - 0.5)
    elif name == "covariate_nan":
        _set(cols, "COV", idx, NAN, as_float=True)
    elif name == "covariate_fractional":
        _set(cols, "COV", idx, 0.5, as_float=True)
    elif name == "covariate_varying_within_id":
        _set(cols, "COV", [i], cols["COV"][i] + 1)
    elif name == "covariate_single_level":
        cols["COV"] = np.full(len(rows), 1, dtype="int64")
    elif name == "covariate_plus_inf":
        _set(cols, "COV", idx, INF, as_float=True)
    elif name == "covariate_text":
        _set(cols, "COV", idx, "high", as_object=True)
    else:  # pragma: no cover
        raise ValueError(name)
    return cols


# ------------------------------------------------------------------------------------------
# crossed catalogues: identifier malformation x identifier dtype, and bad cell x column role x container dtype


class NotConstructible(Exception):
    """The combination cannot be written down in pandas (e.g. a missing value in an int64 column)."""


#: dtype class of every identifier alphabet (goes into the signature)
ID_DTYPE_CLASS = {"str": "object", "numstr": "object", "int": "int64", "string": "string", "Int64": "Int64",
                  "cat": "category", "cat_int": "category", "cat_unused": "category"}

#: identifier malformation -> scope; the column keeps the dtype of the identifier alphabet of the case
ID_MALFORMATIONS = {
    "missing_nan": "row", "missing_None": "row", "missing_pd_NA": "row",
    "empty_text": "row", "negative_int": "row", "float": "col", "fractional_float": "row", "mixed_text_and_int": "row",
}


def id_malformed_column(case, name, i):
    """The ID column of the case with identifier malformation `name` at row i, in the dtype of case['idtype']."""
    idtype = case["idtype"]
    spec = ID_TYPES[idtype]
    cls = ID_DTYPE_CLASS[idtype]
    labels = [spec["labels"][k] for k, _ in case["rows"]]
    is_int = isinstance(spec["labels"][0], int)

    def wrap(vals, *, floats=False):
        if cls == "category":
            cats = list(spec["categories"]) or None
            present = [v for v in dict.fromkeys(vals) if v is not None and v is not pd.NA and v == v]
            if cats is None:
                try:
                    cats = sorted(present)
                except TypeError:  # mixed labels
                    cats = present
            else:
                cats = cats + [v for v in present if v not in cats]
            return pd.Categorical([None if (v is None or v is pd.NA or v != v) else v for v in vals], categories=cats)
        if cls == "string":
            return pd.array(vals, dtype="string")
        if cls == "Int64":
            return pd.array(vals, dtype="Float64" if floats else "Int64")
        if cls == "int64":
            return np.array(vals, dtype="float64" if floats else "int64")
        return np.array(vals, dtype=object)

    if name.startswith("missing_"):
        token = {"missing_nan": NAN, "missing_None": None, "missing_pd_NA": pd.NA}[name]
        if cls == "int64":
            raise NotConstructible("int64 cannot hold a missing value")
        if cls != "object" and name != "missing_pd_NA":
            raise NotConstructible("one missing marker per extension dtype (listed under missing_pd_NA)")
        labels[i] = token
        return wrap(labels)
    if name == "empty_text":
        if is_int:
            raise NotConstructible("integer identifiers cannot be empty text")
        labels[i] = ""
        return wrap(labels)
    if name == "negative_int":
        if not is_int:
            raise NotConstructible("text identifiers: '-1' is a valid text label")
        labels[i] = -1 - labels[i]
        return wrap(labels)
    if name in ("float", "fractional_float"):
        if not is_int:
            raise NotConstructible("text identifiers")
        vals = [float(v) for v in labels]
        if name == "fractional_float":
            vals[i] += 0.5
        return wrap(vals, floats=True)
    if name == "mixed_text_and_int":
        if cls in ("string", "Int64"):
            raise NotConstructible("extension dtype holds one kind of label")
        labels[i] = "S7" if is_int else 3
        if cls == "int64":
            return np.array(labels, dtype=object)
        return wrap(labels)
    raise ValueError(name)


#: column role -> (layouts, column name, integer valued?)
CELL_ROLES = {
    "TIME": (VISITS, "TIME", False),
    "value": (VISITS, "Y0", False),
    "event_time": (("event", "joint"), ET, False),
    "event_indicator": (("event", "joint"), EB, True),
    "covariate": (("covariate",), "COV", True),
}
CELL_BAD = ("missing", "plus_inf", "minus_inf", "text")
CELL_CONTAINERS = ("float64", "float32", "Float64", "Int64", "object", "string", "category")


def cell_malformed_column(case, role, bad, container, i):
    """Column `role` of the case with the bad cell at row i, stored in `container` dtype."""
    _, col, integer = CELL_ROLES[role]
    if role == "value" and bad == "missing":
        raise NotConstructible("a missing value is valid input")
    if role == "covariate" and bad == "missing" and all(is_missing(case, *case["rows"][i], f) for f in range(len(FEATURES))):
        raise NotConstructible("the row would be full of nans: dropped as documented, not a malformation")
    vals = [v.item() if hasattr(v, "item") else v for v in base_columns(case)[col]]
    vals = [None if isinstance(v, float) and v != v else v for v in vals]  # (values already missing in the base table)
    token = {"missing": None, "plus_inf": INF, "minus_inf": -INF, "text": "n/a"}[bad]
    vals[i] = token
    if container in ("float64", "float32"):
        if bad == "text":
            raise NotConstructible("text in a float column")
        return np.array([NAN if v is None else v for v in vals], dtype=container)
    if container == "Float64":
        if bad == "text":
            raise NotConstructible("text in a Float64 column")
        return pd.array([pd.NA if v is None else float(v) for v in vals], dtype="Float64")
    if container == "Int64":
        if not integer or bad != "missing":
            raise NotConstructible("Int64 holds integers or pd.NA only")
        return pd.array([pd.NA if v is None else int(v) for v in vals], dtype="Int64")
    if container == "object":
        return np.array([NAN if v is None else v for v in vals], dtype=object)
    if container == "string":
        if bad not in ("text", "missing"):
            raise NotConstructible("a string column holds text: listed under 'text' and 'missing'")
        return pd.array([pd.NA if v is None else str(v) for v in vals], dtype="string")
    if container == "category":
        present = [v for v in dict.fromkeys(vals) if v is not None]
        try:
            cats = sorted(present)
        except TypeError:
            cats = present
        return pd.Categorical(vals, categories=cats)
    raise ValueError(container)


def crossed_malformation_name(case) -> str:
    mal = case["mal"]
    if mal["name"] == "id_x_dtype":
        # two classes (one per requirement of the reader): a missing identifier / a label that is not a valid identifier
        # (empty text, negative integer, float, text mixed with integers); the precise kind is in the stored case
        kind = "missing" if mal["kind"].startswith("missing_") else "invalid label"
        return f"identifier {kind},ID dtype={ID_DTYPE_CLASS[case['idtype']]}"
    return f"{mal['role']} {mal['bad']},column dtype={mal['container']}"


LABEL_FORMS = ("labels_reversed", "labels_sparse", "labels_text", "labels_duplicate")


def build_frame(case) -> pd.DataFrame:
    cols = base_columns(case)
    mal = case.get("mal")
    if mal and mal["name"] == "id_x_dtype":
        cols["ID"] = id_malformed_column(case, mal["kind"], mal["row"])
    elif mal and mal["name"] == "cell_x_dtype":
        cols[CELL_ROLES[mal["role"]][1]] = cell_malformed_column(case, mal["role"], mal["bad"], mal["container"], mal["row"])
    elif mal:
        cols = apply_malformation(case, cols)
    df = pd.DataFrame(cols)
    form = case["form"]
    if form == "index":
        df = df.set_index(["ID"] if case["layout"] == "event" else ["ID", "TIME"])
    elif form in LABEL_FORMS:
        # ID / TIME as columns, but the row labels are not 0..n-1 in order (a shuffled, filtered or concatenated table whose
        # index was not reset): rows are rows, their labels carry no meaning for the ingestion
        n = len(df)
        df.index = {"labels_reversed": list(range(n - 1, -1, -1)), "labels_sparse": [10 * ((7 * i + 3) % n) + 3 for i in range(n)],
                    "labels_text": [f"row{(5 * i + 2) % n}" for i in range(n)], "labels_duplicate": [0] * n}[form]
    elif form != "columns":
        raise ValueError(form)
    return df


# ------------------------------------------------------------------------------------------
# reference model (plain Python)


def reference(case) -> dict:
    """What a correct ingestion of the *well-formed* table of `case` must contain.

    Returns {"reject": reason | None, "order": [labels in order of first appearance], "ind": {label: {...}},
             "nb_events": int | None}.
    """
    layout = case["layout"]
    rows = [tuple(r) for r in case["rows"]]
    order, ind = [], {}
    for k, j in rows:
        lab = label(case, k)
        if layout == "event":
            vals, age = None, None
        else:
            vals = [value(case, k, j, f) for f in range(len(FEATURES))]
            age = round(AGES[case["ages"]][k][j], 6)
            # documented `drop_full_nan=True`: "Should we drop rows full of nans? (except index)".  In the joint and
            # covariate layouts the event / covariate columns are never missing, so no row is "full of nans".
            if layout == "visit" and all(math.isnan(v) for v in vals):
                continue
        if lab not in ind:
            order.append(lab)
            ind[lab] = {"visits": []}
            if layout in ("event", "joint"):
                t, e = EVENTS[case["ev"]][k]
                ind[lab]["event"] = (round(t, 6), e)
            if layout == "covariate":
                ind[lab]["cov"] = COV_LEVELS[k][: case["ncov"]]
        if layout != "event":
            ind[lab]["visits"].append((age, vals))
    for d in ind.values():
        d["visits"].sort(key=lambda av: av[0])
    out = {"reject": None, "order": order, "ind": ind, "nb_events": None}
    if not order:
        out["reject"] = "no row left (documented: at least 1 row not full of nans)"
    if layout in ("event", "joint") and order:
        nb = max(d["event"][1] for d in ind.values())
        out["nb_events"] = nb
        if nb == 0:
            out["reject"] = "no observed event and nb_events not given (documented)"
    if layout == "covariate" and order:
        for c in range(case["ncov"]):
            if len({tuple(d["cov"])[c] for d in ind.values()}) < 2:
                out["reject"] = "covariate with a single level (documented)"
    return out


def expected_tensors(ref, order):
    """numpy arrays a correct Dataset must hold for the individuals listed in `order`."""
    n = len(order)
    nf = len(FEATURES)
    nvis = [len(ref["ind"][lab]["visits"]) for lab in order]
    vmax = max(nvis) if nvis else 0
    tp = np.zeros((n, vmax), dtype=np.float32)
    val = np.zeros((n, vmax, nf), dtype=np.float32)
    mask = np.zeros((n, vmax, nf), dtype=np.float32)
    for i, lab in enumerate(order):
        for v, (age, vals) in enumerate(ref["ind"][lab]["visits"]):
            tp[i, v] = np.float32(age)
            for f, x in enumerate(vals):
                if not math.isnan(x):
                    val[i, v, f] = np.float32(x)
                    mask[i, v, f] = 1.0
    out = {"n_visits_per_individual": nvis, "n_visits_max": vmax, "n_visits": sum(nvis),
           "timepoints": tp, "values": val, "mask": mask,
           "n_obs_ind_ft": mask.sum(axis=1).astype(np.int64), "n_obs_ft": mask.sum(axis=(0, 1)).astype(np.int64),
           "n_obs": int(mask.sum())}
    if ref["nb_events"] is not None:
        nb = ref["nb_events"]
        et = np.zeros((n, nb), dtype=np.float64)
        eb = np.zeros((n, nb), dtype=bool)
        for i, lab in enumerate(order):
            t, e = ref["ind"][lab]["event"]
            et[i, :] = t
            if e >= 1:
                eb[i, e - 1] = True
        out["event_time"], out["event_bool"] = et, eb
    if order and "cov" in ref["ind"][order[0]]:
        out["covariates"] = np.array([ref["ind"][lab]["cov"] for lab in order], dtype=np.int64)
    return out

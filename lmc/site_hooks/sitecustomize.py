"""Harness-side recording seam for worker processes (no repository hook).

Put on PYTHONPATH by lmc/props/c07.py for the interpreter that runs ``personalize(scipy_minimize, n_jobs=k)`` and, through
the inherited environment, for every joblib (loky) worker it starts.  Active only when LMC_SCIPY_RECORD names a file:
``scipy.optimize.minimize`` is wrapped *before* leaspy is imported (leaspy binds the name with ``from scipy.optimize import
minimize``), and every call appends one JSON line {pid, patient_id, x0, x, fun} to that file.  The optimiser's arguments and
result are never altered.  ``patient_id`` is read from the calling frame when the caller has a local of that name.
"""
import os

_path = os.environ.get("LMC_SCIPY_RECORD")
if _path:
    import json
    import sys

    import scipy.optimize as _so

    _orig = _so.minimize

    def _recording_minimize(fun, x0, *a, **kw):
        res = _orig(fun, x0, *a, **kw)
        try:
            fr = sys._getframe(1)
            pid = fr.f_locals.get("patient_id")
            rec = {"pid": os.getpid(), "patient_id": None if pid is None else str(pid),
                   "x0": [float(v) for v in x0], "x": [float(v) for v in res.x], "fun": float(res.fun)}
            fd = os.open(_path, os.O_WRONLY | os.O_APPEND | os.O_CREAT, 0o644)
            try:
                os.write(fd, (json.dumps(rec) + "\n").encode())
            finally:
                os.close(fd)
        except Exception as e:  # the recording must never disturb the run; its absence is detected by the harness
            sys.stderr.write(f"lmc sitecustomize: recording failed: {e!r}\n")
        return res

    _recording_minimize.__wrapped__ = _orig
    _so.minimize = _recording_minimize

"""C13, benchmark kinds (stateless models: `lme`, `constant`): explicit-state BFS over call sequences on ONE model object.

Menu (JSON-able operations)
  ["personalize", cohort]      model.personalize(Data, AlgorithmSettings(lme_personalize | constant_prediction))
  ["estimate", which]          model.estimate(timepoints, individual parameters)   which in {"two", "one", "twice-same"}
  ["reload"]                   save + load, exploration continues on the loaded object

Oracles around every personalize / estimate call X after history H (the C13 wording, applied to what these kinds hold):
  * the whole model object (``canon(vars(model))``: parameters, hyperparameters, features, options) is bit-identical before
    and after X - for the constant model only around ``estimate`` (its ``personalize`` documents a re-initialisation of the
    features from the table it is given);
  * the caller's Data / table / settings / timepoints / individual-parameters objects are deep-equal to their snapshots;
  * X made a second time with the same objects returns the same bytes;
  * differential: X on the object with history H returns the same bytes as X on ``BaseModel.load(file saved just before X)``.
A state is the canonical digest of the model object; the BFS deduplicates on it (the calls read nothing else).
"""

from __future__ import annotations

import contextlib
import copy
import io
import os
import warnings

import numpy as np
import pandas as pd

import leaspy.models  # noqa: F401
from leaspy.algo import AlgorithmSettings
from leaspy.io.data import Data
from leaspy.io.outputs import IndividualParameters
from leaspy.models import BaseModel, ConstantModel, LMEModel

from .c13_lib import _h, canon, first_difference

CONFIGS = {
    "lme_slope": {"kind": "lme", "slope": True},
    "lme_intercept": {"kind": "lme", "slope": False},
    "constant_last": {"kind": "constant", "ptype": "last"},
    "constant_mean": {"kind": "constant", "ptype": "mean"},
}


@contextlib.contextmanager
def quiet():
    with warnings.catch_warnings():
        warnings.simplefilter("ignore")
        with contextlib.redirect_stdout(io.StringIO()):
            yield


def cohort_table(cfg, cohort):
    """Deterministic little tables (unsorted rows; cohort B holds other individuals and one missing value)."""
    rows = []
    ids = {"A": ["s0", "s1", "s2", "s3"], "B": ["u1", "u0"], "T": ["s0", "s1", "s2", "s3", "s4", "s5"]}[cohort]
    for k, i in enumerate(ids):
        base = 0.15 + 0.11 * ((k * 3) % 5)
        for j in (2, 0, 1, 3):
            if cohort == "B" and k == 1 and j == 3:
                continue
            age = 60.0 + 2.5 * j + 1.25 * k
            y = base + 0.03 * j * (1 + 0.4 * k) + 0.01 * ((k + 2 * j) % 3)
            rows.append((i, age, float("nan") if (cohort == "B" and k == 0 and j == 1) else round(y, 6)))
    df = pd.DataFrame(rows, columns=["ID", "TIME", "Y"])
    if cfg["kind"] == "constant":
        df["Z"] = [round(1.0 - v, 6) if v == v else v for v in df["Y"]]
    return df


def build(cfg):
    with quiet():
        if cfg["kind"] == "lme":
            model = LMEModel("lme", with_random_slope_age=cfg["slope"])
            model.fit(Data.from_dataframe(cohort_table(cfg, "T"), drop_full_nan=False), "lme_fit")
            return model
        model = ConstantModel("constant")
        model.personalize(Data.from_dataframe(cohort_table(cfg, "A")), "constant_prediction", prediction_type=cfg["ptype"])
        return model


def hand_ip(cfg):
    ip = IndividualParameters()
    if cfg["kind"] == "lme":
        # numpy scalars, the value type LMEModel.compute_individual_trajectory reads (it calls .item() on them)
        for i, (a, b) in {"q1": (0.05, -0.02), "q2": (-0.11, 0.04)}.items():
            ip.add_individual_parameters(i, {"random_intercept": np.float64(a), **({"random_slope_age": np.float64(b)} if cfg["slope"] else {})})
    else:
        for i, (a, b) in {"q1": (0.3, 0.7), "q2": (0.55, 0.45)}.items():
            ip.add_individual_parameters(i, {"Y": a, "Z": b})
    return ip


def make_inputs(cfg, op):
    if op[0] == "personalize":
        name = "lme_personalize" if cfg["kind"] == "lme" else "constant_prediction"
        kw = {} if cfg["kind"] == "lme" else {"prediction_type": cfg["ptype"]}
        return {"data": Data.from_dataframe(cohort_table(cfg, op[1]), drop_full_nan=False), "settings": AlgorithmSettings(name, **kw)}
    if op[0] == "estimate":
        tp = {"two": {"q1": [61.0, 70.5, 66.0], "q2": np.array([75.0, 64.5])}, "one": {"q2": [68.25]},
              "twice-same": {"q1": [66.0, 66.0], "q2": [66.0]}}[op[1]]
        return {"timepoints": copy.deepcopy(tp), "individual_parameters": hand_ip(cfg)}
    return {}


def call(model, op, inputs):
    with quiet():
        if op[0] == "personalize":
            return model.personalize(inputs["data"], algorithm_settings=inputs["settings"])
        return model.estimate(inputs["timepoints"], inputs["individual_parameters"])


def result_canon(op, res):
    if op[0] == "personalize":
        return canon({"indices": res._indices, "values": res._individual_parameters, "shapes": res._parameters_shape})
    return canon(res)


def snapshot(model):
    return canon(vars(model))


def menu(cfg):
    return [["personalize", "A"], ["personalize", "B"], ["estimate", "two"], ["estimate", "one"], ["estimate", "twice-same"], ["reload"]]


def check_transition(model, cfg, op, workdir):
    """Returns (violations [(signature, message)], outcome, model to continue on, ok)."""
    label = f"{cfg['kind']}.{op[0]}"
    feat = ("with_random_slope_age=%s" % cfg["slope"]) if cfg["kind"] == "lme" else "constant model"
    vio = []
    before = snapshot(model)
    path = os.path.join(workdir, "bench.json")
    with quiet():
        model.save(path)
    if snapshot(model) != before:
        vio.append((f"save|modifies the model object|{feat}", first_difference(before, snapshot(model))))
    if op[0] == "reload":
        with quiet():
            new = BaseModel.load(path)
        return vio, "reload", new, True
    inputs = make_inputs(cfg, op)
    in_before = {k: canon(v) for k, v in inputs.items()}
    try:
        res = call(model, op, inputs)
    except Exception as e:  # noqa: BLE001
        # judged against the history-free object below
        res, exc = None, e
    else:
        exc = None
    after = snapshot(model)
    must_be_unchanged = not (cfg["kind"] == "constant" and op[0] == "personalize")
    if must_be_unchanged and after != before:
        vio.append((f"{label}|changes the model object|{feat}", f"{op}: first difference at {first_difference(before, after)}"))
    for name, obj in inputs.items():
        if canon(obj) != in_before[name]:
            vio.append((f"{label}|modifies the caller's {name} object|{type(obj).__name__}", f"{op}: {first_difference(in_before[name], canon(obj))}"))
    # history-free reference: the file saved just before the call
    with quiet():
        fresh = BaseModel.load(path)
    try:
        ref = call(fresh, op, make_inputs(cfg, op))
        ref_exc = None
    except Exception as e:  # noqa: BLE001
        ref, ref_exc = None, e
    if exc is not None or ref_exc is not None:
        if (exc is None) != (ref_exc is None) or type(exc) is not type(ref_exc):
            vio.append((f"{label}|outcome differs from a freshly loaded model with the same parameters|{feat}",
                        f"{op}: with history {type(exc).__name__ if exc else 'returns'}: {exc}; fresh: {type(ref_exc).__name__ if ref_exc else 'returns'}"))
        return vio, f"{label}:raises {type(exc).__name__ if exc else None}", model, False
    rc = result_canon(op, res)
    if rc != result_canon(op, ref):
        vio.append((f"{label}|result differs from a freshly loaded model with the same parameters|{feat}",
                    f"{op}: first difference at {first_difference(result_canon(op, ref), rc)}"))
    # the same call once more with the same objects
    try:
        again = call(model, op, inputs)
        if result_canon(op, again) != rc:
            vio.append((f"{label}|repeated call with the same objects gives another answer|{feat}",
                        f"{op}: first difference at {first_difference(rc, result_canon(op, again))}"))
    except Exception as e:  # noqa: BLE001
        vio.append((f"{label}|repeated call with the same objects raises {type(e).__name__}|{feat}", f"{op}: {e}"))
    if must_be_unchanged and snapshot(model) != before:
        if not any(s.endswith(f"changes the model object|{feat}") for s, _ in vio):
            vio.append((f"{label}|changes the model object|{feat}", f"{op} made twice: first difference at {first_difference(before, snapshot(model))}"))
    return vio, f"{label}:returns", model, True


def materialize(cfg, history, workdir):
    model = build(cfg)
    for op in history:
        if op[0] == "reload":
            path = os.path.join(workdir, "mat.json")
            with quiet():
                model.save(path)
                model = BaseModel.load(path)
        else:
            call(model, op, make_inputs(cfg, op))
    return model


def explore(cfg_name, depth, workdir, acc):
    cfg = CONFIGS[cfg_name]
    ops = menu(cfg)
    frontier = [[]]
    seen = {repr(snapshot(build(cfg)))}
    acc.state()
    returned = set()
    for d in range(depth):
        nxt = []
        for hist in frontier:
            for op in ops:
                model = materialize(cfg, hist, workdir)
                key_before = repr(snapshot(model))
                vio, outcome, cont, ok = check_transition(model, cfg, op, workdir)
                acc.evaluation()
                acc.transition()
                acc.outcome(f"bench:{outcome}")
                if outcome.endswith(":returns"):
                    returned.add(op[0])
                case = {"bench": cfg_name, "history": hist, "op": op}
                acc.nontriv({"bench": cfg_name, "state": _h(key_before.encode()), "op": op})
                for sig, msg in vio:
                    acc.violation(sig, f"[{cfg_name}, history {hist}] {msg}", case)
                if not ok:
                    continue
                key = repr(snapshot(cont))
                # the explored object after the call (+ the repeated call): a new state only if the object changed
                if key not in seen:
                    seen.add(key)
                    acc.state()
                    nxt.append(hist + [op])
                elif d == 0 and op[0] != "reload":
                    # first level: also continue behind every kind of call once (the state is the same object content, but a
                    # hidden cache would not show in a snapshot that was taken before the call created it)
                    nxt.append(hist + [op])
        frontier = nxt
    if returned != {"personalize", "estimate"}:
        raise RuntimeError(f"harness: vacuous exploration of {cfg_name}: only {sorted(returned)} calls ever returned")
    return acc


def replay(case, workdir):
    cfg = CONFIGS[case["bench"]]
    model = materialize(cfg, case["history"], workdir)
    vio, _, _, _ = check_transition(model, cfg, case["op"], workdir)
    return [{"signature": s, "message": m} for s, m in vio]

"""Harness-side seams owning the samplers' sources of nondeterminism (no repository hooks).

`torch.randn`, `torch.rand` are looked up as module attributes at call time by leaspy.samplers.*;
`random.shuffle` is imported by name as `shuffle` in three modules.  `Seam` swaps them for a recording or
scripted environment and logs every call.

Script format (JSON-able):
  {"z": 0.7, "u": 0.3,                    default answers (every normal element / every uniform element)
   "dev": {"z:<call>[:<flat elt>]": x,    deviations: call index (0-based, per kind) and optional flat element
           "u:<call>[:<flat elt>]": x},
   "shuffle": "identity" | "reverse" | "rotate" | [perm...]}
"""

from __future__ import annotations

import contextlib
import importlib

import torch

_SHUFFLE_MODULES = (
    "leaspy.samplers.gibbs",
    "leaspy.algo.fit.mcmc_saem",
    "leaspy.algo.personalize.mcmc",
)


def _shape_of(args, kwargs):
    if "size" in kwargs:
        s = kwargs["size"]
    elif len(args) == 1 and isinstance(args[0], (tuple, list, torch.Size)):
        s = args[0]
    else:
        s = args
    return tuple(int(x) for x in s)


class Env:
    """Base environment: records calls; subclasses decide the answers."""

    def __init__(self):
        self.log = []  # (kind, call_index, shape, values-as-list | perm)
        self.n = {"z": 0, "u": 0, "s": 0}
        self._orig = {}

    # answers -----------------------------------------------------------------
    def answer_randn(self, call, shape, kwargs):
        return self._orig["randn"](shape, **kwargs)

    def answer_rand(self, call, shape, kwargs):
        return self._orig["rand"](shape, **kwargs)

    def answer_shuffle(self, call, lst):
        self._orig["shuffle"](lst)

    # wrappers ----------------------------------------------------------------
    def _randn(self, *args, **kwargs):
        shape = _shape_of(args, kwargs)
        kwargs.pop("size", None)
        c = self.n["z"]
        self.n["z"] += 1
        t = self.answer_randn(c, shape, kwargs)
        self.log.append(("z", c, shape, t.reshape(-1).tolist()))
        return t

    def _rand(self, *args, **kwargs):
        shape = _shape_of(args, kwargs)
        kwargs.pop("size", None)
        c = self.n["u"]
        self.n["u"] += 1
        t = self.answer_rand(c, shape, kwargs)
        self.log.append(("u", c, shape, t.reshape(-1).tolist()))
        return t

    def _shuffle(self, lst):
        c = self.n["s"]
        self.n["s"] += 1
        before = list(lst)
        self.answer_shuffle(c, lst)
        self.log.append(("s", c, (len(before),), [before.index(x) for x in lst]))

    def elements(self, kind):
        return sum(len(v) for k, _, _, v in self.log if k == kind)

    def calls(self, kind):
        return [e for e in self.log if e[0] == kind]


class Recording(Env):
    """The real generators (seed them yourself); draws are only observed."""


class Scripted(Env):
    def __init__(self, script=None):
        super().__init__()
        script = script or {}
        self.z = float(script.get("z", 0.7))
        self.u = float(script.get("u", 0.3))
        self.dev = dict(script.get("dev", {}))
        self.shuffle_mode = script.get("shuffle", "identity")
        self.used_dev = set()

    def _fill(self, kind, call, shape, default):
        t = torch.full(shape, default, dtype=torch.float32)
        flat = t.reshape(-1)
        key = f"{kind}:{call}"
        if key in self.dev:
            v = self.dev[key]
            self.used_dev.add(key)
            if isinstance(v, (list, tuple)):
                for i, x in enumerate(v):
                    flat[i] = x
            else:
                flat[:] = v
        for i in range(flat.numel()):
            k2 = f"{kind}:{call}:{i}"
            if k2 in self.dev:
                flat[i] = self.dev[k2]
                self.used_dev.add(k2)
        return t

    def answer_randn(self, call, shape, kwargs):
        return self._fill("z", call, shape, self.z)

    def answer_rand(self, call, shape, kwargs):
        return self._fill("u", call, shape, self.u)

    def answer_shuffle(self, call, lst):
        mode = self.shuffle_mode
        if isinstance(mode, dict):
            mode = mode.get(str(call), "identity")
        if mode == "identity":
            return
        if mode == "reverse":
            lst.reverse()
        elif mode == "rotate":
            if lst:
                lst.append(lst.pop(0))
        elif isinstance(mode, (list, tuple)):
            items = list(lst)
            lst[:] = [items[i] for i in mode]
        else:
            raise ValueError(mode)


@contextlib.contextmanager
def seam(env: Env):
    """Install `env` as the samplers' environment for the duration of the context."""
    import random

    mods = [importlib.import_module(m) for m in _SHUFFLE_MODULES]
    env._orig = {"randn": torch.randn, "rand": torch.rand, "shuffle": random.shuffle}
    saved = [(m, m.shuffle) for m in mods]
    torch.randn, torch.rand = env._randn, env._rand
    for m in mods:
        m.shuffle = env._shuffle
    try:
        yield env
    finally:
        torch.randn, torch.rand = env._orig["randn"], env._orig["rand"]
        for m, f in saved:
            m.shuffle = f


def self_check():
    """The seam is active inside the samplers and replays identically."""
    import leaspy.models  # noqa
    from leaspy.samplers.gibbs import IndividualGibbsSampler

    outs = []
    for _ in range(2):
        env = Scripted({"z": 0.25, "u": 0.5, "dev": {"z:0:1": -2.0}})
        with seam(env):
            s = IndividualGibbsSampler("xi", (1,), n_patients=2, scale=1.0)
            outs.append(s._proposed_change().reshape(-1).tolist())
    assert outs[0] == outs[1] == [0.125, -1.0], outs
    assert torch.randn is not None and torch.randn.__name__ == "randn"

"""Building the real samplers the way AlgorithmWithSamplersMixin does, and reconstructing what a
`sample()` call did from the environment log (proposal per block, order, acceptance record)."""

from __future__ import annotations

import torch
from numpy import ndindex

import leaspy.models  # noqa: F401
from leaspy.samplers.factory import sampler_factory
from leaspy.variables.specs import IndividualLatentVariable, PopulationLatentVariable

POP_KINDS = ("gibbs", "fastgibbs", "metropolis-hastings")


def make_sampler(kind: str, state, var_name: str, n_individuals: int | None = None, **sampler_kws):
    var = state.dag[var_name]
    var_kws = dict(var.sampling_kws or {}, name=var_name, shape=var.get_prior_shape(state.dag))
    if isinstance(var, IndividualLatentVariable):
        var_kws.setdefault("scale", var.prior.stddev.call(state))
        return sampler_factory(kind, IndividualLatentVariable, n_patients=n_individuals, **var_kws, **sampler_kws)
    var_kws.setdefault("scale", state[var_name].abs())
    return sampler_factory(kind, PopulationLatentVariable, **var_kws, **sampler_kws)


def latent_variables(state):
    by_type = state.dag.sorted_variables_by_type
    pop = list(by_type.get(PopulationLatentVariable, {}))
    ind = list(by_type.get(IndividualLatentVariable, {}))
    return pop, ind


def pop_blocks(sampler):
    """Canonical (un-shuffled) list of blocks the population sampler iterates on."""
    return list(ndindex(sampler.shape_adapted_std))


def block_mask(shape, idx):
    """Boolean mask (of the variable's shape) of the coordinates belonging to block `idx`."""
    m = torch.zeros(shape, dtype=torch.bool)
    m[idx] = True
    return m

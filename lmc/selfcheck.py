"""Harness self-checks run by MANIFEST.setup_cmd (exit 2 on failure; never a VIOLATION)."""
import json, sys, warnings
warnings.filterwarnings("ignore")

def main():
    from lmc import core
    p = core.repo_import_check()
    import jsonschema  # noqa
    json.load(open("/root/.vp/EVIDENCE.schema.json")) if __import__("os").path.exists("/root/.vp/EVIDENCE.schema.json") else None
    man = json.load(open(core.VERIF / "MANIFEST.json"))
    for c in man["checks"]:
        __import__(f"lmc.props.{c['property_id'].lower()}")
    json.load(open(core.KNOWN_FINDINGS))
    print("selfcheck ok: leaspy from", p, "| checks:", len(man["checks"]))

if __name__ == "__main__":
    try:
        main()
    except Exception as e:
        print("HARNESS-ERROR", repr(e), file=sys.stderr)
        sys.exit(2)

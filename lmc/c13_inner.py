"""Controller process of one C13 shard: a fresh interpreter (see lmc/props/c13.py, run_shard).

stdin: the shard descriptor (JSON); stdout: Acc.to_dict() (JSON).  Nothing of leaspy is run in this process itself.
"""

from __future__ import annotations

import json
import logging
import os
import sys
import warnings


def main():
    shard = json.loads(sys.stdin.read())
    out_fd = os.dup(1)
    devnull = os.open(os.devnull, os.O_WRONLY)
    os.dup2(devnull, 1)  # the library prints; stdout is the result channel
    sys.stdout = open(os.devnull, "w")
    warnings.filterwarnings("ignore")
    logging.disable(logging.CRITICAL)
    import torch

    torch.set_num_threads(1)
    from lmc.props import c13

    res = c13.explore(shard)
    data = json.dumps(res).encode()
    while data:
        n = os.write(out_fd, data)
        data = data[n:]


if __name__ == "__main__":
    main()

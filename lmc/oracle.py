"""Comparison helpers (bit-exact, NaN-aware; WeightedTensor-aware) and digests."""

from __future__ import annotations

import hashlib

import numpy as np
import torch

from leaspy.utils.weighted_tensor import WeightedTensor


_DT = {torch.float32: b"f4", torch.float64: b"f8", torch.bool: b"b1", torch.int64: b"i8", torch.int32: b"i4"}


def tensor_bytes(t) -> bytes:
    if t is None:
        return b"<None>"
    if isinstance(t, WeightedTensor):
        w = t.weight
        return (
            b"W"
            + tensor_bytes(t.value)
            + b"|"
            + (b"<nowt>" if w is None else tensor_bytes(w.to(torch.float64)))
        )
    if isinstance(t, torch.Tensor):
        a = t.detach().contiguous().numpy()
        return _DT.get(t.dtype, b"?") + str(tuple(t.shape)).encode() + a.tobytes()
    if isinstance(t, np.ndarray):
        a = np.ascontiguousarray(t)
        return str(a.dtype).encode() + str(a.shape).encode() + a.tobytes()
    return repr(t).encode()


def tdigest(*ts) -> str:
    h = hashlib.blake2b(digest_size=8)
    for t in ts:
        h.update(tensor_bytes(t))
        h.update(b";")
    return h.hexdigest()


def same_tensor(a: torch.Tensor, b: torch.Tensor) -> bool:
    """Bit-level equality up to the sign of zero, NaN == NaN; shapes and dtypes must agree."""
    if a.shape != b.shape or a.dtype != b.dtype:
        return False
    if torch.equal(a, b):
        return True
    if a.dtype == torch.bool or not a.dtype.is_floating_point:
        return False
    return bool(torch.equal(torch.nan_to_num(a, nan=1.2345e-30), torch.nan_to_num(b, nan=1.2345e-30))) and bool(
        torch.equal(torch.isnan(a), torch.isnan(b))
    )


def same_value(a, b) -> bool:
    """Equality of two variable values (tensor or WeightedTensor or None).

    For weighted tensors: equal weights (None == all ones) and equal values wherever the weight is non-zero
    (values under a zero weight are documented as meaningless)."""
    if a is None or b is None:
        return a is None and b is None
    aw, bw = isinstance(a, WeightedTensor), isinstance(b, WeightedTensor)
    if aw or bw:
        av, awt = (a.value, a.weight) if aw else (a, None)
        bv, bwt = (b.value, b.weight) if bw else (b, None)
        if av.shape != bv.shape or av.dtype != bv.dtype:
            return False
        if awt is None and bwt is None:
            return same_tensor(av, bv)
        awt = torch.ones_like(av, dtype=torch.bool) if awt is None else awt.expand(av.shape)
        bwt = torch.ones_like(bv, dtype=torch.bool) if bwt is None else bwt.expand(bv.shape)
        if not torch.equal(awt.to(torch.float64), bwt.to(torch.float64)):
            return False
        m = awt.to(torch.bool)
        return same_tensor(av[m], bv[m])
    return same_tensor(a, b)


def all_finite(v) -> bool:
    if v is None:
        return True
    if isinstance(v, WeightedTensor):
        if v.weight is None:
            return bool(torch.isfinite(v.value).all())
        m = v.weight.expand(v.value.shape).to(torch.bool)
        return bool(torch.isfinite(v.value[m]).all())
    return bool(torch.isfinite(v).all())


def brief(v, n=8):
    if v is None:
        return None
    if isinstance(v, WeightedTensor):
        return {"value": brief(v.value, n), "weight": brief(v.weight, n)}
    if isinstance(v, torch.Tensor):
        flat = v.detach().reshape(-1)[:n].tolist()
        return {"shape": list(v.shape), "head": flat}
    return repr(v)[:200]

"""Create a mutant patch from one or more exact string replacements (no worktree needed).

usage (python): from lmc.mkmutant import mk; mk("C05_m1_name", [("src/leaspy/x.py", "old", "new"), ...])
"""

from __future__ import annotations

import difflib
from pathlib import Path

REPO = Path("/repo")
OUT = Path(__file__).resolve().parent / "mutants"


def mk(name, edits, out_dir=None):
    out_dir = Path(out_dir) if out_dir else OUT
    by_file = {}
    for rel, old, new in edits:
        by_file.setdefault(rel, []).append((old, new))
    chunks = []
    for rel, reps in by_file.items():
        src = (REPO / rel).read_text()
        dst = src
        for old, new in reps:
            if dst.count(old) != 1:
                raise SystemExit(f"{name}: pattern occurs {dst.count(old)} times in {rel}: {old[:60]!r}")
            dst = dst.replace(old, new)
        diff = difflib.unified_diff(src.splitlines(True), dst.splitlines(True), f"a/{rel}", f"b/{rel}")
        chunks.append(f"diff --git a/{rel} b/{rel}\n" + "".join(diff))
    out_dir.mkdir(parents=True, exist_ok=True)
    p = out_dir / f"{name}.patch"
    p.write_text("".join(chunks))
    return p

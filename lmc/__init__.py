"""lmc -- leaspy model checking: bounded exhaustive exploration of the real implementation.

See /verif/DESIGN.md.  Entry point: ``python -m lmc.run <property id> --tier quick|thorough``.
"""

"""Hand-written catalogue of small models / datasets (no data-driven initialisation).

Models are built from parameter dictionaries through ``BaseModel.load(dict)``.
A *model spec* is a JSON-able dict: {"kind", "dim", "ns", "noise", "variant"}.
"""

from __future__ import annotations

import copy
import functools
import json

import numpy as np
import pandas as pd
import torch

import leaspy.models  # noqa: F401  (must be imported before leaspy.variables.*)
from leaspy.io.data import Data, Dataset
from leaspy.models import BaseModel

LEASPY_VERSION = "2.0.0"

# parameter vectors (indexable by "variant"), chosen well-conditioned
_LOG_G = [[0.5, 1.0, 1.5, 0.2], [1.2, 0.3, 0.8, 1.1], [-0.3, 0.6, 2.0, 0.0]]
_G_LIN = [[0.3, 0.5, 0.1, 0.4], [0.6, 0.2, 0.45, 0.3], [0.0, 0.9, 0.25, 0.5]]
_LOG_V0 = [[-3.0, -2.5, -3.5, -2.8], [-2.2, -3.1, -2.7, -3.3], [-3.6, -2.0, -2.9, -2.4]]
_TAU_MEAN = [70.0, 65.5, 78.25]
_TAU_STD = [5.0, 8.0, 3.5]
_XI_STD = [0.5, 0.8, 0.3]
_NOISE = [[0.1, 0.2, 0.15, 0.12], [0.05, 0.08, 0.3, 0.2], [0.25, 0.1, 0.07, 0.18]]
_DELTAS = [[-0.4, 0.3, 0.7], [0.5, -0.2, 0.1], [0.0, 0.9, -0.6]]


def _betas(dim, ns, variant):
    return [
        [round(0.1 * (i + 1) * (-1) ** j + 0.05 * variant * (j + 1), 6) for j in range(ns)]
        for i in range(dim - 1)
    ]


def model_dict(spec: dict) -> dict:
    kind = spec["kind"]
    dim = int(spec.get("dim", 2))
    ns = int(spec.get("ns", 0))
    noise = spec.get("noise", "gaussian-diagonal")
    v = int(spec.get("variant", 0))
    feats = spec.get("features") or [f"Y{i}" for i in range(dim)]
    p = {
        "tau_mean": [_TAU_MEAN[v]],
        "tau_std": [_TAU_STD[v]],
        "xi_std": [_XI_STD[v]],
    }
    if noise == "gaussian-diagonal":
        p["noise_std"] = _NOISE[v][:dim]
    elif noise == "gaussian-scalar":
        p["noise_std"] = [_NOISE[v][0]]
    if "noise_level" in spec and "noise_std" in p:
        # an explicit (e.g. very small) noise level, the same for every feature
        p["noise_std"] = [float(spec["noise_level"])] * len(p["noise_std"])
    d = {
        "leaspy_version": LEASPY_VERSION,
        "name": kind,
        "features": feats,
        "dimension": dim,
        "source_dimension": ns,
        "obs_models": {"y": noise},
        "parameters": p,
    }
    if kind in ("logistic", "joint", "mixture_logistic"):
        p["log_g_mean"] = _LOG_G[v][:dim]
        p["log_v0_mean"] = _LOG_V0[v][:dim]
    elif kind == "linear":
        p["g_mean"] = _G_LIN[v][:dim]
        p["log_v0_mean"] = _LOG_V0[v][:dim]
    elif kind == "shared_speed_logistic":
        p["log_g_mean"] = [_LOG_G[v][0]]
        p["deltas_mean"] = _DELTAS[v][: dim - 1]
        p["xi_mean"] = [-2.5 + 0.3 * v]
    else:
        raise ValueError(kind)
    if ns:
        p["betas_mean"] = _betas(dim, ns, v)
    if kind == "joint":
        d["obs_models"] = {
            "y": noise,
            "event": "weibull-right-censored-with-sources" if ns else "weibull-right-censored",
        }
        ne = int(spec.get("ne", 1))  # number of competing events (hyperparameter nb_events)
        d["nb_events"] = ne
        p["log_rho_mean"] = [round(0.6 + 0.2 * v - 0.3 * e, 6) for e in range(ne)]
        p["n_log_nu_mean"] = [round(-1.8 + 0.3 * v - 0.2 * e, 6) for e in range(ne)]
        if ns:
            p["zeta_mean"] = [[round((0.05 * (j + 1) * (-1) ** j + 0.02 * v) * (-1) ** e, 6) for e in range(ne)] for j in range(ns)]
    if kind == "mixture_logistic":
        d["n_clusters"] = 2
        p["probs"] = [0.6, 0.4]
        p["tau_mean"] = [_TAU_MEAN[v], _TAU_MEAN[v] + 6.0]
        p["tau_std"] = [_TAU_STD[v], _TAU_STD[v] + 1.0]
        p["xi_mean"] = [0.1, -0.1]
        p["xi_std"] = [_XI_STD[v], _XI_STD[v]]
        p["sources_mean"] = [[-0.5, 0.4], [0.3, 0.8]][:ns] if ns else []
        d["hyperparameters"] = {}
    return d


MIXTURE_FILE = "/repo/tests/_data/model_parameters/hardcoded/mixture.json"


def build_model(spec: dict):
    if spec["kind"] == "mixture_logistic":
        # the only hand-written mixture parameter set shipped with the repository (dim 4, 2 sources, 2 clusters)
        d = json.load(open(MIXTURE_FILE))
        d.pop("fit_metrics", None)
        return BaseModel.load(d)
    return BaseModel.load(copy.deepcopy(model_dict(spec)))


# ------------------------------------------------------------------------------------------
# model kind catalogue used by several properties

MODEL_SPECS = {
    "logistic_d2_s0_diag": {"kind": "logistic", "dim": 2, "ns": 0, "noise": "gaussian-diagonal"},
    "logistic_d2_s1_diag": {"kind": "logistic", "dim": 2, "ns": 1, "noise": "gaussian-diagonal"},
    "logistic_d2_s1_scalar": {"kind": "logistic", "dim": 2, "ns": 1, "noise": "gaussian-scalar"},
    "logistic_d3_s2_diag": {"kind": "logistic", "dim": 3, "ns": 2, "noise": "gaussian-diagonal"},
    "logistic_d1_s0_scalar": {"kind": "logistic", "dim": 1, "ns": 0, "noise": "gaussian-scalar"},
    "logistic_d2_s1_bernoulli": {"kind": "logistic", "dim": 2, "ns": 1, "noise": "bernoulli"},
    "linear_d2_s1_diag": {"kind": "linear", "dim": 2, "ns": 1, "noise": "gaussian-diagonal"},
    "linear_d2_s0_scalar": {"kind": "linear", "dim": 2, "ns": 0, "noise": "gaussian-scalar"},
    "shared_d2_s1_diag": {"kind": "shared_speed_logistic", "dim": 2, "ns": 1, "noise": "gaussian-diagonal"},
    "shared_d3_s0_scalar": {"kind": "shared_speed_logistic", "dim": 3, "ns": 0, "noise": "gaussian-scalar"},
    "joint_d2_s1_diag": {"kind": "joint", "dim": 2, "ns": 1, "noise": "gaussian-diagonal"},
    "joint_d1_s0_scalar": {"kind": "joint", "dim": 1, "ns": 0, "noise": "gaussian-scalar"},
    "mixture_d4_s2_diag": {"kind": "mixture_logistic", "dim": 4, "ns": 2, "noise": "gaussian-diagonal"},
}


# ------------------------------------------------------------------------------------------
# tiny datasets

def visits_frame(rows, features, events=None):
    """rows: list of (id, time, [values...]); events: {id: (time, bool)} for joint layouts."""
    df = pd.DataFrame(
        [[i, t] + list(vals) for (i, t, vals) in rows], columns=["ID", "TIME"] + list(features)
    )
    if events is not None:
        df["EVENT_TIME"] = [events[i][0] for i in df["ID"]]
        df["EVENT_BOOL"] = [events[i][1] for i in df["ID"]]
    return df


def dataset_from_frame(df, **kw):
    return Dataset(Data.from_dataframe(df, **kw))


NAN = float("nan")

# catalogue of individuals: id -> list of (age, [y0, y1, y2])
INDIVIDUALS = {
    "a": [(62.0, [0.15, 0.10, 0.30, 0.22]), (66.5, [0.25, 0.20, 0.35, 0.31])],
    "b": [(70.0, [0.40, 0.30, 0.45, 0.38]), (72.0, [NAN, 0.50, 0.50, 0.41]), (80.0, [0.60, NAN, 0.70, NAN])],
    "c": [(75.0, [0.55, 0.65, 0.20, 0.47])],
    "d": [(58.0, [0.05, NAN, 0.10, 0.08]), (61.0, [0.12, 0.18, NAN, NAN]), (69.0, [0.30, 0.22, 0.28, 0.33])],
    "e": [(81.0, [0.70, 0.60, 0.80, 0.66]), (83.5, [0.85, 0.75, NAN, 0.72])],
}
EVENTS = {"a": (68.0, 0), "b": (82.5, 1), "c": (76.0, 1), "d": (75.0, 0), "e": (84.0, 1)}


def cohort_frame(ids, dim, *, joint=False, binary=False):
    feats = [f"Y{i}" for i in range(dim)]
    rows = []
    for i in ids:
        for age, vals in INDIVIDUALS[i]:
            vv = list(vals[:dim])
            if binary:
                vv = [v if v != v else float(v > 0.3) for v in vv]
            rows.append((i, age, vv))
    df = visits_frame(rows, feats, EVENTS if joint else None)
    return df


def cohort_dataset(ids, spec):
    joint = spec["kind"] == "joint"
    df = cohort_frame(ids, spec.get("dim", 2), joint=joint, binary=spec.get("noise") == "bernoulli")
    if joint:
        return Dataset(Data.from_dataframe(df, "joint"))
    return Dataset(Data.from_dataframe(df))


def fresh_state(model, dataset=None, *, latent="mode", fork=None):
    """A new State on the model's DAG holding the model's parameter/population values
    (+ data + individual latent values at prior mode when a dataset is given)."""
    st = model.state.clone(disable_auto_fork=True)
    st.auto_fork_type = fork
    if dataset is not None:
        model.put_data_variables(st, dataset)
        if latent is not None:
            if type(model).__name__ == "LogisticMultivariateMixtureModel":
                # prior-mode initialisation has no meaning per cluster: use the model's own (deterministic) start values
                model.put_individual_parameters(st, dataset)
                st.auto_fork_type = fork
            else:
                st.put_individual_latent_variables(latent, n_individuals=dataset.n_individuals)
    return st
